(* C17, part A: the repaired key encoding of dclab/cached.py is injective on
   call signatures; the unrepaired one is not. *)
From Coq Require Import ZArith List Bool Lia ZifyBool ZifyNat.
From Verif Require Import Model.C17.
Import ListNotations.
Open Scope Z_scope.
Ltac Zify.zify_post_hook ::= Z.div_mod_to_equations.

(* ---------------------------------------------------------------------- *)
(* little-endian fixed-width integers                                      *)
(* ---------------------------------------------------------------------- *)
Lemma le_bytes_length k n : length (le_bytes k n) = k.
Proof. revert n; induction k as [|k IH]; intros n; simpl; [reflexivity|now rewrite IH]. Qed.

Lemma le_bytes_inj k : forall n m,
  0 <= n < 256 ^ Z.of_nat k -> 0 <= m < 256 ^ Z.of_nat k ->
  le_bytes k n = le_bytes k m -> n = m.
Proof.
  induction k as [|k IH]; intros n m Hn Hm Heq.
  - simpl in Hn, Hm. lia.
  - rewrite Nat2Z.inj_succ, Z.pow_succ_r in Hn, Hm by lia.
    simpl in Heq. injection Heq as Hlo Hhi.
    assert (Hq : n / 256 = m / 256).
    { apply IH; [| |exact Hhi].
      - split; [apply Z.div_pos; lia|apply Z.div_lt_upper_bound; lia].
      - split; [apply Z.div_pos; lia|apply Z.div_lt_upper_bound; lia]. }
    rewrite (Z.div_mod n 256), (Z.div_mod m 256) by lia. now rewrite Hq, Hlo.
Qed.

Lemma pow_256_8 : 256 ^ Z.of_nat 8 = 2 ^ 64.
Proof. reflexivity. Qed.

Lemma le8_inj n m : 0 <= n < 2 ^ 64 -> 0 <= m < 2 ^ 64 -> le8 n = le8 m -> n = m.
Proof. intros Hn Hm; apply le_bytes_inj; now rewrite pow_256_8. Qed.

Lemma le8_length n : length (le8 n) = 8%nat.
Proof. apply le_bytes_length. Qed.

Opaque le8.

(* ---------------------------------------------------------------------- *)
(* lists                                                                    *)
(* ---------------------------------------------------------------------- *)
Lemma app_eq_len {X} : forall (a b x y : list X),
  length a = length b -> a ++ x = b ++ y -> a = b /\ x = y.
Proof.
  induction a as [|h a IH]; intros [|h' b] x y Hl He; simpl in *; try discriminate.
  - now split.
  - injection He as -> He. destruct (IH b x y) as [-> ->]; [lia|exact He|now split].
Qed.

Lemma cons_eq {X} (a b : X) l l' : a :: l = b :: l' -> a = b /\ l = l'.
Proof. intros H; inversion H; auto. Qed.

Lemma beqb_eq a : forall b, beqb a b = true <-> a = b.
Proof.
  induction a as [|x a IH]; intros [|y b]; simpl; split; intros H;
    try reflexivity; try discriminate.
  - apply andb_true_iff in H as [H1 H2]. apply Z.eqb_eq in H1. apply IH in H2. now subst.
  - injection H as -> ->. rewrite Z.eqb_refl. simpl. now apply IH.
Qed.

Lemma beqb_false a b : beqb a b = false -> a <> b.
Proof. intros H E. apply beqb_eq in E. congruence. Qed.

(* ---------------------------------------------------------------------- *)
(* chunk level: the concatenation of length-prefixed chunks is injective   *)
(* ---------------------------------------------------------------------- *)
Lemma small_blen b : small b = true -> 0 <= blen b < 2 ^ 64.
Proof. unfold small, blen. intros H. apply Z.ltb_lt in H. lia. Qed.

Lemma chunk_app_inj t t' r r' :
  small t = true -> small t' = true ->
  chunk t ++ r = chunk t' ++ r' -> t = t' /\ r = r'.
Proof.
  intros Ht Ht' He. unfold chunk in He. rewrite <- !app_assoc in He.
  apply app_eq_len in He as [Hl He]; [|now rewrite !le8_length].
  apply le8_inj in Hl; [|now apply small_blen|now apply small_blen].
  apply app_eq_len in He; [exact He|unfold blen in Hl; lia].
Qed.

Definition smalls (ts : list bytes) : Prop := Forall (fun t => small t = true) ts.

Lemma chunks_inj : forall ts ts',
  smalls ts -> smalls ts' -> flat_map chunk ts = flat_map chunk ts' -> ts = ts'.
Proof.
  induction ts as [|t ts IH]; intros [|t' ts'] Hs Hs' He; cbn [flat_map] in He.
  - reflexivity.
  - exfalso. apply (f_equal (@length Z)) in He. unfold chunk in He.
    rewrite !app_length, le8_length in He. simpl in He. lia.
  - exfalso. apply (f_equal (@length Z)) in He. unfold chunk in He.
    rewrite !app_length, le8_length in He. simpl in He. lia.
  - inversion Hs as [|? ? Ht Hts]; inversion Hs' as [|? ? Ht' Hts']; subst.
    apply chunk_app_inj in He as [-> He]; [|assumption|assumption].
    f_equal. now apply IH.
Qed.

(* ---------------------------------------------------------------------- *)
(* token level: unique parsing of the chunk sequence                        *)
(* ---------------------------------------------------------------------- *)
(* induction principle for the nested type *)
Fixpoint arg_ind' (P : arg -> Prop)
  (HA : forall dt sh d, P (Arr dt sh d)) (HO : forall ty r, P (Oth ty r))
  (HL : forall k l, Forall P l -> P (Seq k l)) (x : arg) : P x :=
  match x with
  | Arr dt sh d => HA dt sh d
  | Oth ty r => HO ty r
  | Seq k l =>
      HL k l ((fix go (l : list arg) : Forall P l :=
               match l with
               | [] => Forall_nil P
               | y :: l' => Forall_cons y (arg_ind' P HA HO HL y) (go l')
               end) l)
  end.

Definition ArgInj (x : arg) : Prop :=
  wf_arg x = true -> forall x' r r',
    wf_arg x' = true -> toks_arg x ++ r = toks_arg x' ++ r' -> x = x' /\ r = r'.

Lemma toks_args_inj_F : forall l,
  Forall ArgInj l -> forallb wf_arg l = true ->
  forall l' r r', length l = length l' -> forallb wf_arg l' = true ->
    flat_map toks_arg l ++ r = flat_map toks_arg l' ++ r' -> l = l' /\ r = r'.
Proof.
  intros l HF. induction HF as [|a l Ha HF IH]; intros Hw [|a' l'] r r' Hl Hw' He;
    simpl in Hl; try discriminate.
  - simpl in He. now split.
  - cbn [forallb] in Hw, Hw'.
    apply andb_true_iff in Hw as [Hwa Hw]. apply andb_true_iff in Hw' as [Hwa' Hw'].
    cbn [flat_map] in He. rewrite <- !app_assoc in He.
    apply (Ha Hwa) in He as [-> He]; [|assumption].
    destruct (IH Hw l' r r') as [-> ->]; [lia|assumption|exact He|now split].
Qed.

Lemma seq_kind_not_ndarray k : is_seq_kind k = true -> k <> t_ndarray.
Proof. intros H ->. discriminate H. Qed.

Lemma toks_arg_inj_all : forall x, ArgInj x.
Proof.
  induction x as [dt sh d|ty rp|k l IH] using arg_ind'; intros Hw x' r r' Hw' He.
  - destruct x' as [dt' sh' d'|ty' rp'|k' l']; cbn [toks_arg app] in He.
    + injection He as -> -> -> ->. now split.
    + exfalso. apply cons_eq in He as [Hty _]. subst ty'. simpl in Hw'. discriminate Hw'.
    + exfalso. apply cons_eq in He as [Hty _]. cbn [wf_arg] in Hw'.
      apply andb_true_iff in Hw' as [Hw' _]. apply andb_true_iff in Hw' as [Hk _].
      apply seq_kind_not_ndarray in Hk. congruence.
  - destruct x' as [dt' sh' d'|ty' rp'|k' l']; cbn [toks_arg app] in He.
    + exfalso. apply cons_eq in He as [Hty _]. subst ty. simpl in Hw. discriminate Hw.
    + injection He as -> -> ->. now split.
    + exfalso. apply cons_eq in He as [Hty _]. subst ty. cbn [wf_arg] in Hw, Hw'.
      apply andb_true_iff in Hw' as [Hw' _]. apply andb_true_iff in Hw' as [Hk _].
      rewrite Hk in Hw. simpl in Hw. rewrite andb_false_r in Hw. discriminate Hw.
  - destruct x' as [dt' sh' d'|ty' rp'|k' l']; cbn [toks_arg app] in He.
    + exfalso. apply cons_eq in He as [Hty _]. cbn [wf_arg] in Hw.
      apply andb_true_iff in Hw as [Hw _]. apply andb_true_iff in Hw as [Hk _].
      apply seq_kind_not_ndarray in Hk. congruence.
    + exfalso. apply cons_eq in He as [Hty _]. subst ty'. cbn [wf_arg] in Hw, Hw'.
      apply andb_true_iff in Hw as [Hw _]. apply andb_true_iff in Hw as [Hk _].
      rewrite Hk in Hw'. simpl in Hw'. rewrite andb_false_r in Hw'. discriminate Hw'.
    + cbn [wf_arg] in Hw, Hw'.
      apply andb_true_iff in Hw as [Hw Hn]. apply andb_true_iff in Hw as [_ Hf].
      apply andb_true_iff in Hw' as [Hw' Hn']. apply andb_true_iff in Hw' as [_ Hf'].
      apply cons_eq in He as [-> He]. apply cons_eq in He as [Hlen He].
      apply le8_inj in Hlen; [|lia|lia].
      apply (toks_args_inj_F l IH Hf) in He as [-> ->]; [now split|lia|assumption].
Qed.

Lemma toks_arg_inj x x' r r' :
  wf_arg x = true -> wf_arg x' = true ->
  toks_arg x ++ r = toks_arg x' ++ r' -> x = x' /\ r = r'.
Proof. intros Hw Hw' He. now apply (toks_arg_inj_all x Hw x' r r'). Qed.

Lemma toks_args_inj : forall l l' r r',
  length l = length l' ->
  forallb wf_arg l = true -> forallb wf_arg l' = true ->
  flat_map toks_arg l ++ r = flat_map toks_arg l' ++ r' -> l = l' /\ r = r'.
Proof.
  intros l l' r r' Hl Hw Hw' He.
  apply (toks_args_inj_F l); auto.
  apply Forall_forall. intros x _. apply toks_arg_inj_all.
Qed.

Definition wf_kw (kv : bytes * arg) : bool := small (fst kv) && wf_arg (snd kv).

Lemma toks_kws_inj : forall (l l' : list (bytes * arg)) r r',
  length l = length l' ->
  forallb wf_kw l = true -> forallb wf_kw l' = true ->
  flat_map toks_kw l ++ r = flat_map toks_kw l' ++ r' -> l = l' /\ r = r'.
Proof.
  induction l as [|[k v] l IH]; intros [|[k' v'] l'] r r' Hl Hw Hw' He; simpl in *;
    try discriminate.
  - now split.
  - apply andb_true_iff in Hw as [Ha Hw]. apply andb_true_iff in Hw' as [Ha' Hw'].
    unfold wf_kw in Ha, Ha'. simpl in Ha, Ha'.
    apply andb_true_iff in Ha as [_ Hv]. apply andb_true_iff in Ha' as [_ Hv'].
    unfold toks_kw in He. cbn [flat_map fst snd toks_arg app] in He.
    rewrite <- !app_assoc in He. cbn [app] in He.
    apply cons_eq in He as [_ He]. apply cons_eq in He as [-> He].
    apply toks_arg_inj in He as [-> He]; [|assumption|assumption].
    destruct (IH l' r r') as [-> ->]; [lia|assumption|assumption|exact He|now split].
Qed.

Lemma toks_sig_inj c c' :
  wf_sig c = true -> wf_sig c' = true -> toks_sig c = toks_sig c' -> c = c'.
Proof.
  intros Hw Hw' He. unfold wf_sig in Hw, Hw'.
  repeat (apply andb_true_iff in Hw as [Hw ?]).
  repeat (apply andb_true_iff in Hw' as [Hw' ?]).
  destruct c as [pos kw nm doc file]; destruct c' as [pos' kw' nm' doc' file'].
  simpl in *. unfold toks_sig in He. cbn [s_pos s_kw s_name s_doc s_file app] in He.
  apply cons_eq in He as [_ He]. apply cons_eq in He as [Hn He].
  apply le8_inj in Hn; [|lia|lia].
  apply toks_args_inj in He as [-> He]; [|lia|assumption|assumption].
  cbn [app] in He. apply cons_eq in He as [_ He]. apply cons_eq in He as [Hm He].
  apply le8_inj in Hm; [|lia|lia].
  apply toks_kws_inj in He as [-> He]; [|lia|assumption|assumption].
  apply toks_arg_inj in He as [-> He]; [|assumption|assumption].
  apply toks_arg_inj in He as [-> He]; [|assumption|assumption].
  rewrite <- (app_nil_r (toks_arg file)), <- (app_nil_r (toks_arg file')) in He.
  apply toks_arg_inj in He as [-> _]; [reflexivity|assumption|assumption].
Qed.

(* every token of a well-formed signature fits the length field *)
Lemma small_le8 n : small (le8 n) = true.
Proof. unfold small, blen. rewrite le8_length. reflexivity. Qed.

Lemma smalls_app a b : smalls a -> smalls b -> smalls (a ++ b).
Proof. unfold smalls. intros; apply Forall_app; now split. Qed.

Lemma seq_kind_small k : is_seq_kind k = true -> small k = true.
Proof.
  unfold is_seq_kind. intros H.
  repeat (apply orb_true_iff in H as [H|H]); apply beqb_eq in H; subst; reflexivity.
Qed.

Lemma smalls_arg : forall x, wf_arg x = true -> smalls (toks_arg x).
Proof.
  induction x as [dt sh d|ty rp|k l IH] using arg_ind'; cbn [wf_arg toks_arg]; intros H.
  - repeat (apply andb_true_iff in H as [H ?]); repeat constructor; assumption.
  - repeat (apply andb_true_iff in H as [H ?]); repeat constructor; assumption.
  - apply andb_true_iff in H as [H _]. apply andb_true_iff in H as [Hk H].
    constructor; [now apply seq_kind_small|].
    constructor; [apply small_le8|].
    induction IH as [|a l Ha IH IH2]; cbn [flat_map]; [constructor|].
    cbn [forallb] in H. apply andb_true_iff in H as [Hwa H].
    apply smalls_app; [now apply Ha|now apply IH2].
Qed.

Lemma smalls_args l : forallb wf_arg l = true -> smalls (flat_map toks_arg l).
Proof.
  induction l as [|a l IH]; simpl; intros H; [constructor|].
  apply andb_true_iff in H as [Ha H]. apply smalls_app; [now apply smalls_arg|now apply IH].
Qed.

Lemma smalls_kws l : forallb wf_kw l = true -> smalls (flat_map toks_kw l).
Proof.
  induction l as [|[k v] l IH]; simpl; intros H; [constructor|].
  apply andb_true_iff in H as [Ha H]. unfold wf_kw in Ha; simpl in Ha.
  apply andb_true_iff in Ha as [Hk Hv].
  unfold toks_kw; simpl. constructor; [reflexivity|]. constructor; [exact Hk|].
  apply smalls_app; [now apply smalls_arg|now apply IH].
Qed.

Lemma smalls_sig c : wf_sig c = true -> smalls (toks_sig c).
Proof.
  intros Hw. unfold wf_sig in Hw. repeat (apply andb_true_iff in Hw as [Hw ?]).
  unfold toks_sig. cbn [app].
  constructor; [reflexivity|]. constructor; [apply small_le8|].
  apply smalls_app; [now apply smalls_args|].
  constructor; [reflexivity|]. constructor; [apply small_le8|].
  apply smalls_app; [now apply smalls_kws|].
  apply smalls_app; [now apply smalls_arg|].
  apply smalls_app; now apply smalls_arg.
Qed.

(* the bytes fed to md5 by the repaired code determine the call *)
Lemma key_new_inj c c' :
  wf_sig c = true -> wf_sig c' = true -> key_new c = key_new c' -> c = c'.
Proof.
  intros Hw Hw' He. apply toks_sig_inj; [assumption|assumption|].
  apply chunks_inj; [now apply smalls_sig|now apply smalls_sig|exact He].
Qed.

(* ---------------------------------------------------------------------- *)
(* the unrepaired key collides                                              *)
(* ---------------------------------------------------------------------- *)
Transparent le8.

Definition f8 : bytes := [60; 102; 56].      (* "<f8" *)
Definition f4 : bytes := [60; 102; 52].      (* "<f4" *)
Definition t_int : bytes := [105; 110; 116]. (* "int" *)
Definition nm0 : arg := Oth t_str [107].    (* some function *)

Definition mk_sig (pos : list arg) : sig :=
  {| s_pos := pos; s_kw := []; s_name := nm0; s_doc := nm0; s_file := nm0 |}.

(* (1) argument boundaries: f(A[0:2], A[2:4]) vs f(A[0:1], A[1:4]) for an
       array A of four one-byte items *)
Definition w_boundary_1 : sig :=
  mk_sig [Arr [124; 117; 49] [40; 50; 44; 41] [1; 2];
          Arr [124; 117; 49] [40; 50; 44; 41] [3; 4]].
Definition w_boundary_2 : sig :=
  mk_sig [Arr [124; 117; 49] [40; 49; 44; 41] [1];
          Arr [124; 117; 49] [40; 51; 44; 41] [2; 3; 4]].

(* (2) same bytes, different dtype and shape: one float64 vs two float32 *)
Definition w_dtype_1 : sig :=
  mk_sig [Arr f8 [40; 49; 44; 41] [0; 0; 128; 63; 0; 0; 0; 64]].
Definition w_dtype_2 : sig :=
  mk_sig [Arr f4 [40; 50; 44; 41] [0; 0; 128; 63; 0; 0; 0; 64]].

(* (3) bins=55 vs bins=[5, 5] *)
Definition w_list_1 : sig := mk_sig [Oth t_int [53; 53]].
Definition w_list_2 : sig := mk_sig [Seq t_list [Oth t_int [53]; Oth t_int [53]]].

Lemma key_old_not_injective :
  exists c c', wf_sig c = true /\ wf_sig c' = true /\ c <> c' /\ key_old c = key_old c'.
Proof.
  exists w_boundary_1, w_boundary_2.
  split; [reflexivity|]. split; [reflexivity|]. split; [discriminate|reflexivity].
Qed.

Lemma key_old_collides_dtype :
  wf_sig w_dtype_1 = true /\ wf_sig w_dtype_2 = true /\ w_dtype_1 <> w_dtype_2
  /\ key_old w_dtype_1 = key_old w_dtype_2.
Proof. split; [reflexivity|]. split; [reflexivity|]. split; [discriminate|reflexivity]. Qed.

Lemma key_old_collides_list :
  wf_sig w_list_1 = true /\ wf_sig w_list_2 = true /\ w_list_1 <> w_list_2
  /\ key_old w_list_1 = key_old w_list_2.
Proof. split; [reflexivity|]. split; [reflexivity|]. split; [discriminate|reflexivity]. Qed.

(* the repaired key separates all of them (instances of key_new_inj, checked
   by computation as well) *)
Example key_new_separates :
  beqb (key_new w_boundary_1) (key_new w_boundary_2) = false
  /\ beqb (key_new w_dtype_1) (key_new w_dtype_2) = false
  /\ beqb (key_new w_list_1) (key_new w_list_2) = false.
Proof. vm_compute. repeat split. Qed.

(* non-vacuity of key_new_inj: a signature with arrays, a list, kwargs *)
Example wf_example :
  wf_sig {| s_pos := [Arr f8 [40; 49; 44; 41] [0; 0; 128; 63; 0; 0; 0; 64];
                      Seq t_list [Oth t_int [53]; Seq t_tuple [Oth t_int [53]; Seq t_dict []]];
                      Seq t_masked [Arr f8 [40; 49; 44; 41] [0; 0; 128; 63; 0; 0; 0; 64];
                                    Arr [124; 98; 49] [40; 49; 44; 41] [0]]];
            s_kw := [([98; 105; 110; 115], Oth t_int [53; 53])];
            s_name := nm0; s_doc := Oth [78; 111; 110; 101; 84; 121; 112; 101] [78; 111; 110; 101];
            s_file := nm0 |} = true.
Proof. reflexivity. Qed.
