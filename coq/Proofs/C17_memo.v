(* C17, part B: the FIFO memo table of dclab/cached.py:Cache. For every history
   of calls (any functions, any length, across eviction) interleaved with
   in-place modifications of returned objects, every call returns what a fresh
   computation returns -- provided the key is injective and a copy is handed
   out. Both provisos are necessary (refutations at the end). *)
From Coq Require Import ZArith List Bool Lia ZifyBool ZifyNat.
From Verif Require Import Model.C17 Proofs.C17_key.
Import ListNotations.
Open Scope Z_scope.

(* ---------------------------------------------------------------------- *)
(* heap lemmas (shared with the other parts)                               *)
(* ---------------------------------------------------------------------- *)
Section HeapLemmas.
  Context {V : Type}.
  Implicit Types h : @heap V.

  Lemma upd_length {X} (l : list X) n x : length (upd l n x) = length l.
  Proof. revert n; induction l as [|y l IH]; intros [|n]; simpl; auto. Qed.

  Lemma upd_other {X} (l : list X) n m x : n <> m -> nth_error (upd l n x) m = nth_error l m.
  Proof.
    revert n m; induction l as [|y l IH]; intros [|n] [|m] H; simpl; auto; try congruence.
  Qed.

  Lemma upd_same {X} (l : list X) n x : (n < length l)%nat -> nth_error (upd l n x) n = Some x.
  Proof.
    revert n; induction l as [|y l IH]; intros [|n] H; simpl in *; try lia; auto.
    apply IH; lia.
  Qed.

  Lemma hget_lt h r v : hget h r = Some v -> (r < length h)%nat.
  Proof.
    unfold hget. destruct (nth_error h r) as [[v' w]|] eqn:Hn; [|discriminate].
    intros _. apply nth_error_Some. congruence.
  Qed.

  Lemma hget_app_old h x r : (r < length h)%nat -> hget (h ++ x) r = hget h r.
  Proof. intros H. unfold hget. now rewrite nth_error_app1. Qed.

  Lemma hget_app_new h v w : hget (h ++ [(v, w)]) (length h) = Some v.
  Proof. unfold hget. rewrite nth_error_app2, Nat.sub_diag by lia. reflexivity. Qed.

  Lemma hmodify_length h r f : length (fst (hmodify h r f)) = length h.
  Proof.
    unfold hmodify. destruct (nth_error h r) as [[v [|]]|]; simpl; auto.
    apply upd_length.
  Qed.

  Lemma hmodify_other h r f r' : r' <> r -> hget (fst (hmodify h r f)) r' = hget h r'.
  Proof.
    intros H. unfold hmodify. destruct (nth_error h r) as [[v [|]]|]; simpl; auto.
    unfold hget. rewrite upd_other; auto.
  Qed.

  (* read-only cells never change *)
  Lemma hmodify_ro h r f r' v :
    nth_error h r' = Some (v, false) -> nth_error (fst (hmodify h r f)) r' = Some (v, false).
  Proof.
    intros H. unfold hmodify. destruct (nth_error h r) as [[v0 [|]]|] eqn:Hr; simpl; auto.
    destruct (Nat.eq_dec r r') as [->|Hne]; [congruence|].
    now rewrite upd_other.
  Qed.

  Lemma hmodify_ro_fail h r f v :
    nth_error h r = Some (v, false) -> hmodify h r f = (h, false).
  Proof. intros H. unfold hmodify. now rewrite H. Qed.
End HeapLemmas.

Lemma NoDup_snoc {X} (l : list X) x : NoDup l -> ~ In x l -> NoDup (l ++ [x]).
Proof.
  induction l as [|y l IH]; simpl; intros Hn Hx.
  - constructor; [tauto|constructor].
  - inversion Hn as [|? ? Hy Hl]; subst. constructor.
    + intros Hin. apply in_app_or in Hin as [Hin|[Hin|[]]]; [tauto|subst; tauto].
    + apply IH; tauto.
Qed.

(* ---------------------------------------------------------------------- *)
Section MemoBounded.
  Variables A K V E : Type.
  Variable key : A -> K.
  Variable keqb : K -> K -> bool.
  Variable F : A -> V + E.

  (* every value MAX_SIZE takes during the history is at most B *)
  Fixpoint caps_le (B : Z) (ops : list (mop A V)) : Prop :=
    match ops with
    | [] => True
    | SetCap c :: r => c <= B /\ caps_le B r
    | _ :: r => caps_le B r
    end.

  (* one step never lets the table grow beyond B >= MAX_SIZE, and never
     grows a table that is already larger than MAX_SIZE *)
  Lemma mstep_keys_bounded cpy s o B :
    m_cap s <= B -> Z.of_nat (length (m_keys s)) <= B ->
    Z.of_nat (length (m_keys (fst (mstep A K V E key keqb F cpy s o)))) <= B.
  Proof.
    intros Hc Hb. destruct o as [a|j f| |c]; unfold mstep.
    - destruct (lookup K keqb (key a) (m_cache s)) as [r|].
      + destruct (hand_out V cpy (m_heap s) r) as [h1 r1]. exact Hb.
      + destruct (F a) as [v|e]; [|exact Hb].
        unfold halloc.
        destruct (hand_out V cpy (m_heap s ++ [(v, true)]) (length (m_heap s))) as [h1 r1].
        destruct (m_cap s <? Z.of_nat (length (m_keys s ++ [key a]))) eqn:Hlt.
        * destruct (m_keys s ++ [key a]) as [|d ks] eqn:Hk.
          -- apply (f_equal (@length K)) in Hk. rewrite app_length in Hk. simpl in Hk. lia.
          -- apply (f_equal (@length K)) in Hk. rewrite app_length in Hk. simpl in *. lia.
        * simpl. lia.
    - destruct (nth_error (m_outs s) j) as [r|]; [|exact Hb].
      destruct (hmodify (m_heap s) r f) as [h1 ok]. exact Hb.
    - simpl. lia.
    - exact Hb.
  Qed.

  Lemma mstep_cap cpy s o :
    m_cap (fst (mstep A K V E key keqb F cpy s o))
    = match o with SetCap c => c | _ => m_cap s end.
  Proof.
    destruct o as [a|j f| |c]; unfold mstep; try reflexivity.
    - destruct (lookup K keqb (key a) (m_cache s)) as [r|].
      + destruct (hand_out V cpy (m_heap s) r) as [h1 r1]. reflexivity.
      + destruct (F a) as [v|e]; [|reflexivity]. unfold halloc.
        destruct (hand_out V cpy (m_heap s ++ [(v, true)]) (length (m_heap s))) as [h1 r1].
        destruct (if m_cap s <? Z.of_nat (length (m_keys s ++ [key a]))
                  then match m_keys s ++ [key a] with
                       | [] => (m_keys s ++ [key a], m_cache s ++ [(key a, length (m_heap s))])
                       | delref :: k' =>
                           (k', remove_key K keqb delref
                                           (m_cache s ++ [(key a, length (m_heap s))]))
                       end
                  else (m_keys s ++ [key a], m_cache s ++ [(key a, length (m_heap s))]))
          as [k2 c2]. reflexivity.
    - destruct (nth_error (m_outs s) j) as [r|]; [|reflexivity].
      destruct (hmodify (m_heap s) r f) as [h1 ok]. reflexivity.
  Qed.

  Lemma bounded_run cpy B : forall ops s,
    0 <= B -> m_cap s <= B -> caps_le B ops -> Z.of_nat (length (m_keys s)) <= B ->
    Z.of_nat (length (m_keys (fst (mrun A K V E key keqb F cpy s ops)))) <= B.
  Proof.
    induction ops as [|o ops IH]; intros s HB Hc Hcaps Hb; [exact Hb|].
    simpl. pose proof (mstep_keys_bounded cpy s o B Hc Hb) as H1.
    pose proof (mstep_cap cpy s o) as H2.
    destruct (mstep A K V E key keqb F cpy s o) as [s1 r]. cbn [fst] in H1, H2.
    assert (Hc1 : m_cap s1 <= B).
    { rewrite H2. destruct o; simpl in Hcaps; try exact Hc. tauto. }
    assert (Hcaps1 : caps_le B ops) by (destruct o; simpl in Hcaps; tauto).
    specialize (IH s1 HB Hc1 Hcaps1 H1).
    destruct (mrun A K V E key keqb F cpy s1 ops) as [s2 rs]. exact IH.
  Qed.
End MemoBounded.

(* ---------------------------------------------------------------------- *)
Section MemoProofs.
  Variables A K V E : Type.
  Variable key : A -> K.
  Variable keqb : K -> K -> bool.
  Variable F : A -> V + E.
  Hypothesis keqb_spec : forall x y, keqb x y = true <-> x = y.
  Variable Dom : A -> Prop.
  Hypothesis key_inj : forall a b, Dom a -> Dom b -> key a = key b -> a = b.

  Let step := mstep A K V E key keqb F true.
  Let run := mrun A K V E key keqb F true.

  Lemma keqb_refl k : keqb k k = true.
  Proof. now apply keqb_spec. Qed.

  Lemma lookup_some k c r : lookup K keqb k c = Some r -> In (k, r) c.
  Proof.
    induction c as [|[k' r'] c IH]; simpl; [discriminate|].
    destruct (keqb k k') eqn:Hk.
    - intros H; injection H as ->. apply keqb_spec in Hk as ->. now left.
    - intros H; right; auto.
  Qed.

  Lemma lookup_none k c : lookup K keqb k c = None -> ~ In k (map fst c).
  Proof.
    induction c as [|[k' r'] c IH]; simpl; [tauto|].
    destruct (keqb k k') eqn:Hk; [discriminate|].
    intros H [Heq|Hin]; [|now apply IH].
    subst k'. rewrite keqb_refl in Hk. discriminate.
  Qed.

  Lemma remove_key_head d r c : remove_key K keqb d ((d, r) :: c) = c.
  Proof. simpl. now rewrite keqb_refl. Qed.

  (* the invariant, on the components of the state *)
  Record InvC (ks : list K) (c : list (K * nat)) (h : @heap V) (outs : list nat) : Prop := {
    inv_keys : map fst c = ks;
    inv_nodup : NoDup ks;
    inv_sound : forall k r, In (k, r) c ->
        exists a v, Dom a /\ key a = k /\ F a = inl v /\ hget h r = Some v;
    inv_priv : forall k r, In (k, r) c -> ~ In r outs;
    inv_outs : forall r, In r outs -> (r < length h)%nat
  }.

  Definition Inv (s : mstate K V) : Prop :=
    InvC (m_keys s) (m_cache s) (m_heap s) (m_outs s).

  Lemma inv_init cap : Inv (m_init K V cap).
  Proof.
    constructor; simpl; try tauto; try constructor.
  Qed.

  Lemma inv_evict d ks c h outs :
    InvC (d :: ks) c h outs -> InvC ks (remove_key K keqb d c) h outs.
  Proof.
    intros [Hk Hn Hs Hp Ho].
    destruct c as [|[d' r0] c']; [discriminate|]. simpl in Hk.
    injection Hk as -> Hk. rewrite remove_key_head.
    constructor.
    - exact Hk.
    - now inversion Hn.
    - intros k r Hin. apply Hs. now right.
    - intros k r Hin. apply (Hp k). now right.
    - exact Ho.
  Qed.

  Definition op_dom (o : mop A V) : Prop :=
    match o with Call a => Dom a | _ => True end.

  Lemma mstep_ok s o :
    Inv s -> op_dom o ->
    Inv (fst (step s o))
    /\ obs V E (snd (step s o)) = Some (spec_op A V E F o).
  Proof.
    intros HI Hd. destruct HI as [Hk Hn Hs Hp Ho]. destruct o as [a|j f| |c]; simpl in Hd.
    - (* Call *)
      unfold step, mstep.
      destruct (lookup K keqb (key a) (m_cache s)) as [r|] eqn:Hl.
      + (* hit *)
        apply lookup_some in Hl.
        destruct (Hs _ _ Hl) as (a' & v & Hda & Hka & HF & Hg).
        assert (a' = a) by (now apply key_inj). subst a'.
        unfold hand_out. rewrite Hg. unfold halloc. cbn [fst snd].
        pose proof (hget_lt _ _ _ Hg) as Hlt.
        split.
        * constructor; cbn [m_keys m_cache m_heap m_outs m_cap].
          -- exact Hk.
          -- exact Hn.
          -- intros k r' Hin. destruct (Hs _ _ Hin) as (a2 & v2 & ? & ? & ? & Hg2).
             exists a2, v2. repeat split; auto.
             rewrite hget_app_old; [exact Hg2|now apply hget_lt in Hg2].
          -- intros k r' Hin Hio. apply in_app_or in Hio as [Hio|[Hio|[]]].
             ++ now apply (Hp k r').
             ++ destruct (Hs _ _ Hin) as (? & ? & ? & ? & ? & Hg2).
                apply hget_lt in Hg2. lia.
          -- intros r' Hio. rewrite app_length; simpl.
             apply in_app_or in Hio as [Hio|[Hio|[]]]; [apply Ho in Hio; lia|lia].
        * cbn [snd]. rewrite hget_app_new. simpl. now rewrite HF.
      + (* miss *)
        destruct (F a) as [v|e] eqn:HF.
        * unfold halloc. cbn [fst snd].
          set (h0 := m_heap s ++ [(v, true)]).
          set (r := length (m_heap s)).
          assert (Hg0 : hget h0 r = Some v) by apply hget_app_new.
          unfold hand_out. rewrite Hg0. unfold halloc.
          set (h1 := h0 ++ [(v, true)]).
          set (outs1 := m_outs s ++ [length h0]).
          (* invariant before eviction *)
          assert (Hpre : InvC (m_keys s ++ [key a]) (m_cache s ++ [(key a, r)]) h1 outs1).
          { constructor.
            - rewrite map_app, Hk. reflexivity.
            - apply lookup_none in Hl. rewrite Hk in Hl.
              apply NoDup_snoc; auto.
            - intros k r' Hin. apply in_app_or in Hin as [Hin|[Hin|[]]].
              + destruct (Hs _ _ Hin) as (a2 & v2 & ? & ? & ? & Hg2).
                exists a2, v2. repeat split; auto.
                pose proof (hget_lt _ _ _ Hg2).
                unfold h1, h0. rewrite !hget_app_old; auto. rewrite app_length; lia.
              + injection Hin as <- <-. exists a, v. repeat split; auto.
                unfold h1. rewrite hget_app_old; [exact Hg0|].
                unfold h0, r. rewrite app_length; simpl; lia.
            - intros k r' Hin Hio. unfold outs1 in Hio.
              assert (Hlt : (r' < length h0)%nat).
              { apply in_app_or in Hin as [Hin|[Hin|[]]].
                - destruct (Hs _ _ Hin) as (? & ? & ? & ? & ? & Hg2).
                  apply hget_lt in Hg2. unfold h0. rewrite app_length; lia.
                - injection Hin as <- <-. unfold h0, r. rewrite app_length; simpl; lia. }
              apply in_app_or in Hio as [Hio|[Hio|[]]]; [|lia].
              apply in_app_or in Hin as [Hin|[Hin|[]]].
              + now apply (Hp k r').
              + injection Hin as <- <-. apply Ho in Hio. unfold r in Hio. lia.
            - intros r' Hio. unfold outs1 in Hio. unfold h1, h0.
              rewrite !app_length; simpl.
              apply in_app_or in Hio as [Hio|[Hio|[]]].
              + apply Ho in Hio. lia.
              + subst r'. unfold h0. rewrite app_length; simpl; lia. }
          destruct (if m_cap s <? Z.of_nat (length (m_keys s ++ [key a]))
                    then match m_keys s ++ [key a] with
                         | [] => (m_keys s ++ [key a], m_cache s ++ [(key a, r)])
                         | delref :: k' =>
                             (k', remove_key K keqb delref (m_cache s ++ [(key a, r)]))
                         end
                    else (m_keys s ++ [key a], m_cache s ++ [(key a, r)]))
            as [k2 c2] eqn:Hev.
          cbn [fst snd]. split.
          -- unfold Inv. cbn [m_keys m_cache m_heap m_outs m_cap].
             destruct (m_cap s <? Z.of_nat (length (m_keys s ++ [key a]))).
             ++ destruct (m_keys s ++ [key a]) as [|d ks] eqn:Hks.
                ** injection Hev as <- <-. exact Hpre.
                ** injection Hev as <- <-. now apply inv_evict.
             ++ injection Hev as <- <-. exact Hpre.
          -- simpl. rewrite HF. unfold h1. now rewrite hget_app_new.
        * split; [constructor; assumption|]. simpl. now rewrite HF.
    - (* Mut *)
      unfold step, mstep.
      destruct (nth_error (m_outs s) j) as [r|] eqn:Hj.
      + apply nth_error_In in Hj.
        destruct (hmodify (m_heap s) r f) as [h1 ok] eqn:Hm.
        assert (Hh1 : h1 = fst (hmodify (m_heap s) r f)) by now rewrite Hm.
        split; [|reflexivity].
        constructor; cbn [fst m_keys m_cache m_heap m_outs]; auto.
        * intros k r' Hin. destruct (Hs _ _ Hin) as (a2 & v2 & ? & ? & ? & Hg2).
          exists a2, v2. repeat split; auto.
          rewrite Hh1, hmodify_other; auto.
          intros ->. now apply (Hp k r).
        * intros r' Hio. rewrite Hh1, hmodify_length. now apply Ho.
      + split; [constructor; assumption|reflexivity].
    - (* Clear *)
      unfold step, mstep. cbn [fst snd]. split; [|reflexivity].
      constructor; cbn [m_keys m_cache m_heap m_outs m_cap].
      + reflexivity.
      + constructor.
      + intros k r [].
      + intros k r [].
      + exact Ho.
    - (* SetCap *)
      unfold step, mstep. cbn [fst snd]. split; [constructor; assumption|reflexivity].
  Qed.

  (* every history: the outputs are those of fresh computations *)
  Lemma history_fresh_from : forall ops s,
    Inv s -> Forall op_dom ops ->
    map (obs V E) (snd (run s ops)) = map (fun o => Some (spec_op A V E F o)) ops.
  Proof.
    induction ops as [|o ops IH]; intros s HI Hd; [reflexivity|].
    inversion Hd as [|? ? Ho Hd']; subst.
    destruct (mstep_ok s o HI Ho) as [HI' Hobs].
    unfold run in *. simpl.
    fold step. destruct (step s o) as [s1 r] eqn:Hs.
    specialize (IH s1 HI' Hd').
    destruct (mrun A K V E key keqb F true s1 ops) as [s2 rs].
    simpl in *. now rewrite Hobs, IH.
  Qed.

  Lemma history_fresh : forall cap ops,
    Forall op_dom ops ->
    map (obs V E) (snd (run (m_init K V cap) ops)) = map (fun o => Some (spec_op A V E F o)) ops.
  Proof. intros cap ops Hd. apply history_fresh_from; [apply inv_init|exact Hd]. Qed.

  Lemma run_inv : forall ops s,
    Inv s -> Forall op_dom ops -> Inv (fst (run s ops)).
  Proof.
    induction ops as [|o ops IH]; intros s HI Hd; [exact HI|].
    inversion Hd as [|? ? Ho Hd']; subst.
    destruct (mstep_ok s o HI Ho) as [HI' _].
    unfold run in *. simpl. fold step. destruct (step s o) as [s1 r] eqn:Hs.
    specialize (IH s1 HI' Hd').
    destruct (mrun A K V E key keqb F true s1 ops) as [s2 rs]. exact IH.
  Qed.

  (* _keys and _cache stay in step *)
  Lemma cache_keys_aligned cap ops :
    Forall op_dom ops ->
    map fst (m_cache (fst (run (m_init K V cap) ops))) = m_keys (fst (run (m_init K V cap) ops)).
  Proof.
    intros Hd. pose proof (run_inv ops _ (inv_init cap) Hd) as HI. apply HI.
  Qed.
End MemoProofs.

(* ---------------------------------------------------------------------- *)
(* The memoised dclab functions: key = md5 of the repaired byte encoding.  *)
(* md5 is an oracle, assumed collision-free on the byte strings fed to it. *)
(* ---------------------------------------------------------------------- *)
Section Concrete.
  Variables D V E : Type.                  (* digests, results, exceptions *)
  Variable md5 : bytes -> D.
  Variable deqb : D -> D -> bool.
  Hypothesis deqb_spec : forall x y, deqb x y = true <-> x = y.
  Hypothesis md5_collision_free :
    forall c c', wf_sig c = true -> wf_sig c' = true ->
                 md5 (key_new c) = md5 (key_new c') -> key_new c = key_new c'.
  Variable F : sig -> V + E.               (* the undecorated functions *)

  Definition sig_dom (o : mop sig V) : Prop :=
    match o with Call c => wf_sig c = true | _ => True end.

  Lemma cache_history_fresh : forall cap ops,
    Forall sig_dom ops ->
    map (obs V E) (snd (mrun sig D V E (fun c => md5 (key_new c)) deqb F true
                             (m_init D V cap) ops))
    = map (fun o => Some (spec_op sig V E F o)) ops.
  Proof.
    intros cap ops Hd.
    apply (history_fresh sig D V E (fun c => md5 (key_new c)) deqb F deqb_spec
                         (fun c => wf_sig c = true)).
    - intros a b Ha Hb He. apply key_new_inj; auto.
    - eapply Forall_impl; [|exact Hd]. intros [c|j f| |c]; simpl; auto.
  Qed.

  (* the table never holds more entries than the largest MAX_SIZE in force
     during the history *)
  Lemma cache_bounded : forall cpy cap B ops,
    0 <= B -> cap <= B -> caps_le sig V B ops ->
    Z.of_nat (length (m_keys (fst (mrun sig D V E (fun c => md5 (key_new c)) deqb F cpy
                                        (m_init D V cap) ops)))) <= B.
  Proof. intros cpy cap B ops HB Hc Hcaps. apply bounded_run; simpl; auto; lia. Qed.

  (* sentence 2 of the property for the memoised functions: what the calls
     return does not depend on the in-place modifications of earlier results *)
  Definition is_call (o : mop sig V) : bool :=
    match o with Call _ => true | _ => false end.
  Definition is_mut (o : mop sig V) : bool :=
    match o with Mut _ _ => true | _ => false end.
  Definition call_obs {X} (ops : list (mop sig V)) (outs : list X) : list X :=
    map snd (filter (fun p => is_call (fst p)) (combine ops outs)).
  Definition drop_muts (ops : list (mop sig V)) := filter (fun o => negb (is_mut o)) ops.

  Lemma call_obs_map {X} (g : mop sig V -> X) ops :
    call_obs ops (map g ops) = map g (filter is_call ops).
  Proof.
    unfold call_obs. induction ops as [|o ops IH]; [reflexivity|].
    simpl. destruct (is_call o); simpl; now rewrite IH.
  Qed.

  Lemma filter_call_drop_muts ops : filter is_call (drop_muts ops) = filter is_call ops.
  Proof.
    unfold drop_muts. induction ops as [|o ops IH]; [reflexivity|].
    destruct o; simpl; now rewrite IH.
  Qed.

  Lemma cache_calls_independent_of_modifications : forall cap ops,
    Forall sig_dom ops ->
    call_obs ops (map (obs V E)
      (snd (mrun sig D V E (fun c => md5 (key_new c)) deqb F true (m_init D V cap) ops)))
    = call_obs (drop_muts ops) (map (obs V E)
        (snd (mrun sig D V E (fun c => md5 (key_new c)) deqb F true (m_init D V cap)
                   (drop_muts ops)))).
  Proof.
    intros cap ops Hd.
    assert (Hd' : Forall sig_dom (drop_muts ops)).
    { unfold drop_muts. apply Forall_forall. intros o Ho. apply filter_In in Ho as [Ho _].
      revert o Ho. now apply Forall_forall. }
    rewrite (cache_history_fresh cap ops Hd), (cache_history_fresh cap _ Hd').
    now rewrite !call_obs_map, filter_call_drop_muts.
  Qed.
End Concrete.

(* the table can exceed the *current* MAX_SIZE after the value was lowered:
   a miss evicts one entry only *)
Lemma bounded_by_current_cap_refuted :
  exists ops : list (mop Z Z),
    let s := fst (mrun Z Z Z Z (fun a => a) Z.eqb (fun a => inl a) true (m_init Z Z 3) ops) in
    m_cap s < Z.of_nat (length (m_keys s)).
Proof. exists [Call 1; Call 2; Call 3; SetCap 1; Call 4]. vm_compute. reflexivity. Qed.

(* ---------------------------------------------------------------------- *)
(* Refutations: the unrepaired code (documents the defects repaired by      *)
(* eb0f8b1; these statements are about code that is no longer in /repo)     *)
(* ---------------------------------------------------------------------- *)
(* (a) the cached object itself is handed out: a caller who modifies the
       result in place changes what the next call returns *)
Lemma alias_refuted :
  exists ops : list (mop Z Z),
    map (obs Z Z) (snd (mrun Z Z Z Z (fun a => a) Z.eqb (fun a => inl (10 * a)) false
                             (m_init Z Z 100) ops))
    <> map (fun o => Some (spec_op Z Z Z (fun a => inl (10 * a)) o)) ops.
Proof.
  exists [Call 1; Mut 0 (fun v => v + 1); Call 1]. vm_compute. discriminate.
Qed.

(* (b) the unrepaired key: two different calls share a table entry, the
       second gets the result of the first *)
Definition F_len (c : sig) : Z + Z :=
  inl (match s_pos c with x :: _ => blen (old_arg x) | [] => 0 end).

Lemma key_old_refuted :
  exists ops : list (mop sig Z),
    Forall (sig_dom Z) ops /\
    map (obs Z Z) (snd (mrun sig bytes Z Z key_old beqb F_len true
                             (m_init bytes Z 100) ops))
    <> map (fun o => Some (spec_op sig Z Z F_len o)) ops.
Proof.
  exists [Call w_boundary_1; Call w_boundary_2]. split.
  - repeat constructor.
  - vm_compute. discriminate.
Qed.

(* non-vacuity: the same history under the repaired key, by computation *)
Example key_new_history :
  map (obs Z Z) (snd (mrun sig bytes Z Z key_new beqb F_len true (m_init bytes Z 1)
                           [Call w_boundary_1; Call w_boundary_2; Mut 0 (fun v => v + 1);
                            Call w_boundary_1; SetCap 5; Call w_dtype_1; Clear; Call w_dtype_2;
                            Call w_boundary_1]))
  = [Some (SVal 2); Some (SVal 1); Some SNone; Some (SVal 2); Some SNone; Some (SVal 8);
     Some SNone; Some (SVal 8); Some (SVal 2)].
Proof. vm_compute. reflexivity. Qed.

