(* C17, part G: util.obj2bytes is not injective (joins sequences without
   boundaries, drops dtype/shape of arrays, None = "none"), but it is injective
   on values of one fixed layout -- which is what AncillaryFeature.hash, the
   hierarchy parent hash and the polygon-filter hash feed it. The unrepaired
   LazyContourList.identifier (first mask only) makes contour-derived ancillary
   features stale. Plus the per-object ufunc caches. *)
From Coq Require Import ZArith List Bool Lia ZifyBool ZifyNat.
From Verif Require Import Model.C17 Proofs.C17_key Proofs.C17_memo.
Import ListNotations.
Open Scope Z_scope.

Fixpoint pobj_ind' (P : pobj -> Prop)
  (HS : forall b, P (PStr b)) (HN : forall r, P (PNum r)) (H0 : P PNone)
  (HA : forall dt sh d, P (PArr dt sh d))
  (HL : forall l, Forall P l -> P (PSeq l)) (o : pobj) : P o :=
  match o with
  | PStr b => HS b
  | PNum r => HN r
  | PNone => H0
  | PArr dt sh d => HA dt sh d
  | PSeq l =>
      HL l ((fix go (l : list pobj) : Forall P l :=
               match l with
               | [] => Forall_nil P
               | y :: l' => Forall_cons y (pobj_ind' P HS HN H0 HA HL y) (go l')
               end) l)
  end.

Definition LayInj (o : pobj) : Prop :=
  forall o' r r', layout o = layout o' ->
    obj2bytes o ++ r = obj2bytes o' ++ r' -> o = o' /\ r = r'.

Lemma seq_layout_inj : forall l,
  Forall LayInj l ->
  forall l' r r', map layout l = map layout l' ->
    flat_map obj2bytes l ++ r = flat_map obj2bytes l' ++ r' -> l = l' /\ r = r'.
Proof.
  intros l HF. induction HF as [|a l Ha HF IH]; intros [|a' l'] r r' Hl He;
    simpl in Hl; try discriminate.
  - simpl in He. now split.
  - injection Hl as Hla Hl. cbn [flat_map] in He. rewrite <- !app_assoc in He.
    apply (Ha a' _ _ Hla) in He as [-> He].
    destruct (IH l' r r' Hl He) as [-> ->]. now split.
Qed.

Lemma obj2bytes_layout_inj_all : forall o, LayInj o.
Proof.
  induction o as [b|rp| |dt sh d|l IH] using pobj_ind'; intros o' r r' Hl He;
    destruct o' as [b'|rp'| |dt' sh' d'|l']; simpl in Hl; try discriminate Hl.
  - injection Hl as Hl. simpl in He. apply app_eq_len in He as [-> ->]; auto.
  - injection Hl as Hl. simpl in He. apply app_eq_len in He as [-> ->]; auto.
  - simpl in He. injection He as ->. now split.
  - injection Hl as -> -> Hl. simpl in He. apply app_eq_len in He as [-> ->]; auto.
  - injection Hl as Hl. cbn [obj2bytes] in He.
    apply (seq_layout_inj l IH) in He as [-> ->]; auto.
Qed.

(* on values of one layout the encoding determines the value *)
Lemma obj2bytes_inj_same_layout o o' :
  layout o = layout o' -> obj2bytes o = obj2bytes o' -> o = o'.
Proof.
  intros Hl He.
  destruct (obj2bytes_layout_inj_all o o' [] [] Hl) as [H _]; [|exact H].
  now rewrite !app_nil_r.
Qed.

(* in general it does not *)
Lemma obj2bytes_not_injective :
  exists o o', o <> o' /\ obj2bytes o = obj2bytes o'.
Proof.
  exists (PSeq [PStr [97; 98]; PStr [99]]), (PSeq [PStr [97]; PStr [98; 99]]).
  split; [discriminate|reflexivity].
Qed.

Lemma obj2bytes_dtype_collision :
  PArr f8 [40; 49; 44; 41] [0; 0; 0; 0; 0; 0; 240; 63]
  <> PArr [60; 105; 56] [40; 49; 44; 41] [0; 0; 0; 0; 0; 0; 240; 63]
  /\ obj2bytes (PArr f8 [40; 49; 44; 41] [0; 0; 0; 0; 0; 0; 240; 63])
     = obj2bytes (PArr [60; 105; 56] [40; 49; 44; 41] [0; 0; 0; 0; 0; 0; 240; 63]).
Proof. split; [discriminate|reflexivity]. Qed.

Lemma obj2bytes_none_collision :
  PNone <> PStr t_none /\ obj2bytes PNone = obj2bytes (PStr t_none).
Proof. split; [discriminate|reflexivity]. Qed.

Example layout_example :
  layout (PSeq [PArr f8 [40; 50; 44; 41] [1; 2]; PStr [97]; PNone])
  = layout (PSeq [PArr f8 [40; 50; 44; 41] [3; 4]; PStr [98]; PNone]).
Proof. reflexivity. Qed.

(* ---------------------------------------------------------------------- *)
(* RTDCBase._ancillaries: one (hash, data) entry per feature               *)
(* ---------------------------------------------------------------------- *)
Section Ancillary.
  Variables D V E : Type.
  Variable md5 : bytes -> D.
  Variable deqb : D -> D -> bool.
  Hypothesis deqb_spec : forall x y, deqb x y = true <-> x = y.
  Variable L : lay.                        (* the layout of what is hashed *)
  Definition anc_dom (items : list pobj) : Prop := layout (PSeq items) = L.
  Hypothesis md5_collision_free :
    forall i i', anc_dom i -> anc_dom i' ->
                 md5 (anc_key i) = md5 (anc_key i') -> anc_key i = anc_key i'.
  Variable F : list pobj -> V + E.         (* AncillaryFeature.compute *)

  Lemma ancillary_history_fresh : forall ops : list (mop (list pobj) V),
    Forall (op_dom (list pobj) V anc_dom) ops ->
    map (obs V E) (snd (mrun (list pobj) D V E (fun i => md5 (anc_key i)) deqb F true
                             (m_init D V 1) ops))
    = map (fun o => Some (spec_op (list pobj) V E F o)) ops.
  Proof.
    apply (history_fresh (list pobj) D V E (fun i => md5 (anc_key i)) deqb F deqb_spec anc_dom).
    intros a b Ha Hb He. apply md5_collision_free in He; auto.
    unfold anc_dom in *. unfold anc_key in He.
    assert (H : PSeq a = PSeq b) by (apply obj2bytes_inj_same_layout; congruence).
    now injection H.
  Qed.
End Ancillary.

(* the unrepaired identifier of LazyContourList: the second mask stack shares
   its first mask with the first one; the contour-derived feature is stale *)
Lemma contour_identifier_refuted :
  exists ops : list (mop (list bytes) bytes),
    map (obs bytes Z) (snd (mrun (list bytes) bytes bytes Z lcl_ident_old beqb
                                 (fun m => inl (concat m)) true (m_init bytes bytes 1) ops))
    <> map (fun o => Some (spec_op (list bytes) bytes Z (fun m => inl (concat m)) o)) ops.
Proof.
  exists [Call [[1; 0]; [0; 1]]; Call [[1; 0]; [1; 1]]]. vm_compute. discriminate.
Qed.

(* ---------------------------------------------------------------------- *)
(* per-object ufunc caches                                                  *)
(* ---------------------------------------------------------------------- *)
Section UfuncProofs.
  Variables D W : Type.
  Variable ufunc : Z -> D -> W.

  Definition UInv (s : ustate D W) : Prop :=
    match u_obj s with
    | None => True
    | Some (arr, attrs) => forall k w, attr_get W k attrs = Some w -> w = ufunc k arr
    end.

  Lemma ufunc_history_from : forall ops s,
    UInv s ->
    urun D W ufunc s ops = uspec D W ufunc (u_parent s) (option_map fst (u_obj s)) ops.
  Proof.
    induction ops as [|o ops IH]; intros s HI; [reflexivity|].
    destruct o as [d| |k]; simpl.
    - f_equal. apply (IH {| u_parent := d; u_obj := u_obj s |}). exact HI.
    - f_equal. apply (IH {| u_parent := u_parent s; u_obj := None |}). exact I.
    - unfold UInv in HI.
      destruct (u_obj s) as [[arr attrs]|] eqn:Ho; simpl.
      + destruct (attr_get W k attrs) as [w|] eqn:Hk.
        * rewrite (HI k w Hk). f_equal.
          rewrite (IH {| u_parent := u_parent s; u_obj := Some (arr, attrs) |}); [reflexivity|].
          unfold UInv; simpl. exact HI.
        * f_equal.
          rewrite (IH {| u_parent := u_parent s; u_obj := Some (arr, (k, ufunc k arr) :: attrs) |});
            [reflexivity|].
          unfold UInv; simpl. intros k' w'. destruct (k' =? k) eqn:Hkk.
          -- intros H; injection H as <-. f_equal. lia.
          -- apply HI.
      + f_equal.
        rewrite (IH {| u_parent := u_parent s; u_obj := Some (u_parent s, [(k, ufunc k (u_parent s))]) |});
          [reflexivity|].
        unfold UInv; simpl. intros k' w'. destruct (k' =? k) eqn:Hkk; [|discriminate].
        intros H; injection H as <-. f_equal. lia.
  Qed.

  Lemma ufunc_history_fresh : forall d ops,
    urun D W ufunc {| u_parent := d; u_obj := None |} ops = uspec D W ufunc d None ops.
  Proof. intros d ops. apply (ufunc_history_from ops {| u_parent := d; u_obj := None |}). exact I. Qed.
  (* With the documented discipline -- rejuvenate the child after every change
     of the parent before reading -- every summary is that of the data the
     parent currently passes on. *)
  Fixpoint synced (dirty : bool) (ops : list (uop D)) : bool :=
    match ops with
    | [] => true
    | UParent _ :: r => synced true r
    | URejuvenate :: r => synced false r
    | UAttr _ :: r => negb dirty && synced dirty r
    end.

  Fixpoint ucurrent (parent : D) (ops : list (uop D)) : list (option W) :=
    match ops with
    | [] => []
    | UParent d :: r => None :: ucurrent d r
    | URejuvenate :: r => None :: ucurrent parent r
    | UAttr k :: r => Some (ufunc k parent) :: ucurrent parent r
    end.

  Lemma uspec_synced : forall ops parent seen,
    synced (match seen with Some d => negb true && false | None => false end) ops = true ->
    (match seen with Some d => d = parent | None => True end) ->
    uspec D W ufunc parent seen ops = ucurrent parent ops.
  Proof.
    assert (H : forall ops parent seen dirty,
               synced dirty ops = true ->
               (dirty = false -> match seen with Some d => d = parent | None => True end) ->
               (dirty = true -> True) ->
               uspec D W ufunc parent seen ops = ucurrent parent ops).
    { induction ops as [|o ops IH]; intros parent seen dirty Hs Hc _; [reflexivity|].
      destruct o as [d| |k]; simpl in *.
      - f_equal. apply (IH d seen true Hs); [discriminate|auto].
      - f_equal. apply (IH parent None false Hs); auto.
      - apply andb_true_iff in Hs as [Hd Hs]. destruct dirty; [discriminate|].
        specialize (Hc eq_refl).
        assert (Hd' : match seen with Some d => d | None => parent end = parent)
          by (destruct seen; auto).
        rewrite Hd'. f_equal. apply (IH parent (Some parent) false Hs); auto. }
    intros ops parent seen Hs Hc. destruct seen; simpl in Hs.
    - apply (H ops parent (Some d) false Hs); auto.
    - apply (H ops parent None false Hs); auto.
  Qed.

  Lemma ufunc_fresh_when_rejuvenated : forall d ops,
    synced false ops = true ->
    urun D W ufunc {| u_parent := d; u_obj := None |} ops = ucurrent d ops.
  Proof.
    intros d ops Hs. rewrite ufunc_history_fresh.
    apply (uspec_synced ops d None); simpl; auto.
  Qed.
End UfuncProofs.

Example ufunc_synced_example :
  synced Z false [UAttr 0; UParent 20; URejuvenate; UAttr 0; UAttr 1] = true.
Proof. reflexivity. Qed.

Example ufunc_example :
  urun Z Z (fun k d => k + d) {| u_parent := 10; u_obj := None |}
       [UAttr 0; UParent 20; UAttr 0; UAttr 1; URejuvenate; UAttr 0]
  = [Some 10; None; Some 10; Some 11; None; Some 20].
Proof. reflexivity. Qed.
