(* C17, parts C-E: the file-hash cache, LazyContourList and the per-object
   array caches return what a fresh computation returns, for every history. *)
From Coq Require Import ZArith List Bool Lia ZifyBool ZifyNat.
From Verif Require Import Model.C17 Proofs.C17_memo.
Import ListNotations.
Open Scope Z_scope.

(* ====================================================================== *)
(* Part C: util.file_monitoring_lru_cache                                  *)
(* ====================================================================== *)
Section HashFileProofs.
  Variables C ARGS HV E : Type.
  Variable aeqb : ARGS -> ARGS -> bool.
  Variable size_of : C -> Z.
  Variable fresh : C -> ARGS -> HV + E.
  Variable maxsize : Z.
  Hypothesis aeqb_spec : forall x y, aeqb x y = true <-> x = y.

  Let step := fstep C ARGS HV E aeqb size_of fresh maxsize.
  Let run := frun C ARGS HV E aeqb size_of fresh maxsize.
  Let spec := fspec C ARGS HV E fresh.
  Let FS := list (Z * (C * Z)).

  Lemma fkeqb_eq (a b : fkey ARGS) : fkeqb ARGS aeqb a b = true -> a = b.
  Proof.
    destruct a as [[[p m] s] x]; destruct b as [[[p' m'] s'] x']. unfold fkeqb.
    intros H. repeat (apply andb_true_iff in H as [H ?]).
    apply Z.eqb_eq in H. apply aeqb_spec in H0.
    assert (m = m') by lia. assert (s = s') by lia. now subst.
  Qed.

  Lemma fs_get_del (fs : FS) p p' :
    fs_get C (fs_del C fs p) p' = if p' =? p then None else fs_get C fs p'.
  Proof.
    induction fs as [|[q x] fs IH]; simpl.
    - now destruct (p' =? p).
    - destruct (p =? q) eqn:Hpq.
      + rewrite IH. destruct (p' =? p) eqn:Hp; [reflexivity|].
        assert (p' =? q = false) by lia. now rewrite H.
      + simpl. destruct (p' =? q) eqn:Hq.
        * assert (p' =? p = false) by lia. now rewrite H.
        * exact IH.
  Qed.

  Lemma fs_get_set (fs : FS) p x p' :
    fs_get C (fs_set C fs p x) p' = if p' =? p then Some x else fs_get C fs p'.
  Proof.
    unfold fs_set. simpl. destruct (p' =? p) eqn:Hp; [reflexivity|].
    rewrite fs_get_del. now rewrite Hp.
  Qed.

  Lemma lru_take_some k l v rest :
    lru_take ARGS HV aeqb k l = Some (v, rest) ->
    In (k, v) l /\ (forall e, In e rest -> In e l).
  Proof.
    revert v rest. induction l as [|[k' v'] l IH]; intros v rest; simpl; [discriminate|].
    destruct (fkeqb ARGS aeqb k k') eqn:Hk.
    - intros H; injection H as <- <-. apply fkeqb_eq in Hk as <-.
      split; [now left|intros e He; now right].
    - destruct (lru_take ARGS HV aeqb k l) as [[w l'']|] eqn:Ht; [|discriminate].
      intros H; injection H as <- <-. destruct (IH _ _ eq_refl) as [Hin Hsub].
      split; [now right|]. intros e [He|He]; [now left|right; auto].
  Qed.

  Lemma in_tl {X} (l : list X) e : In e (tl l) -> In e l.
  Proof. destruct l; simpl; auto. Qed.

  Definition SeenFun (seen : list (Z * Z * Z * C)) : Prop :=
    forall p m sz c c', In (p, m, sz, c) seen -> In (p, m, sz, c') seen -> c = c'.

  Record FInv (seen : list (Z * Z * Z * C)) (s : fstate C ARGS HV) : Prop := {
    finv_fs : forall p c m, fs_get C (f_fs s) p = Some (c, m) -> In (p, m, size_of c, c) seen;
    finv_lru : forall p m sz x v, In ((p, m, sz, x), v) (f_lru s) ->
        exists c, In (p, m, sz, c) seen /\ fresh c x = inl v;
    finv_fun : SeenFun seen
  }.

  Lemma hashfile_fresh_from : forall ops seen s,
    FInv seen s -> stats_ok C ARGS size_of seen ops ->
    map (fobs HV E) (snd (run s ops)) = spec (f_fs s) ops.
  Proof.
    induction ops as [|o ops IH]; intros seen s HI Hok; [reflexivity|].
    destruct HI as [Hfs Hlru Hfun].
    unfold run, spec in *. destruct o as [p c m|p|p x]; simpl in Hok |- *.
    - (* write *)
      destruct Hok as [Hnew Hok].
      set (s1 := {| f_fs := fs_set C (f_fs s) p (c, m); f_lru := f_lru s |}).
      assert (HI1 : FInv ((p, m, size_of c, c) :: seen) s1).
      { constructor; unfold s1; cbn [f_fs f_lru].
        - intros p' c' m' Hg. rewrite fs_get_set in Hg. destruct (p' =? p) eqn:Hp.
          + injection Hg as <- <-. assert (p' = p) by lia. subst. now left.
          + right. now apply Hfs.
        - intros p' m' sz x v Hin. destruct (Hlru _ _ _ _ _ Hin) as (c' & Hs & Hf).
          exists c'. split; [now right|exact Hf].
        - intros p' m' sz c1 c2 [H1|H1] [H2|H2].
          + congruence.
          + injection H1 as <- <- <- <-. symmetry. now apply Hnew.
          + injection H2 as <- <- <- <-. now apply Hnew.
          + eapply Hfun; eauto. }
      specialize (IH _ s1 HI1 Hok).
      destruct (frun C ARGS HV E aeqb size_of fresh maxsize s1 ops) as [s2 rs].
      simpl in *. now rewrite IH.
    - (* delete *)
      set (s1 := {| f_fs := fs_del C (f_fs s) p; f_lru := f_lru s |}).
      assert (HI1 : FInv seen s1).
      { constructor; unfold s1; cbn [f_fs f_lru]; auto.
        intros p' c' m' Hg. rewrite fs_get_del in Hg.
        destruct (p' =? p); [discriminate|now apply Hfs]. }
      specialize (IH _ s1 HI1 Hok).
      destruct (frun C ARGS HV E aeqb size_of fresh maxsize s1 ops) as [s2 rs].
      simpl in *. now rewrite IH.
    - (* hash *)
      destruct (fs_get C (f_fs s) p) as [[c m]|] eqn:Hg.
      + destruct (lru_take ARGS HV aeqb (p, m, size_of c, x) (f_lru s)) as [[v rest]|] eqn:Ht.
        * apply lru_take_some in Ht as [Hin Hsub].
          destruct (Hlru _ _ _ _ _ Hin) as (c' & Hs & Hf).
          assert (c' = c) by (eapply Hfun; eauto). subst c'.
          set (s1 := {| f_fs := f_fs s; f_lru := rest ++ [(p, m, size_of c, x, v)] |}).
          assert (HI1 : FInv seen s1).
          { constructor; unfold s1; cbn [f_fs f_lru]; auto.
            intros p' m' sz x' v' Hi. apply in_app_or in Hi as [Hi|[Hi|[]]].
            - apply Hlru. now apply Hsub.
            - injection Hi as <- <- <- <- <-. eauto. }
          specialize (IH _ s1 HI1 Hok).
          destruct (frun C ARGS HV E aeqb size_of fresh maxsize s1 ops) as [s2 rs].
          simpl in *. now rewrite IH, Hf.
        * destruct (fresh c x) as [v|e] eqn:Hf.
          -- set (l1 := f_lru s ++ [(p, m, size_of c, x, v)]).
             set (s1 := {| f_fs := f_fs s;
                           f_lru := if maxsize <? Z.of_nat (length l1) then tl l1 else l1 |}).
             assert (HI1 : FInv seen s1).
             { constructor; unfold s1; cbn [f_fs f_lru]; auto.
               intros p' m' sz x' v' Hi.
               assert (Hi' : In (p', m', sz, x', v') l1).
               { destruct (maxsize <? Z.of_nat (length l1)); [now apply in_tl|exact Hi]. }
               unfold l1 in Hi'. apply in_app_or in Hi' as [Hi'|[Hi'|[]]].
               - now apply Hlru.
               - injection Hi' as <- <- <- <- <-. eauto. }
             specialize (IH _ s1 HI1 Hok).
             destruct (frun C ARGS HV E aeqb size_of fresh maxsize s1 ops) as [s2 rs].
             simpl in *. now rewrite IH.
          -- assert (HI1 : FInv seen s) by (constructor; auto).
             specialize (IH _ s HI1 Hok).
             destruct (frun C ARGS HV E aeqb size_of fresh maxsize s ops) as [s2 rs].
             simpl in *. now rewrite IH.
      + assert (HI1 : FInv seen s) by (constructor; auto).
        specialize (IH _ s HI1 Hok).
        destruct (frun C ARGS HV E aeqb size_of fresh maxsize s ops) as [s2 rs].
        simpl in *. now rewrite IH.
  Qed.

  Lemma hashfile_fresh : forall ops,
    stats_ok C ARGS size_of [] ops ->
    map (fobs HV E) (snd (run {| f_fs := []; f_lru := [] |} ops)) = spec [] ops.
  Proof.
    intros ops Hok. apply (hashfile_fresh_from ops [] {| f_fs := []; f_lru := [] |}); auto.
    constructor; simpl; try tauto; try discriminate. intros p m sz c c' [].
  Qed.

  (* the lru list never exceeds maxsize *)
  Lemma lru_take_length k l v rest :
    lru_take ARGS HV aeqb k l = Some (v, rest) -> length l = S (length rest).
  Proof.
    revert v rest. induction l as [|[k' v'] l IH]; intros v rest; simpl; [discriminate|].
    destruct (fkeqb ARGS aeqb k k').
    - intros H; injection H as <- <-. reflexivity.
    - destruct (lru_take ARGS HV aeqb k l) as [[w l'']|]; [|discriminate].
      intros H; injection H as <- <-. simpl. f_equal. eapply IH; reflexivity.
  Qed.

  Lemma hashfile_bounded : forall ops s,
    0 <= maxsize -> Z.of_nat (length (f_lru s)) <= maxsize ->
    Z.of_nat (length (f_lru (fst (run s ops)))) <= maxsize.
  Proof.
    induction ops as [|o ops IH]; intros s Hm Hb; [exact Hb|].
    unfold run in *. simpl.
    assert (H1 : Z.of_nat (length (f_lru (fst (step s o)))) <= maxsize).
    { unfold step, fstep. destruct o as [p c m|p|p x]; cbn [fst f_lru]; try exact Hb.
      destruct (fs_get C (f_fs s) p) as [[c m]|]; [|exact Hb].
      destruct (lru_take ARGS HV aeqb (p, m, size_of c, x) (f_lru s)) as [[v rest]|] eqn:Ht.
      - apply lru_take_length in Ht. cbn [fst f_lru]. rewrite app_length. simpl. lia.
      - destruct (fresh c x) as [v|e]; [|exact Hb]. cbn [fst f_lru].
        rewrite app_length. simpl.
        destruct (maxsize <? Z.of_nat (length (f_lru s) + 1)) eqn:Hlt; [|rewrite app_length; simpl; lia].
        destruct (f_lru s) as [|y l]; simpl in *; [lia|]. rewrite app_length; simpl. lia. }
    fold step. destruct (step s o) as [s1 r]. specialize (IH s1 Hm H1).
    destruct (frun C ARGS HV E aeqb size_of fresh maxsize s1 ops) as [s2 rs]. exact IH.
  Qed.

  (* a clock that advances with every write satisfies the hypothesis *)
  Fixpoint mono (hi : Z) (ops : list (fop C ARGS)) : Prop :=
    match ops with
    | [] => True
    | FWrite p c m :: r => hi < m /\ mono m r
    | _ :: r => mono hi r
    end.

  Lemma mono_stats_ok : forall ops seen hi,
    (forall p m sz c, In (p, m, sz, c) seen -> m <= hi) ->
    mono hi ops -> stats_ok C ARGS size_of seen ops.
  Proof.
    induction ops as [|o ops IH]; intros seen hi Hs Hm; [exact I|].
    destruct o as [p c m|p|p x]; simpl in *.
    - destruct Hm as [Hlt Hm]. split.
      + intros c' Hin. apply Hs in Hin. lia.
      + apply (IH _ m); [|exact Hm]. intros p' m' sz c' [Heq|Hin].
        * injection Heq as <- <- <- <-. lia.
        * apply Hs in Hin. lia.
    - now apply (IH _ hi).
    - now apply (IH _ hi).
  Qed.

  Lemma hashfile_fresh_monotone_clock : forall ops t0,
    mono t0 ops ->
    map (fobs HV E) (snd (run {| f_fs := []; f_lru := [] |} ops)) = spec [] ops.
  Proof.
    intros ops t0 Hm. apply hashfile_fresh. apply (mono_stats_ok ops [] t0); [|exact Hm].
    intros p m sz c [].
  Qed.
End HashFileProofs.

(* without the hypothesis the cache is stale: a rewrite that keeps size and
   mtime_ns (e.g. os.utime afterwards) *)
Lemma hashfile_stale_refuted :
  exists ops : list (fop (Z * Z) Z),
    map (fobs Z Z) (snd (frun (Z * Z) Z Z Z Z.eqb snd hf_fresh 100
                              {| f_fs := []; f_lru := [] |} ops))
    <> fspec (Z * Z) Z Z Z hf_fresh [] ops.
Proof.
  exists [FWrite 1 (1, 11) 5; FHash 1 0; FWrite 1 (2, 11) 5; FHash 1 0].
  vm_compute. discriminate.
Qed.

Example hashfile_stats_ok_example :
  stats_ok (Z * Z) Z snd []
    [FWrite 1 (1, 11) 5; FHash 1 0; FWrite 1 (2, 11) 6; FHash 1 0; FDelete 1; FHash 1 0;
     FWrite 1 (1, 11) 7; FHash 1 0].
Proof. simpl. repeat split; intros c' H; repeat (destruct H as [H|H]; [congruence|]); destruct H. Qed.

(* ====================================================================== *)
(* Part D: LazyContourList                                                 *)
(* ====================================================================== *)
Section LCLProofs.
  Variables CV E : Type.
  Variable contour_of : Z -> CV + E.
  Variable maxlen : option Z.

  Let step := lstep CV E contour_of maxlen true.
  Let run := lrun CV E contour_of maxlen true.

  (* entry k of [indices] and entry r of [contours] belong together *)
  Definition Pair (h : @heap CV) (k : Z) (r : nat) : Prop :=
    exists c, contour_of k = inl c /\ nth_error h r = Some (c, false).

  Record LInv (s : lstate CV) : Prop := {
    linv_aligned : Forall2 (Pair (l_heap s)) (l_indices s) (l_contours s);
    linv_ro : forall r v w, nth_error (l_heap s) r = Some (v, w) -> w = false
  }.

  Lemma Forall2_nth {X Y} (P : X -> Y -> Prop) l l' q x :
    Forall2 P l l' -> nth_error l q = Some x -> exists y, nth_error l' q = Some y /\ P x y.
  Proof.
    intros H; revert q. induction H as [|a b l l' Hab H IH]; intros [|q]; simpl; try discriminate.
    - intros Hq; injection Hq as <-. eauto.
    - apply IH.
  Qed.

  Lemma index_of_nth x l q : index_of x l = Some q -> nth_error l q = Some x.
  Proof.
    revert q; induction l as [|y l IH]; intros q; simpl; [discriminate|].
    destruct (x =? y) eqn:Hxy.
    - intros H; injection H as <-. simpl. f_equal. lia.
    - destruct (index_of x l) as [n|]; [|discriminate].
      intros H; injection H as <-. simpl. now apply IH.
  Qed.

  Lemma F2_len {X Y} (P : X -> Y -> Prop) l l' : Forall2 P l l' -> length l = length l'.
  Proof. intros H; induction H; simpl; auto. Qed.

  Lemma F2_impl {X Y} (P Q : X -> Y -> Prop) l l' :
    (forall x y, P x y -> Q x y) -> Forall2 P l l' -> Forall2 Q l l'.
  Proof. intros HPQ H; induction H; constructor; auto. Qed.

  Lemma Forall2_tl {X Y} (P : X -> Y -> Prop) l l' : Forall2 P l l' -> Forall2 P (tl l) (tl l').
  Proof. intros H; destruct H; simpl; auto. Qed.

  Lemma dq_append_aligned {X Y} (P : X -> Y -> Prop) l l' x y :
    Forall2 P l l' -> P x y -> Forall2 P (dq_append maxlen l x) (dq_append maxlen l' y).
  Proof.
    intros H Hxy. unfold dq_append.
    assert (Hl : length (l ++ [x]) = length (l' ++ [y])).
    { rewrite !app_length. apply F2_len in H. simpl. lia. }
    assert (H2 : Forall2 P (l ++ [x]) (l' ++ [y])) by (apply Forall2_app; auto).
    destruct maxlen as [m|]; [|exact H2]. rewrite Hl.
    destruct (m <? Z.of_nat (length (l' ++ [y]))); [now apply Forall2_tl|exact H2].
  Qed.

  Lemma Pair_mono h x k r : Pair h k r -> Pair (h ++ x) k r.
  Proof.
    intros (c & Hc & Hn). exists c. split; [exact Hc|].
    rewrite nth_error_app1; [exact Hn|]. apply nth_error_Some. congruence.
  Qed.

  Lemma lstep_ok s o :
    LInv s -> LInv (fst (step s o)) /\ lobs CV E (snd (step s o)) = Some (lspec CV E contour_of o).
  Proof.
    intros [Ha Hro]. destruct o as [idx|j f]; unfold step, lstep.
    - destruct (index_of idx (l_indices s)) as [q|] eqn:Hq.
      + apply index_of_nth in Hq.
        destruct (Forall2_nth _ _ _ _ _ Ha Hq) as (r & Hr & c & Hc & Hn).
        rewrite Hr. cbn [fst snd]. split.
        * constructor; cbn [l_indices l_contours l_heap l_outs]; [|exact Hro].
          apply dq_append_aligned; [exact Ha|]. now exists c.
        * unfold hget. rewrite Hn. simpl. now rewrite Hc.
      + destruct (contour_of idx) as [c|e] eqn:Hc.
        * unfold halloc. cbn [fst snd negb]. split.
          -- constructor; cbn [l_indices l_contours l_heap l_outs].
             ++ apply dq_append_aligned.
                ** eapply F2_impl; [|exact Ha]. intros k r. apply Pair_mono.
                ** exists c. split; [exact Hc|].
                   rewrite nth_error_app2, Nat.sub_diag by lia. reflexivity.
             ++ intros r v w Hn.
                destruct (Nat.lt_ge_cases r (length (l_heap s))) as [Hlt|Hge].
                ** rewrite nth_error_app1 in Hn by exact Hlt. eapply Hro; eauto.
                ** rewrite nth_error_app2 in Hn by exact Hge.
                   destruct (r - length (l_heap s))%nat as [|n]; simpl in Hn.
                   --- now injection Hn as <- <-.
                   --- destruct n; discriminate.
          -- rewrite hget_app_new. simpl. now rewrite Hc.
        * cbn [fst snd]. split; [constructor; assumption|]. simpl. now rewrite Hc.
    - destruct (nth_error (l_outs s) j) as [r|].
      + assert (Hm : hmodify (l_heap s) r f = (l_heap s, false)).
        { unfold hmodify. destruct (nth_error (l_heap s) r) as [[v w]|] eqn:Hn; [|reflexivity].
          now rewrite (Hro _ _ _ Hn). }
        rewrite Hm. cbn [fst snd]. split; [constructor; assumption|reflexivity].
      + cbn [fst snd]. split; [constructor; assumption|reflexivity].
  Qed.

  Lemma lcl_history_fresh_from : forall ops s,
    LInv s ->
    map (lobs CV E) (snd (run s ops)) = map (fun o => Some (lspec CV E contour_of o)) ops
    /\ LInv (fst (run s ops)).
  Proof.
    induction ops as [|o ops IH]; intros s HI; [split; [reflexivity|exact HI]|].
    destruct (lstep_ok s o HI) as [HI' Hobs].
    unfold run in *. simpl. fold step. destruct (step s o) as [s1 r].
    destruct (IH s1 HI') as [IH1 IH2].
    destruct (lrun CV E contour_of maxlen true s1 ops) as [s2 rs].
    simpl in *. split; [now rewrite Hobs, IH1|exact IH2].
  Qed.

  Lemma linv_init : LInv (l_init CV).
  Proof. constructor; simpl; [constructor|]. intros [|r]; discriminate. Qed.

  Lemma lcl_history_fresh : forall ops,
    map (lobs CV E) (snd (run (l_init CV) ops))
    = map (fun o => Some (lspec CV E contour_of o)) ops.
  Proof. intros ops. apply lcl_history_fresh_from, linv_init. Qed.

  (* the two deques stay aligned and within max_events *)
  Lemma lcl_aligned : forall ops,
    length (l_indices (fst (run (l_init CV) ops)))
    = length (l_contours (fst (run (l_init CV) ops))).
  Proof.
    intros ops. destruct (lcl_history_fresh_from ops _ linv_init) as [_ [Ha _]].
    now apply F2_len in Ha.
  Qed.
End LCLProofs.

Lemma dq_append_bounded {X} m (l : list X) x :
  0 <= m -> Z.of_nat (length l) <= m -> Z.of_nat (length (dq_append (Some m) l x)) <= m.
Proof.
  intros Hm Hl. unfold dq_append.
  assert (Hlen : length (l ++ [x]) = S (length l)) by (rewrite app_length; simpl; lia).
  destruct (m <? Z.of_nat (length (l ++ [x]))) eqn:Hlt.
  - destruct l as [|y l]; simpl in *; lia.
  - lia.
Qed.

Lemma lcl_bounded CV E contour_of m ro : forall ops s,
  0 <= m -> Z.of_nat (length (l_indices s)) <= m ->
  Z.of_nat (length (l_indices (fst (lrun CV E contour_of (Some m) ro s ops)))) <= m.
Proof.
  induction ops as [|o ops IH]; intros s Hm Hb; [exact Hb|].
  simpl.
  assert (H1 : Z.of_nat (length (l_indices (fst (lstep CV E contour_of (Some m) ro s o)))) <= m).
  { destruct o as [idx|j f]; unfold lstep.
    - destruct (index_of idx (l_indices s)) as [q|].
      + destruct (nth_error (l_contours s) q) as [r|]; [|exact Hb].
        cbn [fst l_indices]. now apply dq_append_bounded.
      + destruct (contour_of idx) as [c|e]; [|exact Hb].
        unfold halloc. cbn [fst l_indices]. now apply dq_append_bounded.
    - destruct (nth_error (l_outs s) j) as [r|]; [|exact Hb].
      destruct (hmodify (l_heap s) r f) as [h1 ok]. exact Hb. }
  destruct (lstep CV E contour_of (Some m) ro s o) as [s1 r].
  specialize (IH s1 Hm H1).
  destruct (lrun CV E contour_of (Some m) ro s1 ops) as [s2 rs]. exact IH.
Qed.

(* writable cached contours: modifying a returned contour changes later reads *)
Lemma lcl_alias_refuted :
  exists ops : list (lop Z),
    map (lobs Z Z) (snd (lrun Z Z (fun i => inl (10 * i)) (Some 1000) false (l_init Z) ops))
    <> map (fun o => Some (lspec Z Z (fun i => inl (10 * i)) o)) ops.
Proof. exists [LGet 3; LMut 0 (fun v => v + 1); LGet 3]. vm_compute. discriminate. Qed.

Example lcl_example :
  map (lobs Z Z) (snd (lrun Z Z (fun i => inl (10 * i)) (Some 2) true (l_init Z)
                            [LGet 3; LGet 4; LGet 3; LMut 0 (fun v => v + 1); LGet 5; LGet 3; LGet 4]))
  = [Some (LSVal 30); Some (LSVal 40); Some (LSVal 30); Some LSNone; Some (LSVal 50);
     Some (LSVal 30); Some (LSVal 40)].
Proof. vm_compute. reflexivity. Qed.

(* ====================================================================== *)
(* Part E: per-object array caches                                         *)
(* ====================================================================== *)
Section ObjProofs.
  Variable data : list Z.
  Variable nat_dt : Z.
  Variable reuse : bool.

  Let step := ostep data true nat_dt reuse.
  Let run := orun data true nat_dt reuse.

  Definition OInv (s : ostate) : Prop :=
    match o_array s with
    | None => True
    | Some a => nth_error (o_heap s) a = Some (data, false)
    end.

  Lemma select_seq : forall (l pre : list Z),
    select (pre ++ l) (seq_from (length pre) (length l)) = Some l.
  Proof.
    induction l as [|x l IH]; intros pre; simpl; [reflexivity|].
    rewrite nth_error_app2, Nat.sub_diag by lia. simpl.
    replace (pre ++ x :: l) with ((pre ++ [x]) ++ l) by (now rewrite <- app_assoc).
    replace (S (length pre)) with (length (pre ++ [x])) by (rewrite app_length; simpl; lia).
    fold (select ((pre ++ [x]) ++ l) (seq_from (length (pre ++ [x])) (length l))).
    now rewrite IH.
  Qed.

  Lemma select_all l : select l (seq_from O (length l)) = Some l.
  Proof. apply (select_seq l []). Qed.

  Lemma ensure_ok s :
    OInv s ->
    let '(h0, a, b) := ensure data true reuse s in
    nth_error h0 a = Some (data, false) /\ hget h0 b = Some data.
  Proof.
    intros HI. unfold ensure, OInv in *. destruct (o_array s) as [a|].
    - destruct reuse.
      + split; [exact HI|]. unfold hget. now rewrite HI.
      + unfold halloc. split; [|apply hget_app_new].
        rewrite nth_error_app1; [exact HI|]. apply nth_error_Some. congruence.
    - unfold halloc. simpl. split; [|apply hget_app_new].
      rewrite nth_error_app2, Nat.sub_diag by lia. reflexivity.
  Qed.

  Lemma skip_load_view s r : skip_load reuse s r = true -> rd_view data nat_dt r = None.
  Proof. unfold skip_load. destruct r; try discriminate; reflexivity. Qed.

  Lemma oread_ok s r :
    OInv s ->
    OInv (fst (oread data true nat_dt reuse s r))
    /\ oobs (snd (oread data true nat_dt reuse s r)) = Some (ospec_read data nat_dt r).
  Proof.
    intros HI. unfold oread. destruct (skip_load reuse s r) eqn:Hsk.
    - unfold halloc. cbn [fst snd]. split.
      + unfold OInv in *. cbn [o_array o_heap].
        destruct (o_array s) as [a0|] eqn:Hoa; [|exact I].
        rewrite nth_error_app1; [exact HI|apply nth_error_Some; congruence].
      + unfold oobs, ospec_read, view_value. cbn [fst snd].
        rewrite hget_app_new, select_all, (skip_load_view s r Hsk).
        destruct (rd_fresh data nat_dt r); reflexivity.
    - pose proof (ensure_ok s HI) as He.
      destruct (ensure data true reuse s) as [[h0 a] b]. destruct He as [Ha Hb].
      assert (Hlt : (a < length h0)%nat) by (apply nth_error_Some; congruence).
      unfold oobs, ospec_read.
      destruct (rd_view data nat_dt r) as [pos|] eqn:Hv.
      + cbn [fst snd]. split; [unfold OInv; simpl; exact Ha|].
        unfold view_value. cbn [fst snd]. rewrite Hb. reflexivity.
      + destruct (rd_fresh data nat_dt r) as [l|] eqn:Hf.
        * unfold halloc. cbn [fst snd]. split.
          -- unfold OInv; simpl. now rewrite nth_error_app1.
          -- unfold view_value. cbn [fst snd]. rewrite hget_app_new. now rewrite select_all.
        * cbn [fst snd]. split; [unfold OInv; simpl; exact Ha|].
          unfold view_value. cbn [fst snd]. rewrite Hb. reflexivity.
  Qed.

  Lemma ostep_ok s o :
    OInv s -> OInv (fst (step s o)) /\ oobs (snd (step s o)) = ospec data nat_dt o.
  Proof.
    intros HI. destruct o as [r|j delta]; unfold step, ostep.
    - destruct r; try (split; [exact HI|reflexivity]); apply oread_ok; exact HI.
    - destruct (nth_error (o_outs s) j) as [v|]; [|split; [exact HI|reflexivity]].
      destruct (hmodify (o_heap s) (fst v) (fun l => bump l (snd v) delta)) as [h1 ok] eqn:Hm.
      cbn [fst snd]. split; [|reflexivity].
      unfold OInv in *. simpl. destruct (o_array s) as [a|]; [|exact I].
      replace h1 with (fst (hmodify (o_heap s) (fst v) (fun l => bump l (snd v) delta)))
        by (now rewrite Hm).
      now apply hmodify_ro.
  Qed.

  Lemma obj_history_fresh_from : forall ops s,
    OInv s -> map oobs (snd (run s ops)) = map (ospec data nat_dt) ops.
  Proof.
    induction ops as [|o ops IH]; intros s HI; [reflexivity|].
    destruct (ostep_ok s o HI) as [HI' Hobs].
    unfold run in *. simpl. fold step. destruct (step s o) as [s1 r].
    specialize (IH s1 HI').
    destruct (orun data true nat_dt reuse s1 ops) as [s2 rs]. simpl in *. now rewrite Hobs, IH.
  Qed.

  Lemma obj_history_fresh : forall ops,
    map oobs (snd (run o_init ops)) = map (ospec data nat_dt) ops.
  Proof. intros ops. apply obj_history_fresh_from. exact I. Qed.

  (* sentence 2 of the property: what the reads return does not depend on the
     in-place modifications of arrays handed out before *)
  Definition is_oread (o : oop) : bool := match o with ORead _ => true | _ => false end.
  Definition read_obs {X} (ops : list oop) (outs : list X) : list X :=
    map snd (filter (fun p => is_oread (fst p)) (combine ops outs)).
  Definition drop_omuts (ops : list oop) : list oop := filter is_oread ops.

  Lemma read_obs_map {X} (g : oop -> X) ops :
    read_obs ops (map g ops) = map g (filter is_oread ops).
  Proof.
    unfold read_obs. induction ops as [|o ops IH]; [reflexivity|].
    simpl. destruct (is_oread o); simpl; now rewrite IH.
  Qed.

  Lemma filter_idem ops : filter is_oread (drop_omuts ops) = filter is_oread ops.
  Proof.
    unfold drop_omuts. induction ops as [|o ops IH]; [reflexivity|].
    simpl. destruct (is_oread o) eqn:Ho; simpl; [rewrite Ho|]; now rewrite IH.
  Qed.

  Lemma obj_reads_independent_of_modifications : forall ops,
    read_obs ops (map oobs (snd (run o_init ops)))
    = read_obs (drop_omuts ops) (map oobs (snd (run o_init (drop_omuts ops)))).
  Proof.
    intros ops. rewrite !obj_history_fresh, !read_obs_map. now rewrite filter_idem.
  Qed.
End ObjProofs.

(* a writable cached array: ds["deform"][:][0] = 999 changes later reads *)
Lemma obj_alias_refuted :
  exists data ops, map oobs (snd (orun data false 3 true o_init ops)) <> map (ospec data 3) ops.
Proof.
  exists [1; 2; 3], [ORead RdAll; OMut 0 7; ORead (RdSlice 1 3)]. vm_compute. discriminate.
Qed.

Example obj_example :
  map oobs (snd (orun [8; 20; 27; 36] true 3 true o_init
                      [ORead (RdConv 2 0); ORead (RdSlice 1 3); OMut 0 8; OMut 1 8;
                       ORead (RdFancy [3; 0]); ORead (RdConv 1 0); ORead (RdItem 2);
                       ORead (RdConv 3 0); OMut 5 8; ORead RdAll]))
  = [Some (2, Some [8; 16; 24; 32]); Some (3, Some [20; 27]); None; None;
     Some (3, Some [36; 8]); Some (1, Some [8; 20; 27; 36]); Some (3, Some [27]);
     Some (3, Some [8; 20; 27; 36]); None; Some (3, Some [8; 20; 27; 36])].
Proof. vm_compute. reflexivity. Qed.
