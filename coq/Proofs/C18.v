(* Proofs about Model/C18.v, part 1: remove_duplicates, polygon sums,
   contour moments, volume of revolution. *)
From Coq Require Import ZArith QArith Qabs List Bool Lia ZifyBool ZifyNat.
From Verif Require Import Model.C18.
Import ListNotations.
Open Scope Z_scope.

(* ---------------------------------------------------------------------- *)
(* points                                                                  *)
(* ---------------------------------------------------------------------- *)
Lemma pt_eqb_eq a b : pt_eqb a b = true <-> a = b.
Proof.
  destruct a as [a1 a2], b as [b1 b2]; unfold pt_eqb; simpl.
  rewrite andb_true_iff, !Z.eqb_eq. split.
  - intros [-> ->]; reflexivity.
  - intros [= -> ->]; split; reflexivity.
Qed.

Lemma pt_eqb_refl a : pt_eqb a a = true.
Proof. apply pt_eqb_eq; reflexivity. Qed.

Lemma pt_eqb_neq a b : pt_eqb a b = false <-> a <> b.
Proof.
  split.
  - intros H E. apply pt_eqb_eq in E. congruence.
  - intros H. destruct (pt_eqb a b) eqn:E; [|reflexivity].
    apply pt_eqb_eq in E; contradiction.
Qed.

(* ---------------------------------------------------------------------- *)
(* remove_duplicates                                                       *)
(* ---------------------------------------------------------------------- *)
(* no two neighbours of the (linear) list are equal *)
Fixpoint NoAdjDup (l : list pt) : Prop :=
  match l with
  | [] => True
  | a :: t => match t with
              | [] => True
              | b :: _ => a <> b
              end /\ NoAdjDup t
  end.

(* no two cyclic neighbours are equal: linear, and last <> first *)
Definition NoCycDup (l : list pt) : Prop :=
  NoAdjDup l /\ (forall a t, l = a :: t -> t <> [] -> last l a <> a).

Inductive Subseq : list pt -> list pt -> Prop :=
| sub_nil : forall l, Subseq [] l
| sub_skip : forall s a l, Subseq s l -> Subseq s (a :: l)
| sub_take : forall s a l, Subseq s l -> Subseq (a :: s) (a :: l).

Lemma keep_changes_noadj prev l : NoAdjDup (prev :: keep_changes prev l).
Proof.
  revert prev; induction l as [|a t IH]; intros prev; simpl; [auto|].
  destruct (pt_eqb a prev) eqn:E.
  - apply pt_eqb_eq in E; subst a. apply IH.
  - apply pt_eqb_neq in E. split; [congruence|apply IH].
Qed.

Lemma keep_changes_last prev l d :
  last (prev :: keep_changes prev l) d = last (prev :: l) d.
Proof.
  revert prev; induction l as [|a t IH]; intros prev; [reflexivity|].
  cbn [keep_changes].
  destruct (pt_eqb a prev) eqn:E.
  - apply pt_eqb_eq in E; subst a.
    rewrite IH. destruct t; reflexivity.
  - change (last (prev :: a :: keep_changes a t) d)
      with (last (a :: keep_changes a t) d).
    rewrite IH. reflexivity.
Qed.

Lemma keep_changes_In prev l p :
  In p (prev :: keep_changes prev l) <-> In p (prev :: l).
Proof.
  revert prev; induction l as [|a t IH]; intros prev; [tauto|].
  cbn [keep_changes].
  destruct (pt_eqb a prev) eqn:E.
  - apply pt_eqb_eq in E; subst a.
    specialize (IH prev). simpl in *. tauto.
  - specialize (IH a). simpl in *. tauto.
Qed.

Lemma keep_changes_subseq prev l :
  Subseq (prev :: keep_changes prev l) (prev :: l).
Proof.
  revert prev; induction l as [|a t IH]; intros prev; simpl.
  - apply sub_take, sub_nil.
  - destruct (pt_eqb a prev) eqn:E.
    + apply pt_eqb_eq in E; subst a.
      specialize (IH prev). inversion IH as [| s a l H | s a l H]; subst.
      * apply sub_skip. assumption.
      * apply sub_take, sub_skip. assumption.
    + apply sub_take, IH.
Qed.

Lemma NoAdjDup_app_inv l z : NoAdjDup (l ++ [z]) -> NoAdjDup l.
Proof.
  induction l as [|a t IH]; [simpl; auto|].
  intros [H1 H2]. split.
  - destruct t as [|b t']; [exact I|exact H1].
  - apply IH. exact H2.
Qed.

Lemma NoAdjDup_last l z d :
  l <> [] -> NoAdjDup (l ++ [z]) -> last l d <> z.
Proof.
  induction l as [|a t IH]; [congruence|]. intros _ [H1 H2].
  destruct t as [|b t'].
  - simpl in *. exact H1.
  - change (last (a :: b :: t') d) with (last (b :: t') d).
    apply IH; [discriminate|exact H2].
Qed.

Lemma Subseq_length s l : Subseq s l -> (length s <= length l)%nat.
Proof. induction 1; simpl; lia. Qed.

Lemma Subseq_app_last_inv s z l w :
  Subseq (s ++ [z]) (l ++ [w]) -> Subseq s l.
Proof.
  revert s; induction l as [|b l IH]; intros s H.
  - apply Subseq_length in H. rewrite app_length in H. simpl in H.
    destruct s; [apply sub_nil|simpl in H; lia].
  - simpl in H. inversion H as [l0 E | s0 a l0 H0 | s0 a l0 H0 E]; subst.
    + destruct s; discriminate.
    + apply sub_skip, IH. exact H0.
    + destruct s as [|c s1]; [apply sub_nil|].
      simpl in E. injection E as -> ->.
      apply sub_take, IH. exact H0.
Qed.

Lemma removelast_app_last {A} (l : list A) d :
  l <> [] -> l = removelast l ++ [last l d].
Proof. intros H. apply app_removelast_last. exact H. Qed.

(* the filtered list F = a :: keep_changes a (t ++ [a]) *)
Lemma remove_duplicates_cyclic c : NoCycDup (remove_duplicates c).
Proof.
  destruct c as [|a t]; [split; [exact I|intros; discriminate]|].
  unfold remove_duplicates.
  set (F := a :: keep_changes a (t ++ [a])).
  assert (HF : NoAdjDup F) by apply keep_changes_noadj.
  assert (HL : last F a = a).
  { unfold F. rewrite keep_changes_last.
    change (a :: t ++ [a]) with ((a :: t) ++ [a]). apply last_last. }
  assert (HE : F = removelast F ++ [a]).
  { assert (Hne0 : F <> []) by (unfold F; discriminate).
    pose proof (removelast_app_last F a Hne0) as HH.
    rewrite HL in HH. exact HH. }
  split.
  - apply NoAdjDup_app_inv with (z := a). rewrite <- HE. exact HF.
  - intros a' t' E Ht.
    assert (a' = a).
    { unfold F in E. simpl in E.
      destruct (keep_changes a (t ++ [a])); [discriminate|].
      injection E; auto. }
    subst a'. apply NoAdjDup_last.
    + rewrite E. discriminate.
    + rewrite <- HE. exact HF.
Qed.

Lemma remove_duplicates_subseq c : Subseq (remove_duplicates c) c.
Proof.
  destruct c as [|a t]; [apply sub_nil|].
  unfold remove_duplicates.
  set (F := a :: keep_changes a (t ++ [a])).
  assert (HS : Subseq F ((a :: t) ++ [a])) by apply keep_changes_subseq.
  assert (HE : F = removelast F ++ [last F a]).
  { apply removelast_app_last. discriminate. }
  rewrite HE in HS. apply Subseq_app_last_inv in HS. exact HS.
Qed.

(* same point set, unless the result is empty *)
Lemma remove_duplicates_same_points c :
  remove_duplicates c <> [] ->
  forall p, In p (remove_duplicates c) <-> In p c.
Proof.
  destruct c as [|a t]; [intros H; exfalso; apply H; reflexivity|].
  unfold remove_duplicates.
  set (F := a :: keep_changes a (t ++ [a])).
  intros Hne p.
  assert (HL : last F a = a).
  { unfold F. rewrite keep_changes_last.
    change (a :: t ++ [a]) with ((a :: t) ++ [a]). apply last_last. }
  assert (HE : F = removelast F ++ [a]).
  { assert (Hne0 : F <> []) by (unfold F; discriminate).
    pose proof (removelast_app_last F a Hne0) as HH.
    rewrite HL in HH. exact HH. }
  assert (HIn : In p F <-> In p (a :: t)).
  { unfold F. rewrite keep_changes_In. simpl. rewrite in_app_iff. simpl.
    tauto. }
  assert (Hhd : In a (removelast F)).
  { unfold F in *. simpl in *.
    destruct (keep_changes a (t ++ [a])); [congruence|]. left; reflexivity. }
  rewrite <- HIn. rewrite HE at 2. rewrite in_app_iff. simpl.
  split; [tauto|]. intros [H|[H|[]]]; [exact H|subst p; exact Hhd].
Qed.

(* the result is empty exactly when all points coincide *)
Lemma remove_duplicates_empty_iff c :
  remove_duplicates c = [] <-> forall p q, In p c -> In q c -> p = q.
Proof.
  destruct c as [|a t]; [simpl; split; [intros _ p q []|reflexivity]|].
  unfold remove_duplicates.
  set (F := a :: keep_changes a (t ++ [a])).
  assert (HF : NoAdjDup F) by apply keep_changes_noadj.
  assert (HIn : forall p, In p F <-> In p (a :: t)).
  { intros p. unfold F. rewrite keep_changes_In. simpl. rewrite in_app_iff.
    simpl. tauto. }
  split.
  - intros H.
    assert (HK : keep_changes a (t ++ [a]) = []).
    { unfold F in H. simpl in H.
      destruct (keep_changes a (t ++ [a])); [reflexivity|discriminate]. }
    assert (HA : forall p, In p (a :: t) -> p = a).
    { intros p Hp. apply HIn in Hp. unfold F in Hp. rewrite HK in Hp.
      destruct Hp as [<-|[]]; reflexivity. }
    intros p q Hp Hq. rewrite (HA p Hp), (HA q Hq). reflexivity.
  - intros H. unfold F in *. simpl.
    destruct (keep_changes a (t ++ [a])) as [|b k] eqn:E; [reflexivity|].
    exfalso. destruct HF as [Hab _].
    assert (Hb : In b (a :: t)) by (apply HIn; right; left; reflexivity).
    apply Hab. apply H; [left; reflexivity|exact Hb].
Qed.

(* ---------------------------------------------------------------------- *)
(* sums over paths and closed polygons                                     *)
(* ---------------------------------------------------------------------- *)
Lemma psum_app e a l1 b l2 z :
  psum e a (l1 ++ b :: l2) z = psum e a l1 b + psum e b l2 z.
Proof.
  revert a; induction l1 as [|c l1 IH]; intros a; simpl; [reflexivity|].
  rewrite IH. lia.
Qed.

Lemma psum_ext e e' a l z :
  (forall p q, e p q = e' p q) -> psum e a l z = psum e' a l z.
Proof.
  intros H. revert a; induction l as [|b t IH]; intros a; simpl;
    [apply H|rewrite H, IH; reflexivity].
Qed.

Lemma psum_map e f a l z :
  psum e (f a) (map f l) (f z) = psum (fun p q => e (f p) (f q)) a l z.
Proof.
  revert a; induction l as [|b t IH]; intros a; simpl; [reflexivity|].
  rewrite IH. reflexivity.
Qed.

Lemma psum_rev e a l z :
  psum e a (rev l) z = psum (fun p q => e q p) z l a.
Proof.
  revert z; induction l as [|b t IH]; intros z; simpl; [reflexivity|].
  rewrite psum_app, IH. simpl. lia.
Qed.

(* e' = e + k*d + (g p - g q): the g-part telescopes *)
Lemma psum_affine e e' d g k a l z :
  (forall p q, e' p q = e p q + k * d p q + (g p - g q)) ->
  psum e' a l z = psum e a l z + k * psum d a l z + (g a - g z).
Proof.
  intros H. revert a; induction l as [|b t IH]; intros a; simpl.
  - apply H.
  - rewrite IH, H. lia.
Qed.

Lemma psum_scale e e' k a l z :
  (forall p q, e' p q = k * e p q) -> psum e' a l z = k * psum e a l z.
Proof.
  intros H. revert a; induction l as [|b t IH]; intros a; simpl.
  - apply H.
  - rewrite IH, H. lia.
Qed.

Lemma csum_affine e e' d g k f c :
  (forall p q, e' (f p) (f q) = e p q + k * d p q + (g p - g q)) ->
  csum e' (map f c) = csum e c + k * csum d c.
Proof.
  intros H. destruct c as [|a t]; simpl; [lia|].
  rewrite psum_map.
  rewrite (psum_affine e _ d g k a t a H). lia.
Qed.

Lemma csum_scale e e' k f c :
  (forall p q, e' (f p) (f q) = k * e p q) ->
  csum e' (map f c) = k * csum e c.
Proof.
  intros H. destruct c as [|a t]; simpl; [lia|].
  rewrite psum_map. apply psum_scale. exact H.
Qed.

(* rotation of the starting point *)
Lemma csum_rot e a l : csum e (l ++ [a]) = csum e (a :: l).
Proof.
  destruct l as [|b l]; [reflexivity|].
  simpl. rewrite psum_app. simpl. lia.
Qed.

Lemma csum_rev e c :
  (forall p q, e q p = - e p q) -> csum e (rev c) = - csum e c.
Proof.
  intros H. destruct c as [|a t]; [reflexivity|].
  simpl rev. rewrite csum_rot. simpl.
  rewrite psum_rev.
  rewrite (psum_scale e _ (-1) a t a); [lia|]. intros p q. rewrite H. lia.
Qed.

(* ---------------------------------------------------------------------- *)
(* contour moments                                                         *)
(* ---------------------------------------------------------------------- *)
Definition tr (tx ty : Z) (p : pt) : pt := (fst p + tx, snd p + ty).
Definition origin : pt := (0, 0).

Lemma translate_map tx ty c : translate tx ty c = map (tr tx ty) c.
Proof. reflexivity. Qed.

(* The difference between the translated and the original edge term is,
   up to the stated multiples of lower moments, a coboundary g p - g q with
   g p := D p origin (D the difference itself). *)
Ltac edge_ring :=
  intros [px py] [qx qy];
  unfold tr, origin, e00, e10, e01, e20, e11, e02, dxy; cbn [fst snd]; ring.

Lemma a00_translate tx ty c : a00 (translate tx ty c) = a00 c.
Proof.
  unfold a00. rewrite translate_map.
  set (D := fun p q => e00 (tr tx ty p) (tr tx ty q) - e00 p q).
  rewrite (csum_affine e00 e00 e00 (fun p => D p origin) 0 (tr tx ty) c);
    [lia|].
  unfold D. edge_ring.
Qed.

Lemma a10_translate tx ty c :
  a10 (translate tx ty c) = a10 c + 3 * tx * a00 c.
Proof.
  unfold a10, a00. rewrite translate_map.
  set (D := fun p q => e10 (tr tx ty p) (tr tx ty q) - e10 p q
                       - 3 * tx * e00 p q).
  apply (csum_affine e10 e10 e00 (fun p => D p origin) (3 * tx) (tr tx ty) c).
  unfold D. edge_ring.
Qed.

Lemma a01_translate tx ty c :
  a01 (translate tx ty c) = a01 c + 3 * ty * a00 c.
Proof.
  unfold a01, a00. rewrite translate_map.
  set (D := fun p q => e01 (tr tx ty p) (tr tx ty q) - e01 p q
                       - 3 * ty * e00 p q).
  apply (csum_affine e01 e01 e00 (fun p => D p origin) (3 * ty) (tr tx ty) c).
  unfold D. edge_ring.
Qed.

(* two lower-order terms: apply csum_affine twice through an intermediate
   edge function *)
Lemma a20_translate tx ty c :
  a20 (translate tx ty c) = a20 c + 4 * tx * a10 c + 6 * tx * tx * a00 c.
Proof.
  unfold a20, a10, a00. rewrite translate_map.
  set (E := fun p q => e20 p q + 4 * tx * e10 p q).
  set (D := fun p q => e20 (tr tx ty p) (tr tx ty q) - E p q
                       - 6 * tx * tx * e00 p q).
  rewrite (csum_affine E e20 e00 (fun p => D p origin) (6 * tx * tx)
             (tr tx ty) c).
  - assert (HE : csum E c = csum e20 c + 4 * tx * csum e10 c).
    { replace c with (map (fun p : pt => p) c) at 1 by apply map_id.
      apply (csum_affine e20 E e10 (fun _ => 0) (4 * tx) (fun p => p) c).
      intros p q. unfold E. lia. }
    rewrite HE. lia.
  - unfold D, E. edge_ring.
Qed.

Lemma a02_translate tx ty c :
  a02 (translate tx ty c) = a02 c + 4 * ty * a01 c + 6 * ty * ty * a00 c.
Proof.
  unfold a02, a01, a00. rewrite translate_map.
  set (E := fun p q => e02 p q + 4 * ty * e01 p q).
  set (D := fun p q => e02 (tr tx ty p) (tr tx ty q) - E p q
                       - 6 * ty * ty * e00 p q).
  rewrite (csum_affine E e02 e00 (fun p => D p origin) (6 * ty * ty)
             (tr tx ty) c).
  - assert (HE : csum E c = csum e02 c + 4 * ty * csum e01 c).
    { replace c with (map (fun p : pt => p) c) at 1 by apply map_id.
      apply (csum_affine e02 E e01 (fun _ => 0) (4 * ty) (fun p => p) c).
      intros p q. unfold E. lia. }
    rewrite HE. lia.
  - unfold D, E. edge_ring.
Qed.

Lemma a11_translate tx ty c :
  a11 (translate tx ty c)
  = a11 c + 4 * ty * a10 c + 4 * tx * a01 c + 12 * tx * ty * a00 c.
Proof.
  unfold a11, a10, a01, a00. rewrite translate_map.
  set (E1 := fun p q => e11 p q + 4 * ty * e10 p q).
  set (E2 := fun p q => E1 p q + 4 * tx * e01 p q).
  set (D := fun p q => e11 (tr tx ty p) (tr tx ty q) - E2 p q
                       - 12 * tx * ty * e00 p q).
  rewrite (csum_affine E2 e11 e00 (fun p => D p origin) (12 * tx * ty)
             (tr tx ty) c).
  - assert (H2 : csum E2 c = csum E1 c + 4 * tx * csum e01 c).
    { replace c with (map (fun p : pt => p) c) at 1 by apply map_id.
      apply (csum_affine E1 E2 e01 (fun _ => 0) (4 * tx) (fun p => p) c).
      intros p q. unfold E2. lia. }
    assert (H1 : csum E1 c = csum e11 c + 4 * ty * csum e10 c).
    { replace c with (map (fun p : pt => p) c) at 1 by apply map_id.
      apply (csum_affine e11 E1 e10 (fun _ => 0) (4 * ty) (fun p => p) c).
      intros p q. unfold E1. lia. }
    rewrite H2, H1. lia.
  - unfold D, E2, E1. edge_ring.
Qed.

Lemma N20_translate tx ty c : N20 (translate tx ty c) = N20 c.
Proof.
  unfold N20. rewrite a00_translate, a10_translate, a20_translate. ring.
Qed.

Lemma N02_translate tx ty c : N02 (translate tx ty c) = N02 c.
Proof.
  unfold N02. rewrite a00_translate, a01_translate, a02_translate. ring.
Qed.

Lemma N11_translate tx ty c : N11 (translate tx ty c) = N11 c.
Proof.
  unfold N11.
  rewrite a00_translate, a01_translate, a10_translate, a11_translate. ring.
Qed.

(* exchange of the axes *)
Definition sw (p : pt) : pt := (snd p, fst p).

Lemma swap_xy_map c : swap_xy c = map sw c.
Proof. reflexivity. Qed.

Ltac swap_ring :=
  intros [px py] [qx qy];
  unfold sw, e00, e10, e01, e20, e11, e02, dxy; cbn [fst snd]; ring.

Lemma a00_swap c : a00 (swap_xy c) = - a00 c.
Proof.
  unfold a00. rewrite swap_xy_map.
  rewrite (csum_scale e00 e00 (-1) sw c); [lia|swap_ring].
Qed.

Lemma a10_swap c : a10 (swap_xy c) = - a01 c.
Proof.
  unfold a10, a01. rewrite swap_xy_map.
  rewrite (csum_scale e01 e10 (-1) sw c); [lia|swap_ring].
Qed.

Lemma a01_swap c : a01 (swap_xy c) = - a10 c.
Proof.
  unfold a10, a01. rewrite swap_xy_map.
  rewrite (csum_scale e10 e01 (-1) sw c); [lia|swap_ring].
Qed.

Lemma a20_swap c : a20 (swap_xy c) = - a02 c.
Proof.
  unfold a20, a02. rewrite swap_xy_map.
  rewrite (csum_scale e02 e20 (-1) sw c); [lia|swap_ring].
Qed.

Lemma a02_swap c : a02 (swap_xy c) = - a20 c.
Proof.
  unfold a20, a02. rewrite swap_xy_map.
  rewrite (csum_scale e20 e02 (-1) sw c); [lia|swap_ring].
Qed.

Lemma N20_swap c : N20 (swap_xy c) = N02 c.
Proof. unfold N20, N02. rewrite a00_swap, a10_swap, a20_swap. ring. Qed.

Lemma N02_swap c : N02 (swap_xy c) = N20 c.
Proof. unfold N20, N02. rewrite a00_swap, a01_swap, a02_swap. ring. Qed.

(* reversal of the orientation *)
Ltac anti_ring :=
  intros [px py] [qx qy];
  unfold e00, e10, e01, e20, e11, e02, dxy; cbn [fst snd]; ring.

Lemma a00_rev c : a00 (rev c) = - a00 c.
Proof. apply csum_rev. anti_ring. Qed.
Lemma a10_rev c : a10 (rev c) = - a10 c.
Proof. apply csum_rev. anti_ring. Qed.
Lemma a01_rev c : a01 (rev c) = - a01 c.
Proof. apply csum_rev. anti_ring. Qed.
Lemma a20_rev c : a20 (rev c) = - a20 c.
Proof. apply csum_rev. anti_ring. Qed.
Lemma a02_rev c : a02 (rev c) = - a02 c.
Proof. apply csum_rev. anti_ring. Qed.

Lemma N20_rev c : N20 (rev c) = N20 c.
Proof. unfold N20. rewrite a00_rev, a10_rev, a20_rev. ring. Qed.
Lemma N02_rev c : N02 (rev c) = N02 c.
Proof. unfold N02. rewrite a00_rev, a01_rev, a02_rev. ring. Qed.

(* ---------------------------------------------------------------------- *)
(* cont_moments_cv over Q: closed forms of the central second moments      *)
(* ---------------------------------------------------------------------- *)
Open Scope Q_scope.

Definition oq_eq (a b : option Q) : Prop :=
  match a, b with
  | Some x, Some y => x == y
  | None, None => True
  | _, _ => False
  end.

Lemma zq_nonzero z : (z <> 0)%Z -> ~ zq z == 0.
Proof. intros H E. unfold zq, Qeq in E. simpl in E. lia. Qed.

Ltac push_zq :=
  unfold zq, Z.sub;
  repeat first [rewrite inject_Z_plus | rewrite inject_Z_mult
               | rewrite inject_Z_opp].

(* the closed forms the code computes, written over the integer sums *)
Definition D36 (c : list pt) : Q := zq (36 * Z.abs (a00 c)).

Lemma moments_none c : (a00 c = 0)%Z -> cont_moments_cv c = None.
Proof. intros H. unfold cont_moments_cv. rewrite H. reflexivity. Qed.

Lemma moments_some c :
  (a00 c <> 0)%Z ->
  exists m, cont_moments_cv c = Some m /\
            m00 m == zq (Z.abs (a00 c)) / (2 # 1) /\
            mu20 m == zq (N20 c) / D36 c /\
            mu02 m == zq (N02 c) / D36 c /\
            mu11 m == zq (N11 c) / ((2 # 1) * D36 c).
Proof.
  intros Ha. unfold cont_moments_cv.
  assert (Hpos : (0 <? Z.abs (a00 c))%Z = true) by lia.
  rewrite Hpos.
  destruct (a00 c <? 0)%Z eqn:Hs.
  - (* negative orientation: all factors change sign *)
    assert (Hle : Qle_bool (zq (a00 c) * ((-1 # 1) * (1 # 2))) dbl_epsilon
                  = false).
    { destruct (Qle_bool _ _) eqn:E; [|reflexivity].
      apply Qle_bool_iff in E. unfold Qle, zq, dbl_epsilon in E.
      simpl in E. lia. }
    rewrite Hle. eexists; split; [reflexivity|]. cbn [m00 mu20 mu02 mu11].
    assert (Hz : ~ zq (a00 c) == 0) by (apply zq_nonzero; exact Ha).
    assert (Habs : Z.abs (a00 c) = (- a00 c)%Z) by lia.
    unfold D36, N20, N02, N11. rewrite Habs.
    repeat split; push_zq; fold (zq (a00 c)) (zq (a10 c)) (zq (a01 c))
      (zq (a20 c)) (zq (a02 c)) (zq (a11 c)); field; auto.
  - assert (Hle : Qle_bool (zq (a00 c) * (1 * (1 # 2))) dbl_epsilon
                  = false).
    { destruct (Qle_bool _ _) eqn:E; [|reflexivity].
      apply Qle_bool_iff in E. unfold Qle, zq, dbl_epsilon in E.
      simpl in E. lia. }
    rewrite Hle. eexists; split; [reflexivity|]. cbn [m00 mu20 mu02 mu11].
    assert (Hz : ~ zq (a00 c) == 0) by (apply zq_nonzero; exact Ha).
    assert (Habs : Z.abs (a00 c) = a00 c) by lia.
    unfold D36, N20, N02, N11. rewrite Habs.
    repeat split; push_zq; fold (zq (a00 c)) (zq (a10 c)) (zq (a01 c))
      (zq (a20 c)) (zq (a02 c)) (zq (a11 c)); field; auto.
Qed.

(* the squared inertia ratio in closed form *)
Definition spec_inert_ratio_sq (c : list pt) : option Q :=
  if (a00 c =? 0)%Z then None
  else Some ((zq (N20 c) / D36 c) / (zq (N02 c) / D36 c)).

Lemma inert_ratio_sq_spec c :
  oq_eq (inert_ratio_sq c) (spec_inert_ratio_sq c).
Proof.
  unfold inert_ratio_sq, spec_inert_ratio_sq.
  destruct (a00 c =? 0)%Z eqn:E.
  - rewrite moments_none by lia. exact I.
  - destruct (moments_some c) as (m & Hm & _ & H20 & H02 & _); [lia|].
    rewrite Hm. simpl. rewrite H20, H02. reflexivity.
Qed.

Lemma oq_eq_trans a b c : oq_eq a b -> oq_eq b c -> oq_eq a c.
Proof.
  destruct a, b, c; simpl; try tauto. intros H1 H2. rewrite H1. exact H2.
Qed.

Lemma oq_eq_sym a b : oq_eq a b -> oq_eq b a.
Proof. destruct a, b; simpl; try tauto. intros H. symmetry. exact H. Qed.

Lemma oq_eq_refl a : oq_eq a a.
Proof. destruct a; simpl; [reflexivity|exact I]. Qed.

Lemma spec_ir_translate tx ty c :
  spec_inert_ratio_sq (translate tx ty c) = spec_inert_ratio_sq c.
Proof.
  unfold spec_inert_ratio_sq, D36.
  rewrite a00_translate, N20_translate, N02_translate. reflexivity.
Qed.

Lemma inert_ratio_translation_invariant tx ty c :
  oq_eq (inert_ratio_sq (translate tx ty c)) (inert_ratio_sq c).
Proof.
  eapply oq_eq_trans; [apply inert_ratio_sq_spec|].
  rewrite spec_ir_translate. apply oq_eq_sym, inert_ratio_sq_spec.
Qed.

(* central second moments and area are translation invariant *)
Definition central2 (c : list pt) : option (Q * Q * Q * Q) :=
  match cont_moments_cv c with
  | Some m => Some (m00 m, mu20 m, mu02 m, mu11 m)
  | None => None
  end.

Definition c2_eq (a b : option (Q * Q * Q * Q)) : Prop :=
  match a, b with
  | Some (a1, a2, a3, a4), Some (b1, b2, b3, b4) =>
      a1 == b1 /\ a2 == b2 /\ a3 == b3 /\ a4 == b4
  | None, None => True
  | _, _ => False
  end.

Lemma central_moments_translation_invariant tx ty c :
  c2_eq (central2 (translate tx ty c)) (central2 c).
Proof.
  unfold central2.
  destruct (Z.eq_dec (a00 c) 0) as [E|E].
  - rewrite (moments_none c E).
    rewrite moments_none by (rewrite a00_translate; exact E). exact I.
  - destruct (moments_some c E) as (m & Hm & H00 & H20 & H02 & H11).
    destruct (moments_some (translate tx ty c))
      as (m' & Hm' & H00' & H20' & H02' & H11').
    { rewrite a00_translate; exact E. }
    rewrite Hm, Hm'. simpl.
    rewrite H00, H20, H02, H11, H00', H20', H02', H11'.
    unfold D36.
    rewrite a00_translate, N20_translate, N02_translate, N11_translate.
    repeat split; reflexivity.
Qed.

(* exchanging the axes gives the reciprocal ratio *)
Definition oq_inv (a : option Q) : option Q :=
  match a with Some x => Some (/ x) | None => None end.

Lemma inert_ratio_axis_swap_reciprocal c :
  oq_eq (inert_ratio_sq (swap_xy c)) (oq_inv (inert_ratio_sq c)).
Proof.
  eapply oq_eq_trans; [apply inert_ratio_sq_spec|].
  assert (H : oq_eq (oq_inv (spec_inert_ratio_sq c))
                    (oq_inv (inert_ratio_sq c))).
  { pose proof (inert_ratio_sq_spec c) as H.
    destruct (inert_ratio_sq c), (spec_inert_ratio_sq c); simpl in *;
      try tauto. rewrite H. reflexivity. }
  eapply oq_eq_trans; [|exact H].
  unfold spec_inert_ratio_sq, D36.
  rewrite a00_swap, N20_swap, N02_swap.
  replace (Z.abs (- a00 c)) with (Z.abs (a00 c)) by lia.
  replace (- a00 c =? 0)%Z with (a00 c =? 0)%Z by lia.
  destruct (a00 c =? 0)%Z; simpl; [exact I|].
  unfold Qdiv. rewrite !Qinv_mult_distr, !Qinv_involutive. ring.
Qed.

Lemma inert_ratio_swap_product c q q' :
  inert_ratio_sq c = Some q -> inert_ratio_sq (swap_xy c) = Some q' ->
  (N20 c <> 0)%Z -> (N02 c <> 0)%Z -> q' * q == 1.
Proof.
  intros Hq Hq' H20 H02.
  pose proof (inert_ratio_axis_swap_reciprocal c) as H1.
  pose proof (inert_ratio_sq_spec c) as H2.
  rewrite Hq' in H1. rewrite Hq in H1, H2. simpl in H1.
  unfold spec_inert_ratio_sq in H2.
  destruct (a00 c =? 0)%Z eqn:E; [contradiction|]. simpl in H2.
  rewrite H1. rewrite H2.
  assert (~ zq (N20 c) == 0) by (apply zq_nonzero; exact H20).
  assert (~ zq (N02 c) == 0) by (apply zq_nonzero; exact H02).
  assert (~ D36 c == 0) by (apply zq_nonzero; lia).
  field. auto.
Qed.

(* orientation reversal leaves the ratio unchanged (signs are normalised) *)
Lemma inert_ratio_reversal_invariant c :
  oq_eq (inert_ratio_sq (rev c)) (inert_ratio_sq c).
Proof.
  eapply oq_eq_trans; [apply inert_ratio_sq_spec|].
  eapply oq_eq_trans; [|apply oq_eq_sym, inert_ratio_sq_spec].
  unfold spec_inert_ratio_sq, D36. rewrite a00_rev, N20_rev, N02_rev.
  replace (Z.abs (- a00 c)) with (Z.abs (a00 c)) by lia.
  replace (- a00 c =? 0)%Z with (a00 c =? 0)%Z by lia.
  apply oq_eq_refl.
Qed.

Close Scope Q_scope.

(* ---------------------------------------------------------------------- *)
(* volume of revolution                                                    *)
(* ---------------------------------------------------------------------- *)
Lemma seg_refl p : seg p p = 0.
Proof. unfold seg. rewrite Z.sub_diag. reflexivity. Qed.

(* the truncated-cone term is symmetric in the two radii:
   3r^2 + 3r(R-r) + (R-r)^2 = r^2 + rR + R^2 *)
Lemma seg_antisym p q : seg q p = - seg p q.
Proof.
  destruct p as [r0 z0], q as [r1 z1]. unfold seg. cbn [fst snd].
  replace (3 * (r1 * r1) + 3 * (r1 * (r0 - r1)) + (r0 - r1) * (r0 - r1))
    with (3 * (r0 * r0) + 3 * (r0 * (r1 - r0)) + (r1 - r0) * (r1 - r0))
    by ring.
  ring.
Qed.

Lemma vpath_psum a l z : vpath a (l ++ [z]) = psum seg a l z.
Proof.
  revert a; induction l as [|b t IH]; intros a; simpl; [lia|].
  rewrite IH. reflexivity.
Qed.

(* spec: the code's "close the contour if it is open, then sum" is the sum
   over the cyclic polygon *)
Lemma vsum_csum c : vsum c = csum seg c.
Proof.
  destruct c as [|a t]; [reflexivity|].
  unfold vsum, vclose.
  destruct (pt_eqb (last (a :: t) a) a) eqn:E.
  - apply pt_eqb_eq in E. simpl csum.
    destruct t as [|b t'] using rev_ind.
    + simpl. rewrite seg_refl. reflexivity.
    + clear IHt'. rewrite vpath_psum.
      change (a :: t' ++ [b]) with ((a :: t') ++ [b]) in E.
      rewrite last_last in E. subst b.
      rewrite psum_app. simpl. rewrite seg_refl. lia.
  - change ((a :: t) ++ [a]) with (a :: (t ++ [a])). cbv iota.
    rewrite vpath_psum. reflexivity.
Qed.

Lemma vsum_rev c : vsum (rev c) = - vsum c.
Proof. rewrite !vsum_csum. apply csum_rev. intros p q. apply seg_antisym. Qed.

Definition shift_z (t : Z) (p : pt) : pt := (fst p, snd p + t).
Definition scale_pt (s : Z) (p : pt) : pt := (s * fst p, s * snd p).

Lemma vsum_translate_z t c : vsum (map (shift_z t) c) = vsum c.
Proof.
  rewrite !vsum_csum.
  rewrite (csum_scale seg seg 1 (shift_z t) c); [lia|].
  intros [r0 z0] [r1 z1]. unfold seg, shift_z. cbn [fst snd].
  replace (z1 + t - (z0 + t)) with (z1 - z0) by ring. lia.
Qed.

Lemma vsum_scale s c : vsum (map (scale_pt s) c) = s * s * s * vsum c.
Proof.
  rewrite !vsum_csum.
  apply (csum_scale seg seg (s * s * s) (scale_pt s) c).
  intros [r0 z0] [r1 z1]. unfold seg, scale_pt. cbn [fst snd].
  replace (3 * (s * r0 * (s * r0)) + 3 * (s * r0 * (s * r1 - s * r0))
           + (s * r1 - s * r0) * (s * r1 - s * r0))
    with ((s * s) * (3 * (r0 * r0) + 3 * (r0 * (r1 - r0))
                     + (r1 - r0) * (r1 - r0))) by ring.
  rewrite Z.abs_mul. rewrite (Z.abs_eq (s * s)) by apply Z.square_nonneg.
  ring.
Qed.

(* --- vol_revolve (with its assertions) --- *)
Lemma combine_snoc {A B} (l1 : list A) (l2 : list B) a b :
  length l1 = length l2 ->
  combine (l1 ++ [a]) (l2 ++ [b]) = combine l1 l2 ++ [(a, b)].
Proof.
  revert l2; induction l1 as [|x l1 IH]; intros [|y l2] H; simpl in *;
    try discriminate; [reflexivity|].
  rewrite IH by lia. reflexivity.
Qed.

Lemma combine_rev' {A B} (l1 : list A) (l2 : list B) :
  length l1 = length l2 ->
  combine (rev l1) (rev l2) = rev (combine l1 l2).
Proof.
  revert l2; induction l1 as [|x l1 IH]; intros [|y l2] H; simpl in *;
    try discriminate; [reflexivity|].
  rewrite combine_snoc by (rewrite !rev_length; lia).
  rewrite IH by lia. reflexivity.
Qed.

Lemma combine_map2 {A B C D} (f : A -> C) (g : B -> D) l1 l2 :
  combine (map f l1) (map g l2)
  = map (fun p => (f (fst p), g (snd p))) (combine l1 l2).
Proof.
  revert l2; induction l1 as [|x l1 IH]; intros [|y l2]; simpl;
    try reflexivity.
  rewrite IH. reflexivity.
Qed.

Lemma forallb_rev {A} (f : A -> bool) l : forallb f (rev l) = forallb f l.
Proof.
  destruct (forallb f l) eqn:E.
  - apply forallb_forall. intros x Hx. apply in_rev in Hx.
    rewrite forallb_forall in E. auto.
  - destruct (forallb f (rev l)) eqn:E'; [|reflexivity].
    rewrite forallb_forall in E'.
    assert (forallb f l = true).
    { apply forallb_forall. intros x Hx. apply E'. apply in_rev.
      rewrite rev_involutive. exact Hx. }
    congruence.
Qed.

Definition omap (f : Z -> Z) (o : option Z) : option Z :=
  match o with Some v => Some (f v) | None => None end.

Lemma vol_revolve_reverse r z ps :
  vol_revolve (rev r) (rev z) ps = omap Z.opp (vol_revolve r z ps).
Proof.
  unfold vol_revolve, zlen. rewrite !rev_length, forallb_rev.
  destruct (length r =? length z)%nat eqn:E; [|reflexivity].
  apply Nat.eqb_eq in E. simpl andb.
  destruct ((3 <=? Z.of_nat (length r)) && forallb (fun x => 0 <=? x) r);
    [|reflexivity].
  simpl. rewrite combine_rev' by exact E. rewrite vsum_rev. f_equal. ring.
Qed.

Lemma vol_revolve_translate_z r z ps t :
  vol_revolve r (map (fun v => v + t) z) ps = vol_revolve r z ps.
Proof.
  unfold vol_revolve, zlen. rewrite map_length.
  destruct ((length r =? length z)%nat && (3 <=? Z.of_nat (length r))
            && forallb (fun x => 0 <=? x) r); [|reflexivity].
  f_equal. f_equal.
  rewrite <- (map_id r) at 1. rewrite combine_map2.
  apply vsum_translate_z.
Qed.

Lemma vol_revolve_scale_coords r z ps s :
  0 < s ->
  vol_revolve (map (Z.mul s) r) (map (Z.mul s) z) ps
  = omap (Z.mul (s * s * s)) (vol_revolve r z ps).
Proof.
  intros Hs. unfold vol_revolve, zlen. rewrite !map_length.
  assert (Hf : forallb (fun x => 0 <=? x) (map (Z.mul s) r)
               = forallb (fun x => 0 <=? x) r).
  { induction r as [|x r IH]; [reflexivity|]. simpl. rewrite IH.
    f_equal. destruct (0 <=? x) eqn:E; nia. }
  rewrite Hf.
  destruct ((length r =? length z)%nat && (3 <=? Z.of_nat (length r))
            && forallb (fun x => 0 <=? x) r); [|reflexivity].
  simpl. f_equal. rewrite combine_map2.
  change (fun p : Z * Z => (s * fst p, s * snd p)) with (scale_pt s).
  rewrite vsum_scale. ring.
Qed.

Lemma vol_revolve_point_scale r z ps s :
  vol_revolve r z (s * ps) = omap (Z.mul (s * s * s)) (vol_revolve r z ps).
Proof.
  unfold vol_revolve.
  destruct ((length r =? length z)%nat && (3 <=? zlen r)
            && forallb (fun x => 0 <=? x) r); [|reflexivity].
  simpl. f_equal. ring.
Qed.

(* vol_revolve on the two columns of a list of points *)
Lemma vol_revolve_cols c ps :
  3 <= zlen c -> Forall (fun p => 0 <= fst p) c ->
  vol_revolve (map fst c) (map snd c) ps = Some (vsum c * (ps * ps * ps)).
Proof.
  intros Hl Hr. unfold vol_revolve, zlen in *. rewrite !map_length.
  rewrite Nat.eqb_refl.
  replace (3 <=? Z.of_nat (length c)) with true by lia.
  assert (Hf : forallb (fun x => 0 <=? x) (map fst c) = true).
  { apply forallb_forall. intros x Hx. apply in_map_iff in Hx.
    destruct Hx as (p & <- & Hp). rewrite Forall_forall in Hr.
    specialize (Hr p Hp). lia. }
  rewrite Hf. simpl. f_equal. f_equal. f_equal.
  clear. induction c as [|[a b] c IH]; [reflexivity|]. simpl. rewrite IH.
  reflexivity.
Qed.

(* --- get_volume --- *)
Lemma right_half_rev c : right_half (rev c) = rev (right_half c).
Proof. unfold right_half. apply map_rev. Qed.

Lemma left_half_rev c : left_half (rev c) = rev (left_half c).
Proof. unfold left_half. rewrite map_rev. reflexivity. Qed.

Lemma get_volume_c_reverse c :
  get_volume_c (rev c) = omap Z.opp (get_volume_c c).
Proof.
  unfold get_volume_c, zlen. rewrite rev_length.
  destruct (4 <=? Z.of_nat (length c)); [|reflexivity]. simpl.
  rewrite right_half_rev, left_half_rev, !vsum_rev. f_equal. ring.
Qed.

Definition shift_x (t : Z) (p : pt) : pt := (fst p + t, snd p).

Lemma get_volume_c_translate_axis t c :
  get_volume_c (map (shift_x t) c) = get_volume_c c.
Proof.
  unfold get_volume_c, zlen. rewrite map_length.
  destruct (4 <=? Z.of_nat (length c)); [|reflexivity]. f_equal.
  assert (HR : right_half (map (shift_x t) c)
               = map (shift_z t) (right_half c)).
  { unfold right_half. rewrite !map_map. reflexivity. }
  assert (HL : left_half (map (shift_x t) c)
               = map (shift_z t) (left_half c)).
  { unfold left_half. rewrite map_map. rewrite <- !map_rev.
    rewrite map_map. reflexivity. }
  rewrite HR, HL, !vsum_translate_z. reflexivity.
Qed.

Lemma get_volume_c_scale s c :
  0 <= s ->
  get_volume_c (map (scale_pt s) c)
  = omap (Z.mul (s * s * s)) (get_volume_c c).
Proof.
  intros Hs. unfold get_volume_c, zlen. rewrite map_length.
  destruct (4 <=? Z.of_nat (length c)); [|reflexivity]. simpl. f_equal.
  assert (HR : right_half (map (scale_pt s) c)
               = map (scale_pt s) (right_half c)).
  { unfold right_half. rewrite !map_map. apply map_ext. intros [x y].
    unfold scale_pt. cbn [fst snd]. f_equal.
    rewrite <- Z.mul_max_distr_nonneg_l by exact Hs. f_equal. lia. }
  assert (HL : left_half (map (scale_pt s) c)
               = map (scale_pt s) (left_half c)).
  { unfold left_half. rewrite map_map. rewrite <- !map_rev.
    rewrite map_map. apply map_ext. intros [x y]. unfold scale_pt. cbn [fst snd]. f_equal.
    rewrite Z.mul_opp_r. f_equal.
    rewrite <- Z.mul_min_distr_nonneg_l by exact Hs. f_equal. lia. }
  rewrite HR, HL, !vsum_scale. ring.
Qed.

(* the volume does not depend on the position of the centre along the axis
   of rotation *)
Lemma get_volume_axis_independent k cx cx' cy c :
  get_volume k cx' cy c = get_volume k cx cy c.
Proof.
  unfold get_volume.
  assert (H : centre k cx' cy c = map (shift_x (cx - cx')) (centre k cx cy c)).
  { unfold centre. rewrite map_map. apply map_ext. intros [x y].
    unfold shift_x. cbn [fst snd]. f_equal. ring. }
  rewrite H. apply get_volume_c_translate_axis.
Qed.

(* contour and centroid translated together *)
Lemma get_volume_translate k cx cy tx ty c :
  get_volume k (cx + k * tx) (cy + k * ty) (translate tx ty c)
  = get_volume k cx cy c.
Proof.
  unfold get_volume. f_equal. unfold centre, translate. rewrite map_map.
  apply map_ext. intros [x y]. cbn [fst snd]. f_equal; ring.
Qed.

(* the same contour and centre expressed in a unit s times finer: the
   integer volume grows with s^3 (volume ~ pixel size cubed) *)
Lemma get_volume_unit_cubic s k cx cy c :
  0 <= s ->
  get_volume (s * k) (s * cx) (s * cy) c
  = omap (Z.mul (s * s * s)) (get_volume k cx cy c).
Proof.
  intros Hs. unfold get_volume.
  assert (H : centre (s * k) (s * cx) (s * cy) c
              = map (scale_pt s) (centre k cx cy c)).
  { unfold centre. rewrite map_map. apply map_ext. intros [x y].
    unfold scale_pt. cbn [fst snd]. f_equal; ring. }
  rewrite H. apply get_volume_c_scale. exact Hs.
Qed.

Lemma get_volume_reverse k cx cy c :
  get_volume k cx cy (rev c) = omap Z.opp (get_volume k cx cy c).
Proof.
  unfold get_volume, centre. rewrite map_rev. apply get_volume_c_reverse.
Qed.

Lemma inertia_numerators_translate (tx ty : Z) (c : list pt) :
  N20 (translate tx ty c) = N20 c /\ N02 (translate tx ty c) = N02 c /\
  a00 (translate tx ty c) = a00 c.
Proof.
  repeat split;
    [apply N20_translate|apply N02_translate|apply a00_translate].
Qed.

(* ---------------------------------------------------------------------- *)
(* non-vacuity: concrete inputs meeting the hypotheses                     *)
(* ---------------------------------------------------------------------- *)
Example ex_dedup :
  remove_duplicates [(1, 1); (1, 1); (2, 2); (2, 2); (3, 1); (1, 1); (1, 1)]
  = [(1, 1); (2, 2); (3, 1)].
Proof. vm_compute. reflexivity. Qed.

Example ex_dedup_all_equal : remove_duplicates [(3, 4); (3, 4); (3, 4)] = [].
Proof. vm_compute. reflexivity. Qed.

(* a 4 x 2 rectangle: a00 <> 0, N20, N02 <> 0, squared inertia ratio 4 *)
Definition ex_rect : list pt := [(0, 0); (4, 0); (4, 2); (0, 2)].

Example ex_rect_moments :
  a00 ex_rect <> 0 /\ N20 ex_rect <> 0 /\ N02 ex_rect <> 0 /\
  oq_eq (inert_ratio_sq ex_rect) (Some (Qmake (4) 1)) /\
  oq_eq (inert_ratio_sq (swap_xy ex_rect)) (Some (Qmake (1) 4)) /\
  oq_eq (inert_ratio_sq (translate 100 (-7) ex_rect)) (Some (Qmake (4) 1)).
Proof. vm_compute. repeat split; discriminate. Qed.

(* a cylinder of radius 2 and height 3: pi/3 * 36 = pi r^2 h *)
Example ex_cylinder :
  vol_revolve [0; 2; 2; 0] [0; 0; 3; 3] 1 = Some 36 /\
  vol_revolve (rev [0; 2; 2; 0]) (rev [0; 0; 3; 3]) 1 = Some (-36) /\
  vol_revolve [0; 4; 4; 0] [0; 0; 6; 6] 1 = Some (8 * 36) /\
  vol_revolve [0; 2; 2; 0] [0; 0; 3; 3] 2 = Some (8 * 36).
Proof. vm_compute. repeat split; reflexivity. Qed.

Example ex_get_volume :
  get_volume 8 16 8 [(0, 0); (0, 2); (4, 2); (4, 0)] = Some (2 * 512 * 12) /\
  get_volume 8 16 8 (rev [(0, 0); (0, 2); (4, 2); (4, 0)])
  = Some (- (2 * 512 * 12)).
Proof. vm_compute. split; reflexivity. Qed.
