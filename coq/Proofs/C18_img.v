(* Proofs about Model/C18.v, part 2: brightness, crosstalk, marching
   squares case table. *)
From Coq Require Import ZArith QArith Qabs List Bool Lia ZifyBool ZifyNat.
From Verif Require Import Model.C18.
Import ListNotations.
Open Scope Z_scope.
Ltac Zify.zify_post_hook ::= Z.div_mod_to_equations.

(* ---------------------------------------------------------------------- *)
(* brightness                                                              *)
(* ---------------------------------------------------------------------- *)
Definition shift (k : Z) (l : list Z) : list Z := map (fun x => x + k) l.

Lemma zsum_shift k l : zsum (shift k l) = zsum l + k * zlen l.
Proof.
  unfold zlen. induction l as [|x t IH]; [simpl; lia|].
  unfold shift in *. cbn [map zsum fold_right length] in *.
  unfold zsum in IH. rewrite IH. lia.
Qed.

Lemma zlen_shift k l : zlen (shift k l) = zlen l.
Proof. unfold zlen, shift. rewrite map_length. reflexivity. Qed.

Lemma zlen_pos {A} (l : list A) : l <> [] -> 0 < zlen l.
Proof. destruct l; [congruence|]. unfold zlen. simpl. lia. Qed.

Open Scope Q_scope.

Lemma zq_plus a b : zq (a + b) == zq a + zq b.
Proof. unfold zq. rewrite inject_Z_plus. reflexivity. Qed.
Lemma zq_mult a b : zq (a * b) == zq a * zq b.
Proof. unfold zq. rewrite inject_Z_mult. reflexivity. Qed.
Lemma zq_nz z : (z <> 0)%Z -> ~ zq z == 0.
Proof. intros H E. unfold zq, Qeq in E. simpl in E. lia. Qed.

(* the mean shifts one-to-one with an integer offset of the data *)
Lemma mean_offset_shift k l :
  l <> [] -> mean (shift k l) == mean l + zq k.
Proof.
  intros H. unfold mean. rewrite zsum_shift, zlen_shift.
  rewrite zq_plus, zq_mult.
  assert (~ zq (zlen l) == 0) by (apply zq_nz; pose proof (zlen_pos l H); lia).
  field. assumption.
Qed.

Lemma qsum_ext {A} (f g : A -> Q) l :
  (forall x, f x == g x) -> qsum (map f l) == qsum (map g l).
Proof.
  intros H. induction l as [|x t IH]; simpl; [reflexivity|].
  rewrite H, IH. reflexivity.
Qed.

(* the deviation does not see the offset *)
Lemma variance_offset_invariant k l :
  l <> [] -> variance (shift k l) == variance l.
Proof.
  intros H. unfold variance. rewrite zlen_shift.
  assert (Hm : forall f : Z -> Q,
             map f (shift k l) = map (fun x => f (x + k)%Z) l).
  { intros f. unfold shift. apply map_map. }
  rewrite Hm.
  assert (E : qsum (map (fun x => (zq (x + k) - mean (shift k l))
                                  * (zq (x + k) - mean (shift k l))) l)
              == qsum (map (fun x => (zq x - mean l) * (zq x - mean l)) l)).
  { apply qsum_ext. intros x. rewrite mean_offset_shift by exact H.
    rewrite zq_plus. ring. }
  rewrite E. reflexivity.
Qed.

Close Scope Q_scope.

(* masked selection commutes with the integer background subtraction *)
Lemma zsub_nil_r a : zsub a [] = [].
Proof. destruct a; reflexivity. Qed.

Lemma sel_nil mask : sel mask [] = [].
Proof. destruct mask as [|[] m]; reflexivity. Qed.

Lemma sel_zsub mask a b :
  sel mask (zsub a b) = zsub (sel mask a) (sel mask b).
Proof.
  revert a b; induction mask as [|m mask IH]; intros a b; [reflexivity|].
  destruct a as [|x a]; [destruct m; reflexivity|].
  destruct b as [|y b].
  - rewrite zsub_nil_r, !sel_nil, zsub_nil_r. reflexivity.
  - simpl. destruct m; simpl; rewrite IH; reflexivity.
Qed.

Lemma sel_length_eq mask a b :
  length a = length b -> length (sel mask a) = length (sel mask b).
Proof.
  revert a b; induction mask as [|m mask IH]; intros [|x a] [|y b] H;
    simpl in *; try discriminate; try reflexivity.
  destruct m; simpl; rewrite (IH a b) by lia; reflexivity.
Qed.

Lemma zsum_zsub a b :
  length a = length b -> zsum (zsub a b) = zsum a - zsum b.
Proof.
  revert b; induction a as [|x a IH]; intros [|y b] H; simpl in *;
    try discriminate; [reflexivity|].
  unfold zsum in *. rewrite IH by lia. lia.
Qed.

Lemma zsub_length a b : length a = length b -> length (zsub a b) = length a.
Proof.
  revert b; induction a as [|x a IH]; intros [|y b] H; simpl in *;
    try discriminate; [reflexivity|]. rewrite IH by lia. reflexivity.
Qed.

Open Scope Q_scope.

Lemma mean_zsub a b :
  length a = length b -> a <> [] -> mean (zsub a b) == mean a - mean b.
Proof.
  intros Hl Hne. unfold mean, zlen.
  rewrite zsum_zsub by exact Hl. rewrite zsub_length by exact Hl.
  rewrite <- Hl.
  assert (~ zq (Z.of_nat (length a)) == 0).
  { apply zq_nz. destruct a; [congruence|simpl; lia]. }
  unfold Z.sub. rewrite zq_plus. unfold zq at 2. rewrite inject_Z_opp.
  fold (zq (zsum b)). field. assumption.
Qed.

(* background-corrected average = average of the image minus average of the
   background under the mask (minus the offset) *)
Lemma bright_bc_avg_difference mask img bg off a v :
  length img = length bg ->
  get_bright_bc mask img bg off = Some (a, v) ->
  a == mean (sel mask img) - mean (sel mask bg)
       - match off with Some o => o | None => 0 end.
Proof.
  intros Hl. unfold get_bright_bc. rewrite sel_zsub.
  pose proof (sel_length_eq mask img bg Hl) as Hs.
  destruct (sel mask img) as [|x t] eqn:EA.
  - simpl. discriminate.
  - assert (Hne : x :: t <> []) by discriminate.
    pose proof (mean_zsub (x :: t) (sel mask bg) Hs Hne) as Hm.
    destruct (zsub (x :: t) (sel mask bg)) as [|y u] eqn:E; [discriminate|].
    intros [= <- _]. destruct off; rewrite Hm; ring.
Qed.

(* offsets shift the average one-to-one and leave the deviation alone *)
Lemma bright_bc_offset_one_to_one mask img bg o a v a0 v0 :
  get_bright_bc mask img bg (Some o) = Some (a, v) ->
  get_bright_bc mask img bg None = Some (a0, v0) ->
  a == a0 - o /\ v == v0.
Proof.
  unfold get_bright_bc. destruct (sel mask (zsub img bg)); [discriminate|].
  intros [= <- <-] [= <- <-]. split; reflexivity.
Qed.

Lemma bright_perc_offset_one_to_one mask img bg o p10 p90 q10 q90 :
  get_bright_perc mask img bg (Some o) = Some (p10, p90) ->
  get_bright_perc mask img bg None = Some (q10, q90) ->
  p10 == q10 - o /\ p90 == q90 - o.
Proof.
  unfold get_bright_perc. destruct (sel mask (zsub img bg)); [discriminate|].
  intros [= <- <-] [= <- <-]. split; reflexivity.
Qed.

Close Scope Q_scope.

(* --- percentiles --- *)
Lemma insert_shift k x l :
  insert (x + k) (shift k l) = shift k (insert x l).
Proof.
  unfold shift. induction l as [|y t IH]; [reflexivity|]. simpl.
  replace (x + k <=? y + k) with (x <=? y) by lia.
  destruct (x <=? y); [reflexivity|]. simpl. rewrite IH. reflexivity.
Qed.

Lemma isort_shift k l : isort (shift k l) = shift k (isort l).
Proof.
  induction l as [|x t IH]; [reflexivity|].
  change (shift k (x :: t)) with ((x + k) :: shift k t).
  simpl. rewrite IH. apply insert_shift.
Qed.

Lemma insert_length x l : length (insert x l) = S (length l).
Proof.
  induction l as [|y t IH]; [reflexivity|]. simpl.
  destruct (x <=? y); simpl; [reflexivity|]. rewrite IH. reflexivity.
Qed.

Lemma isort_length l : length (isort l) = length l.
Proof.
  induction l as [|x t IH]; [reflexivity|]. simpl.
  rewrite insert_length, IH. reflexivity.
Qed.

Open Scope Q_scope.

(* percentiles shift one-to-one with an integer offset of the data *)
Lemma percentile_offset_shift q k l :
  l <> [] -> (0 <= q <= 100)%Z ->
  percentile q (shift k l) == percentile q l + zq k.
Proof.
  intros Hne Hq. unfold percentile. rewrite zlen_shift, isort_shift.
  set (n := zlen l).
  assert (Hn : (0 < n)%Z) by (apply zlen_pos; exact Hne).
  set (lo := (q * (n - 1) / 100)%Z).
  assert (Hlo : (0 <= lo < n)%Z) by (unfold lo; nia).
  set (s := isort l).
  assert (Hlen : length s = length l) by apply isort_length.
  assert (Ha : nth (Z.to_nat lo) (shift k s) 0%Z
               = (nth (Z.to_nat lo) s 0%Z + k)%Z).
  { unfold shift.
    rewrite (nth_indep _ 0%Z ((fun x => (x + k)%Z) 0%Z)).
    - apply (map_nth (fun x => (x + k)%Z)).
    - rewrite map_length, Hlen. unfold n, zlen in Hlo. lia. }
  rewrite Ha.
  set (a := nth (Z.to_nat lo) s 0%Z).
  assert (Hb : nth (Z.to_nat (lo + 1)) (shift k s) (a + k)%Z
               = (nth (Z.to_nat (lo + 1)) s a + k)%Z).
  { unfold shift. apply (map_nth (fun x => (x + k)%Z)). }
  rewrite Hb. rewrite !zq_plus. ring.
Qed.

(* ---------------------------------------------------------------------- *)
(* crosstalk                                                               *)
(* ---------------------------------------------------------------------- *)
Lemma comp_inverts_spill m :
  ~ det3 m == 0 ->
  mat_eq (mul3 (inv3 m) m) id3 /\ mat_eq (mul3 m (inv3 m)) id3.
Proof.
  intros H. destruct m as [a b c d e f g h i].
  unfold mat_eq, mul3, inv3, id3, det3 in *. cbn [x11 x12 x13 x21 x22 x23
    x31 x32 x33] in *.
  repeat split; field; exact H.
Qed.

Definition nonneg6 (ct21 ct31 ct12 ct32 ct13 ct23 : Q) : Prop :=
  0 <= ct21 /\ 0 <= ct31 /\ 0 <= ct12 /\ 0 <= ct32 /\ 0 <= ct13 /\ 0 <= ct23.

Lemma qneg_false q : 0 <= q -> qneg q = false.
Proof.
  intros H. unfold qneg. apply Qle_bool_iff in H. rewrite H. reflexivity.
Qed.

Lemma compensation_matrix_is_inverse ct21 ct31 ct12 ct32 ct13 ct23 :
  nonneg6 ct21 ct31 ct12 ct32 ct13 ct23 ->
  let m := crosstalk_matrix ct21 ct31 ct12 ct32 ct13 ct23 in
  ~ det3 m == 0 ->
  exists minv, get_compensation_matrix ct21 ct31 ct12 ct32 ct13 ct23
               = CtVal minv /\
               mat_eq (mul3 minv m) id3 /\ mat_eq (mul3 m minv) id3.
Proof.
  intros (H1 & H2 & H3 & H4 & H5 & H6) m Hd.
  unfold get_compensation_matrix.
  rewrite !qneg_false by assumption. simpl orb. cbv iota.
  fold m.
  destruct (Qeq_bool (det3 m) 0) eqn:E.
  - apply Qeq_bool_iff in E. contradiction.
  - exists (inv3 m). split; [reflexivity|]. apply comp_inverts_spill.
    exact Hd.
Qed.

(* correct_crosstalk applied to the signals the spill-over model produces
   from t1, t2, t3 gives back t1, t2, t3 *)
Lemma crosstalk_correction_inverts_spill
      ct21 ct31 ct12 ct32 ct13 ct23 t1 t2 t3 :
  nonneg6 ct21 ct31 ct12 ct32 ct13 ct23 ->
  let m := crosstalk_matrix ct21 ct31 ct12 ct32 ct13 ct23 in
  ~ det3 m == 0 ->
  let '(f1, f2, f3) := spill m t1 t2 t3 in
  exists v1 v2 v3,
    correct_crosstalk f1 f2 f3 1 ct21 ct31 ct12 ct32 ct13 ct23 = CtVal v1 /\
    correct_crosstalk f1 f2 f3 2 ct21 ct31 ct12 ct32 ct13 ct23 = CtVal v2 /\
    correct_crosstalk f1 f2 f3 3 ct21 ct31 ct12 ct32 ct13 ct23 = CtVal v3 /\
    v1 == t1 /\ v2 == t2 /\ v3 == t3.
Proof.
  intros (H1 & H2 & H3 & H4 & H5 & H6) m Hd.
  unfold spill, correct_crosstalk, get_compensation_matrix.
  rewrite !qneg_false by assumption. simpl orb. cbv iota. fold m.
  destruct (Qeq_bool (det3 m) 0) eqn:E.
  - apply Qeq_bool_iff in E. contradiction.
  - do 3 eexists. repeat split; try reflexivity.
    all: unfold apply_col; simpl Z.eqb; cbv iota;
      unfold m, inv3, det3, crosstalk_matrix in *;
      cbn [x11 x12 x13 x21 x22 x23 x31 x32 x33] in *; field;
      intro HH; apply Hd; rewrite <- HH; ring.
Qed.

Close Scope Q_scope.

(* ---------------------------------------------------------------------- *)
(* marching squares: case table                                            *)
(* ---------------------------------------------------------------------- *)
Definition differs (ul ur ll lr : bool) (e : edge) : bool :=
  match e with
  | ET => xorb ul ur
  | EB => xorb ll lr
  | EL => xorb ul ll
  | ER => xorb ur lr
  end.

(* the segment leaves from an edge when the high pixel is on this side
   (low values are to the left of the direction of travel) *)
Definition leaves (ul ur ll lr : bool) (e : edge) : bool :=
  match e with
  | ET => ul
  | EB => lr
  | EL => ll
  | ER => ur
  end.

Definition count_edge (e : edge) (l : list edge) : nat :=
  length (filter (edge_eqb e) l).

Definition b2n (b : bool) : nat := if b then 1%nat else 0%nat.

Definition bools := [false; true].
Definition edges := [ET; EB; EL; ER].

Definition all5 : list (bool * bool * bool * bool * bool) :=
  flat_map (fun a => flat_map (fun b => flat_map (fun c => flat_map (fun d =>
    map (fun v => (a, b, c, d, v)) bools) bools) bools) bools) bools.

Lemma all5_complete x : In x all5.
Proof.
  destruct x as [[[[[] []] []] []] []]; vm_compute; tauto.
Qed.

Definition table_ok (x : bool * bool * bool * bool * bool) : bool :=
  let '(ul, ur, ll, lr, vch) := x in
  let sg := segs (square_case ul ur ll lr) vch in
  forallb (fun e =>
    Nat.eqb (count_edge e (map fst sg))
            (b2n (differs ul ur ll lr e && leaves ul ur ll lr e))
    && Nat.eqb (count_edge e (map snd sg))
               (b2n (differs ul ur ll lr e && negb (leaves ul ur ll lr e))))
    edges.

Lemma table_sweep : forallb table_ok all5 = true.
Proof. vm_compute. reflexivity. Qed.

Lemma edges_complete e : In e edges.
Proof. destruct e; simpl; tauto. Qed.

(* case_table_oriented / edge_consistency: in every square, for both
   settings of vertex_connect_high, every edge whose two pixels differ is
   the tail of exactly one segment or the head of exactly one segment
   (which of the two is decided by the two pixels of that edge alone), and
   no other edge is touched *)
Lemma case_table_oriented ul ur ll lr vch e :
  let sg := segs (square_case ul ur ll lr) vch in
  count_edge e (map fst sg)
  = b2n (differs ul ur ll lr e && leaves ul ur ll lr e) /\
  count_edge e (map snd sg)
  = b2n (differs ul ur ll lr e && negb (leaves ul ur ll lr e)).
Proof.
  pose proof table_sweep as H. rewrite forallb_forall in H.
  specialize (H (ul, ur, ll, lr, vch) (all5_complete _)).
  unfold table_ok in H. rewrite forallb_forall in H.
  specialize (H e (edges_complete e)).
  apply andb_true_iff in H. destruct H as [H1 H2].
  apply Nat.eqb_eq in H1. apply Nat.eqb_eq in H2. split; assumption.
Qed.

(* lifted to all images: on the edge shared by two vertically (horizontally)
   neighbouring squares the upper (left) square starts a segment exactly
   when the lower (right) square ends one, both at the same point *)
Definition cell_case (img : image) (r c : nat) : Z :=
  square_case (px img r c) (px img r (S c)) (px img (S r) c)
              (px img (S r) (S c)).

Lemma edge_consistency_vertical img vch r c :
  let up := segs (cell_case img r c) vch in
  let lo := segs (cell_case img (S r) c) vch in
  count_edge EB (map fst up) = count_edge ET (map snd lo) /\
  count_edge EB (map snd up) = count_edge ET (map fst lo) /\
  (count_edge EB (map fst up) + count_edge EB (map snd up))%nat
  = b2n (xorb (px img (S r) c) (px img (S r) (S c))) /\
  edge_point (Z.of_nat r) (Z.of_nat c) (px img r c) (px img r (S c))
             (px img (S r) c) (px img (S r) (S c)) EB
  = edge_point (Z.of_nat (S r)) (Z.of_nat c) (px img (S r) c)
               (px img (S r) (S c)) (px img (S (S r)) c)
               (px img (S (S r)) (S c)) ET.
Proof.
  unfold cell_case.
  destruct (case_table_oriented (px img r c) (px img r (S c))
              (px img (S r) c) (px img (S r) (S c)) vch EB) as [H1 H2].
  destruct (case_table_oriented (px img (S r) c) (px img (S r) (S c))
              (px img (S (S r)) c) (px img (S (S r)) (S c)) vch ET)
    as [H3 H4].
  cbv zeta. rewrite H1, H2, H3, H4. unfold differs, leaves.
  repeat split.
  - destruct (px img (S r) c), (px img (S r) (S c)); reflexivity.
  - destruct (px img (S r) c), (px img (S r) (S c)); reflexivity.
  - destruct (px img (S r) c), (px img (S r) (S c)); reflexivity.
  - unfold edge_point. f_equal. lia.
Qed.

Lemma edge_consistency_horizontal img vch r c :
  let le := segs (cell_case img r c) vch in
  let ri := segs (cell_case img r (S c)) vch in
  count_edge ER (map fst le) = count_edge EL (map snd ri) /\
  count_edge ER (map snd le) = count_edge EL (map fst ri) /\
  (count_edge ER (map fst le) + count_edge ER (map snd le))%nat
  = b2n (xorb (px img r (S c)) (px img (S r) (S c))) /\
  edge_point (Z.of_nat r) (Z.of_nat c) (px img r c) (px img r (S c))
             (px img (S r) c) (px img (S r) (S c)) ER
  = edge_point (Z.of_nat r) (Z.of_nat (S c)) (px img r (S c))
               (px img r (S (S c))) (px img (S r) (S c))
               (px img (S r) (S (S c))) EL.
Proof.
  unfold cell_case.
  destruct (case_table_oriented (px img r c) (px img r (S c))
              (px img (S r) c) (px img (S r) (S c)) vch ER) as [H1 H2].
  destruct (case_table_oriented (px img r (S c)) (px img r (S (S c)))
              (px img (S r) (S c)) (px img (S r) (S (S c))) vch EL)
    as [H3 H4].
  cbv zeta. rewrite H1, H2, H3, H4. unfold differs, leaves.
  repeat split.
  - destruct (px img r (S c)), (px img (S r) (S c)); reflexivity.
  - destruct (px img r (S c)), (px img (S r) (S c)); reflexivity.
  - destruct (px img r (S c)), (px img (S r) (S c)); reflexivity.
  - unfold edge_point. f_equal. lia.
Qed.

(* rounding: a point placed on an edge whose pixels differ rounds to the
   high pixel of that edge *)
Definition high_pixel (r0 c0 : Z) (ul ur ll lr : bool) (e : edge) : pt :=
  match e with
  | ET => if ul then (r0, c0) else (r0, c0 + 1)
  | EB => if ll then (r0 + 1, c0) else (r0 + 1, c0 + 1)
  | EL => if ul then (r0, c0) else (r0 + 1, c0)
  | ER => if ur then (r0, c0 + 1) else (r0 + 1, c0 + 1)
  end.

Lemma round_sc_0 v : round_sc (v * SC) = v.
Proof. unfold round_sc, SC. lia. Qed.
Lemma round_sc_1 v : round_sc (v * SC + 1) = v.
Proof. unfold round_sc, SC. lia. Qed.
Lemma round_sc_9999 v : round_sc (v * SC + 9999) = v + 1.
Proof. unfold round_sc, SC. lia. Qed.

Lemma rounded_point_is_high_pixel r0 c0 ul ur ll lr e :
  differs ul ur ll lr e = true ->
  round_pt (edge_point r0 c0 ul ur ll lr e) = high_pixel r0 c0 ul ur ll lr e.
Proof.
  unfold differs, round_pt, edge_point, high_pixel, frac.
  destruct e, ul, ur, ll, lr; simpl; try discriminate; intros _;
    cbn [fst snd];
    rewrite ?round_sc_0, ?round_sc_1, ?round_sc_9999, ?Z.add_0_r;
    rewrite ?round_sc_0; reflexivity.
Qed.

(* every endpoint emitted for a square lies on an edge whose pixels differ,
   hence rounds to a high pixel that has a low 4-neighbour in the square *)
Lemma emitted_edges_differ ul ur ll lr vch s :
  In s (segs (square_case ul ur ll lr) vch) ->
  differs ul ur ll lr (fst s) = true /\ differs ul ur ll lr (snd s) = true.
Proof.
  destruct ul, ur, ll, lr, vch; simpl; intros H;
    repeat (destruct H as [<-|H]; [split; reflexivity|]); destruct H.
Qed.

(* and conversely every edge whose pixels differ carries an endpoint *)
Lemma differing_edge_emitted ul ur ll lr vch e :
  differs ul ur ll lr e = true ->
  exists s, In s (segs (square_case ul ur ll lr) vch) /\
            (fst s = e \/ snd s = e).
Proof.
  destruct ul, ur, ll, lr, vch, e; simpl; try discriminate; intros _;
    eauto 8.
Qed.

(* ---------------------------------------------------------------------- *)
(* non-vacuity                                                             *)
(* ---------------------------------------------------------------------- *)
Example ex_bright_bc_value :
  match get_bright_bc [true; false; true; true] [10; 20; 30; 50]
                      [1; 2; 3; 4] (Some (Qmake (1) 2)) with
  | Some (a, v) => (a == Qmake 161 6)%Q /\ (v == Qmake 2054 9)%Q
  | None => False
  end.
Proof. vm_compute. split; reflexivity. Qed.

Definition ex_vals : list Z := [5; 1; 9; 3].

Example ex_percentile :
  (percentile 10 ex_vals == Qmake 16 10)%Q /\
  (percentile 90 (shift 7 ex_vals) == Qmake 78 10 + inject_Z 7)%Q.
Proof. vm_compute. split; reflexivity. Qed.

Example ex_crosstalk :
  nonneg6 (Qmake (1) 4) 0 (Qmake (1) 2) 0 (Qmake (1) 8) 0 /\
  ~ (det3 (crosstalk_matrix (Qmake (1) 4) 0 (Qmake (1) 2) 0 (Qmake (1) 8) 0) == 0)%Q.
Proof. vm_compute. repeat split; discriminate. Qed.

(* the ambiguous square 6 (ur and ll high) with vertex_connect_high *)
Example ex_case6 :
  segs (square_case false true true false) true = [(EL, ET); (ER, EB)] /\
  iterate_and_store [[false; true]; [true; false]] true
  = Some [((9999, 0), (0, 9999)); ((1, 10000), (10000, 1))].
Proof. vm_compute. split; reflexivity. Qed.

(* the defect repaired by commit 726e2fa: the L-shaped mask in the corner of
   a 2x2 frame.  Before: an open contour of two points (the corner pixel
   (0,0) is missing); now: the closed contour through all three pixels. *)
Example ex_border_contour :
  run_get_contour_unpadded [[true; true]; [true; false]] = [1; 0; 1; 1; 0] /\
  run_get_contour [[true; true]; [true; false]] = [1; 1; 0; 0; 0; 0; 1].
Proof. vm_compute. split; reflexivity. Qed.

(* ---------------------------------------------------------------------- *)
(* lifted to whole images: every endpoint that iterate_and_store emits      *)
(* rounds to a boundary pixel of the mask                                   *)
(* ---------------------------------------------------------------------- *)
Definition adjacent4 (r c r' c' : nat) : Prop :=
  (r' = r /\ (c' = S c \/ c = S c')) \/ (c' = c /\ (r' = S r \/ r = S r')).

(* a high pixel with a low 4-neighbour *)
Definition is_boundary (img : image) (p : pt) : Prop :=
  exists r c r' c' : nat,
    p = (Z.of_nat r, Z.of_nat c) /\ px img r c = true /\
    px img r' c' = false /\ adjacent4 r c r' c'.

Lemma endpoint_on_boundary img r c e :
  differs (px img r c) (px img r (S c)) (px img (S r) c)
          (px img (S r) (S c)) e = true ->
  is_boundary img
    (round_pt (edge_point (Z.of_nat r) (Z.of_nat c) (px img r c)
                 (px img r (S c)) (px img (S r) c) (px img (S r) (S c)) e)).
Proof.
  intros Hd. rewrite rounded_point_is_high_pixel by exact Hd.
  unfold is_boundary, adjacent4, high_pixel.
  destruct e; simpl in Hd.
  - destruct (px img r c) eqn:E1, (px img r (S c)) eqn:E2;
      try discriminate.
    + exists r, c, r, (S c). repeat split; auto.
    + exists r, (S c), r, c. rewrite Nat2Z.inj_succ. repeat split; auto; try (f_equal; lia).
  - destruct (px img (S r) c) eqn:E1, (px img (S r) (S c)) eqn:E2;
      try discriminate.
    + exists (S r), c, (S r), (S c). rewrite Nat2Z.inj_succ.
      repeat split; auto; try (f_equal; lia).
    + exists (S r), (S c), (S r), c. rewrite !Nat2Z.inj_succ.
      repeat split; auto; try (f_equal; lia).
  - destruct (px img r c) eqn:E1, (px img (S r) c) eqn:E2;
      try discriminate.
    + exists r, c, (S r), c. repeat split; auto.
    + exists (S r), c, r, c. rewrite Nat2Z.inj_succ. repeat split; auto; try (f_equal; lia).
  - destruct (px img r (S c)) eqn:E1, (px img (S r) (S c)) eqn:E2;
      try discriminate.
    + exists r, (S c), (S r), (S c). rewrite Nat2Z.inj_succ.
      repeat split; auto; try (f_equal; lia).
    + exists (S r), (S c), r, (S c). rewrite !Nat2Z.inj_succ.
      repeat split; auto; try (f_equal; lia).
Qed.

Lemma contour_points_are_boundary_pixels img vch sgs s :
  iterate_and_store img vch = Some sgs -> In s sgs ->
  is_boundary img (round_pt (fst s)) /\ is_boundary img (round_pt (snd s)).
Proof.
  unfold iterate_and_store.
  destruct ((nrows img <? 2)%nat || (ncols img <? 2)%nat); [discriminate|].
  intros [= <-] Hin.
  apply in_flat_map in Hin. destruct Hin as (r & _ & Hin).
  apply in_flat_map in Hin. destruct Hin as (c & _ & Hin).
  unfold cell_segments in Hin. apply in_map_iff in Hin.
  destruct Hin as (sg & <- & Hsg).
  apply emitted_edges_differ in Hsg. destruct Hsg as [H1 H2].
  cbn [fst snd]. split; apply endpoint_on_boundary; assumption.
Qed.

(* conversely: every pair of 4-adjacent differing pixels inside the image
   contributes an endpoint that rounds to its high pixel *)
Lemma cell_in_store img vch sgs r c s :
  iterate_and_store img vch = Some sgs ->
  (S r < nrows img)%nat -> (S c < ncols img)%nat ->
  In s (cell_segments img vch r c) -> In s sgs.
Proof.
  unfold iterate_and_store.
  destruct ((nrows img <? 2)%nat || (ncols img <? 2)%nat); [discriminate|].
  intros [= <-] Hr Hc Hin.
  apply in_flat_map. exists r. split; [apply in_seq; lia|].
  apply in_flat_map. exists c. split; [apply in_seq; lia|exact Hin].
Qed.

Lemma edge_endpoint_emitted img vch r c e :
  differs (px img r c) (px img r (S c)) (px img (S r) c)
          (px img (S r) (S c)) e = true ->
  exists s, In s (cell_segments img vch r c) /\
    (round_pt (fst s) = high_pixel (Z.of_nat r) (Z.of_nat c) (px img r c)
        (px img r (S c)) (px img (S r) c) (px img (S r) (S c)) e \/
     round_pt (snd s) = high_pixel (Z.of_nat r) (Z.of_nat c) (px img r c)
        (px img r (S c)) (px img (S r) c) (px img (S r) (S c)) e).
Proof.
  intros Hd.
  destruct (differing_edge_emitted _ _ _ _ vch e Hd) as (sg & Hsg & He).
  eexists. split.
  - unfold cell_segments. apply in_map_iff. exists sg. split;
      [reflexivity|exact Hsg].
  - cbn [fst snd]. destruct He as [<-|<-]; [left|right];
      apply rounded_point_is_high_pixel.
    + apply (emitted_edges_differ _ _ _ _ vch sg Hsg).
    + apply (emitted_edges_differ _ _ _ _ vch sg Hsg).
Qed.

(* every horizontally adjacent pair of differing pixels inside the image
   contributes an endpoint that rounds to its high pixel *)
Lemma boundary_pair_emitted_h img vch sgs r c :
  iterate_and_store img vch = Some sgs ->
  (r < nrows img)%nat -> (S c < ncols img)%nat ->
  px img r c <> px img r (S c) ->
  exists s, In s sgs /\
    let hp := if px img r c then (Z.of_nat r, Z.of_nat c)
              else (Z.of_nat r, Z.of_nat (S c)) in
    (round_pt (fst s) = hp \/ round_pt (snd s) = hp).
Proof.
  intros Hs Hr Hc Hne.
  assert (Hrows : (2 <= nrows img)%nat).
  { unfold iterate_and_store in Hs.
    destruct (nrows img <? 2)%nat eqn:E; [discriminate|].
    apply Nat.ltb_ge in E. exact E. }
  assert (Hx : xorb (px img r c) (px img r (S c)) = true).
  { destruct (px img r c), (px img r (S c)); try reflexivity;
      exfalso; apply Hne; reflexivity. }
  destruct (Nat.lt_ge_cases (S r) (nrows img)) as [Hlt|Hge].
  - destruct (edge_endpoint_emitted img vch r c ET Hx) as (s & Hin & Hp).
    exists s. split; [exact (cell_in_store img vch sgs r c s Hs Hlt Hc Hin)|].
    cbv zeta. unfold high_pixel in Hp. rewrite Nat2Z.inj_succ.
    destruct (px img r c); exact Hp.
  - destruct r as [|r0]; [lia|].
    assert (Hd : differs (px img r0 c) (px img r0 (S c)) (px img (S r0) c)
                         (px img (S r0) (S c)) EB = true) by exact Hx.
    destruct (edge_endpoint_emitted img vch r0 c EB Hd) as (s & Hin & Hp).
    exists s. split; [exact (cell_in_store img vch sgs r0 c s Hs Hr Hc Hin)|].
    cbv zeta. unfold high_pixel in Hp. rewrite !Nat2Z.inj_succ.
    destruct (px img (S r0) c); exact Hp.
Qed.

Lemma boundary_pair_emitted_v img vch sgs r c :
  iterate_and_store img vch = Some sgs ->
  (S r < nrows img)%nat -> (c < ncols img)%nat ->
  px img r c <> px img (S r) c ->
  exists s, In s sgs /\
    let hp := if px img r c then (Z.of_nat r, Z.of_nat c)
              else (Z.of_nat (S r), Z.of_nat c) in
    (round_pt (fst s) = hp \/ round_pt (snd s) = hp).
Proof.
  intros Hs Hr Hc Hne.
  assert (Hcols : (2 <= ncols img)%nat).
  { unfold iterate_and_store in Hs.
    destruct (nrows img <? 2)%nat; [discriminate|].
    destruct (ncols img <? 2)%nat eqn:E; [discriminate|].
    apply Nat.ltb_ge in E. exact E. }
  assert (Hx : xorb (px img r c) (px img (S r) c) = true).
  { destruct (px img r c), (px img (S r) c); try reflexivity;
      exfalso; apply Hne; reflexivity. }
  destruct (Nat.lt_ge_cases (S c) (ncols img)) as [Hlt|Hge].
  - destruct (edge_endpoint_emitted img vch r c EL Hx) as (s & Hin & Hp).
    exists s. split; [exact (cell_in_store img vch sgs r c s Hs Hr Hlt Hin)|].
    cbv zeta. unfold high_pixel in Hp. rewrite Nat2Z.inj_succ.
    destruct (px img r c); exact Hp.
  - destruct c as [|c0]; [lia|].
    assert (Hd : differs (px img r c0) (px img r (S c0)) (px img (S r) c0)
                         (px img (S r) (S c0)) ER = true) by exact Hx.
    destruct (edge_endpoint_emitted img vch r c0 ER Hd) as (s & Hin & Hp).
    exists s. split; [exact (cell_in_store img vch sgs r c0 s Hs Hr Hc Hin)|].
    cbv zeta. unfold high_pixel in Hp. rewrite !Nat2Z.inj_succ.
    destruct (px img r (S c0)); exact Hp.
Qed.
