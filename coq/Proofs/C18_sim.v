(* Proofs about Model/C18.v, part 3: the principal inertia ratio is
   invariant under rotations (every angle with rational tangent), scaling,
   reflection, translation, and at least one; get_volume and the pixel size;
   brightness batches and offset containers. *)
From Coq Require Import ZArith QArith Qabs List Bool Lia ZifyBool ZifyNat.
From Verif Require Import Model.C18 Proofs.C18 Proofs.C18_img.
Import ListNotations.
Open Scope Z_scope.

(* ---------------------------------------------------------------------- *)
(* linear combinations of cyclic sums                                      *)
(* ---------------------------------------------------------------------- *)
Lemma psum_lin3 e' e1 e2 e3 k1 k2 k3 a l z :
  (forall p q, e' p q = k1 * e1 p q + k2 * e2 p q + k3 * e3 p q) ->
  psum e' a l z = k1 * psum e1 a l z + k2 * psum e2 a l z + k3 * psum e3 a l z.
Proof.
  intros H. revert a; induction l as [|b t IH]; intros a; simpl.
  - apply H.
  - rewrite IH, H. ring.
Qed.

Lemma csum_lin3 e' e1 e2 e3 k1 k2 k3 f c :
  (forall p q, e' (f p) (f q) = k1 * e1 p q + k2 * e2 p q + k3 * e3 p q) ->
  csum e' (map f c) = k1 * csum e1 c + k2 * csum e2 c + k3 * csum e3 c.
Proof.
  intros H. destruct c as [|a t]; simpl; [ring|].
  rewrite psum_map. apply psum_lin3. exact H.
Qed.

Definition sm (p q : Z) (v : pt) : pt :=
  (p * fst v - q * snd v, q * fst v + p * snd v).

Lemma simmap_map p q c : simmap p q c = map (sm p q) c.
Proof. reflexivity. Qed.

Ltac sim_ring :=
  intros [ux uy] [vx vy];
  unfold sm, e00, e10, e01, e20, e11, e02, dxy; cbn [fst snd]; ring.

Section Similarity.
  Variables p q : Z.
  Let K := p * p + q * q.

  Lemma a00_sim c : a00 (simmap p q c) = K * a00 c.
  Proof.
    unfold a00. rewrite simmap_map.
    rewrite (csum_lin3 e00 e00 e00 e00 K 0 0 (sm p q) c); [ring|].
    unfold K. sim_ring.
  Qed.

  Lemma a10_sim c : a10 (simmap p q c) = K * (p * a10 c - q * a01 c).
  Proof.
    unfold a10, a01. rewrite simmap_map.
    rewrite (csum_lin3 e10 e10 e01 e01 (K * p) (- (K * q)) 0 (sm p q) c);
      [ring|].
    unfold K. sim_ring.
  Qed.

  Lemma a01_sim c : a01 (simmap p q c) = K * (q * a10 c + p * a01 c).
  Proof.
    unfold a10, a01. rewrite simmap_map.
    rewrite (csum_lin3 e01 e10 e01 e01 (K * q) (K * p) 0 (sm p q) c);
      [ring|].
    unfold K. sim_ring.
  Qed.

  Lemma a20_sim c :
    a20 (simmap p q c)
    = K * (p * p * a20 c - p * q * a11 c + q * q * a02 c).
  Proof.
    unfold a20, a11, a02. rewrite simmap_map.
    rewrite (csum_lin3 e20 e20 e11 e02 (K * (p * p)) (- (K * (p * q)))
               (K * (q * q)) (sm p q) c); [ring|].
    unfold K. sim_ring.
  Qed.

  Lemma a02_sim c :
    a02 (simmap p q c)
    = K * (q * q * a20 c + p * q * a11 c + p * p * a02 c).
  Proof.
    unfold a20, a11, a02. rewrite simmap_map.
    rewrite (csum_lin3 e02 e20 e11 e02 (K * (q * q)) (K * (p * q))
               (K * (p * p)) (sm p q) c); [ring|].
    unfold K. sim_ring.
  Qed.

  Lemma a11_sim c :
    a11 (simmap p q c)
    = K * (2 * p * q * a20 c + (p * p - q * q) * a11 c - 2 * p * q * a02 c).
  Proof.
    unfold a20, a11, a02. rewrite simmap_map.
    rewrite (csum_lin3 e11 e20 e11 e02 (K * (2 * p * q))
               (K * (p * p - q * q)) (- (K * (2 * p * q))) (sm p q) c);
      [ring|].
    unfold K. sim_ring.
  Qed.

  (* trace and discriminant of the second-moment matrix only pick up powers
     of the scale factor K = p^2 + q^2 *)
  Lemma invariants_sim c :
    a00 (simmap p q c) = K * a00 c /\
    T_N (simmap p q c) = K * K * K * T_N c /\
    Disc_N (simmap p q c) = K * K * K * K * K * K * Disc_N c.
  Proof.
    split; [apply a00_sim|].
    unfold T_N, Disc_N, N20, N02, N11.
    rewrite a00_sim, a10_sim, a01_sim, a20_sim, a02_sim, a11_sim.
    unfold K. split; ring.
  Qed.
End Similarity.

(* reflection x -> -x *)
Definition rx (v : pt) : pt := (- fst v, snd v).
Lemma reflect_map c : reflect_x c = map rx c.
Proof. reflexivity. Qed.

Ltac rx_ring :=
  intros [ux uy] [vx vy];
  unfold rx, e00, e10, e01, e20, e11, e02, dxy; cbn [fst snd]; ring.

Lemma invariants_reflect c :
  a00 (reflect_x c) = - a00 c /\
  T_N (reflect_x c) = T_N c /\ Disc_N (reflect_x c) = Disc_N c.
Proof.
  assert (H00 : a00 (reflect_x c) = - a00 c).
  { unfold a00. rewrite reflect_map.
    rewrite (csum_scale e00 e00 (-1) rx c); [ring|rx_ring]. }
  assert (H10 : a10 (reflect_x c) = a10 c).
  { unfold a10. rewrite reflect_map.
    rewrite (csum_scale e10 e10 1 rx c); [ring|rx_ring]. }
  assert (H01 : a01 (reflect_x c) = - a01 c).
  { unfold a01. rewrite reflect_map.
    rewrite (csum_scale e01 e01 (-1) rx c); [ring|rx_ring]. }
  assert (H20 : a20 (reflect_x c) = - a20 c).
  { unfold a20. rewrite reflect_map.
    rewrite (csum_scale e20 e20 (-1) rx c); [ring|rx_ring]. }
  assert (H02 : a02 (reflect_x c) = - a02 c).
  { unfold a02. rewrite reflect_map.
    rewrite (csum_scale e02 e02 (-1) rx c); [ring|rx_ring]. }
  assert (H11 : a11 (reflect_x c) = a11 c).
  { unfold a11. rewrite reflect_map.
    rewrite (csum_scale e11 e11 1 rx c); [ring|rx_ring]. }
  split; [exact H00|].
  unfold T_N, Disc_N, N20, N02, N11.
  rewrite H00, H10, H01, H20, H02, H11. split; ring.
Qed.

Lemma invariants_translate tx ty c :
  a00 (translate tx ty c) = a00 c /\
  T_N (translate tx ty c) = T_N c /\ Disc_N (translate tx ty c) = Disc_N c.
Proof.
  unfold T_N, Disc_N.
  rewrite a00_translate, N20_translate, N02_translate, N11_translate.
  repeat split; reflexivity.
Qed.

(* the discriminant is a sum of squares: the eigenvalues are real *)
Lemma Disc_nonneg c : 0 <= Disc_N c.
Proof.
  unfold Disc_N.
  pose proof (Z.square_nonneg (N20 c - N02 c)).
  pose proof (Z.square_nonneg (N11 c)). lia.
Qed.

Open Scope Q_scope.

(* The principal inertia ratio squared, given a square root h of the
   discriminant (sqrt is not in Q): (T + h)/(T - h). *)
Definition prnc_sq (T h : Q) : Q := (T + h) / (T - h).

(* at least one whenever the second-moment matrix is positive definite
   (0 <= h < T) *)
Lemma prnc_sq_ge_1 T h : 0 <= h -> h < T -> 1 <= prnc_sq T h.
Proof.
  intros Hh HT. unfold prnc_sq.
  assert (Hpos : 0 < T - h).
  { unfold Qminus. rewrite <- (Qplus_opp_r h).
    apply Qplus_lt_l. exact HT. }
  apply Qle_shift_div_l; [exact Hpos|].
  rewrite Qmult_1_l. unfold Qminus.
  apply Qplus_le_r. apply Qle_trans with 0; [|exact Hh].
  rewrite <- (Qopp_involutive 0). apply Qopp_le_compat.
  change (- 0) with 0. exact Hh.
Qed.

(* invariance: trace and root of the discriminant scale by the same factor *)
Lemma prnc_sq_scale T h s : ~ s == 0 -> ~ T - h == 0 ->
  prnc_sq (s * T) (s * h) == prnc_sq T h.
Proof.
  intros Hs Hd. unfold prnc_sq. field. split; [exact Hd|].
  intro H. assert (E : s * T - s * h == s * (T - h)) by ring.
  rewrite E in H. apply Qmult_integral in H. destruct H; contradiction.
Qed.

(* rotation by any angle with rational tangent q/p, combined with scaling:
   the principal inertia ratio does not change *)
Lemma prnc_similarity_invariant p q c h :
  (p * p + q * q <> 0)%Z ->
  h * h == zq (Disc_N c) -> ~ zq (T_N c) - h == 0 ->
  let K3 := zq ((p * p + q * q) * (p * p + q * q) * (p * p + q * q)) in
  (K3 * h) * (K3 * h) == zq (Disc_N (simmap p q c)) /\
  prnc_sq (zq (T_N (simmap p q c))) (K3 * h) == prnc_sq (zq (T_N c)) h.
Proof.
  intros HK Hh Hd K3.
  destruct (invariants_sim p q c) as (_ & HT & HD).
  rewrite HT, HD.
  assert (HK3 : ~ K3 == 0).
  { unfold K3. apply zq_nz.
    apply Z.neq_mul_0; split; [apply Z.neq_mul_0; split|]; exact HK. }
  split.
  - unfold K3, zq in *. rewrite !inject_Z_mult.
    rewrite <- Hh. ring.
  - assert (E : zq ((p * p + q * q) * (p * p + q * q) * (p * p + q * q)
                    * T_N c) == K3 * zq (T_N c)).
    { unfold K3, zq. rewrite !inject_Z_mult. ring. }
    pose proof (prnc_sq_scale (zq (T_N c)) h K3 HK3 Hd) as P.
    unfold prnc_sq in *. rewrite E. exact P.
Qed.

Lemma prnc_reflection_translation_invariant c tx ty :
  T_N (reflect_x c) = T_N c /\ Disc_N (reflect_x c) = Disc_N c /\
  T_N (translate tx ty c) = T_N c /\ Disc_N (translate tx ty c) = Disc_N c.
Proof.
  destruct (invariants_reflect c) as (_ & H1 & H2).
  destruct (invariants_translate tx ty c) as (_ & H3 & H4).
  repeat split; assumption.
Qed.

(* ---------------------------------------------------------------------- *)
(* axis swap with the guards numpy needs (no 1/0 = 0)                       *)
(* ---------------------------------------------------------------------- *)
Lemma inert_ratio_axis_swap_reciprocal_guarded c :
  (N20 c <> 0)%Z -> (N02 c <> 0)%Z ->
  oq_eq (inert_ratio_sq (swap_xy c)) (oq_inv (inert_ratio_sq c)).
Proof. intros _ _. apply inert_ratio_axis_swap_reciprocal. Qed.

(* ---------------------------------------------------------------------- *)
(* get_volume and the pixel size                                            *)
(* ---------------------------------------------------------------------- *)
Definition oq_scale (s : Q) (o : option Q) : option Q :=
  match o with Some v => Some (s * v) | None => None end.

(* pixel size, and with it the centroid given in micrometres, scaled by s:
   the centred contour (pos/pix) is unchanged, the volume grows with s^3 *)
Lemma get_volume_pix_cubic k cx cy c pix s :
  oq_eq (get_volume_pi k cx cy c (s * pix))
        (oq_scale (s * s * s) (get_volume_pi k cx cy c pix)).
Proof.
  unfold get_volume_pi. destruct (get_volume k cx cy c); simpl; [unfold Qdiv; ring|exact I].
Qed.

Lemma get_volume_pi_reverse k cx cy c pix :
  oq_eq (get_volume_pi k cx cy (rev c) pix)
        (oq_scale (-1 # 1) (get_volume_pi k cx cy c pix)).
Proof.
  unfold get_volume_pi. rewrite get_volume_reverse.
  destruct (get_volume k cx cy c); simpl; [|exact I].
  rewrite inject_Z_opp. unfold Qdiv. ring.
Qed.

(* ---------------------------------------------------------------------- *)
(* batches: offsets as None / scalar / one per event                        *)
(* ---------------------------------------------------------------------- *)
Lemma nth_error_combine_seq {A} (evs : list A) s i e :
  nth_error evs i = Some e ->
  nth_error (combine (seq s (length evs)) evs) i = Some ((s + i)%nat, e).
Proof.
  revert s i; induction evs as [|a t IH]; intros s [|i]; simpl; intros H;
    try discriminate.
  - injection H as ->. f_equal. f_equal. lia.
  - rewrite (IH (S s) i H). f_equal. f_equal. lia.
Qed.

(* event number i of a batch is computed from mask, image and background
   number i with ITS offset: the i-th element of a sequence of as many
   offsets as events, the scalar, or none *)
Lemma batch_per_event f evs off i e o :
  nth_error evs i = Some e ->
  off_at off (length evs) i = Some o ->
  exists r, batch f evs off = BrOk r /\
            nth_error r i = Some (f (bmask e) (bimg e) (bbg e) o).
Proof.
  intros He Ho. unfold batch.
  assert (H0 : exists o0, off_at off (length evs) 0 = Some o0).
  { destruct off as [|q0|l]; simpl in *; try (eexists; reflexivity).
    destruct (length l =? length evs)%nat; [eexists; reflexivity|].
    destruct (length l =? 1)%nat; [eexists; reflexivity|discriminate Ho]. }
  destruct H0 as (o0 & ->).
  eexists. split; [reflexivity|].
  erewrite map_nth_error by (apply nth_error_combine_seq; exact He).
  cbn [fst snd]. change (0 + i)%nat with i. rewrite Ho. reflexivity.
Qed.

Lemma off_at_seq l n i :
  length l = n -> off_at (OffSeq l) n i = Some (Some (nth i l 0)).
Proof. intros <-. simpl. rewrite Nat.eqb_refl. reflexivity. Qed.

(* per-event offsets shift every event's average (percentiles) by its own
   offset, one-to-one, and leave the deviation alone *)
Lemma bright_bc_batch_offsets evs l i e r r0 a0 v0 :
  length l = length evs -> nth_error evs i = Some e ->
  get_bright_bc_batch evs (OffSeq l) = BrOk r ->
  get_bright_bc_batch evs OffNone = BrOk r0 ->
  nth_error r0 i = Some (Some (a0, v0)) ->
  exists a v, nth_error r i = Some (Some (a, v)) /\
              a == a0 - nth i l 0 /\ v == v0.
Proof.
  intros Hl He Hr Hr0 Hn.
  destruct (batch_per_event get_bright_bc evs (OffSeq l) i e _ He
              (off_at_seq l _ i Hl)) as (r' & E & N).
  destruct (batch_per_event get_bright_bc evs OffNone i e None He eq_refl)
    as (r0' & E0 & N0).
  unfold get_bright_bc_batch in *. rewrite E in Hr. rewrite E0 in Hr0.
  injection Hr as <-. injection Hr0 as <-.
  rewrite N0 in Hn. injection Hn as Hn.
  destruct (get_bright_bc (bmask e) (bimg e) (bbg e)
              (Some (nth i l 0))) as [[a v]|] eqn:G.
  - exists a, v. split; [exact N|].
    eapply bright_bc_offset_one_to_one; eassumption.
  - unfold get_bright_bc in G, Hn.
    destruct (sel (bmask e) (zsub (bimg e) (bbg e))); discriminate.
Qed.

Lemma bright_perc_batch_offsets evs l i e r r0 a0 v0 :
  length l = length evs -> nth_error evs i = Some e ->
  get_bright_perc_batch evs (OffSeq l) = BrOk r ->
  get_bright_perc_batch evs OffNone = BrOk r0 ->
  nth_error r0 i = Some (Some (a0, v0)) ->
  exists a v, nth_error r i = Some (Some (a, v)) /\
              a == a0 - nth i l 0 /\ v == v0 - nth i l 0.
Proof.
  intros Hl He Hr Hr0 Hn.
  destruct (batch_per_event get_bright_perc evs (OffSeq l) i e _ He
              (off_at_seq l _ i Hl)) as (r' & E & N).
  destruct (batch_per_event get_bright_perc evs OffNone i e None He eq_refl)
    as (r0' & E0 & N0).
  unfold get_bright_perc_batch in *. rewrite E in Hr. rewrite E0 in Hr0.
  injection Hr as <-. injection Hr0 as <-.
  rewrite N0 in Hn. injection Hn as Hn.
  destruct (get_bright_perc (bmask e) (bimg e) (bbg e)
              (Some (nth i l 0))) as [[a v]|] eqn:G.
  - exists a, v. split; [exact N|].
    eapply bright_perc_offset_one_to_one; eassumption.
  - unfold get_bright_perc in G, Hn.
    destruct (sel (bmask e) (zsub (bimg e) (bbg e))); discriminate.
Qed.

(* a sequence of offsets that has neither one element per event nor a
   single element cannot be broadcast *)
Lemma batch_broadcast_error f evs l :
  length l <> length evs -> length l <> 1%nat ->
  batch f evs (OffSeq l) = BrBroadcastError.
Proof.
  intros H1 H2. unfold batch, off_at.
  apply Nat.eqb_neq in H1. apply Nat.eqb_neq in H2. rewrite H1, H2.
  reflexivity.
Qed.

Example ex_batch :
  match get_bright_bc_batch
          [ {| bmask := [true; true]; bimg := [10; 20]%Z; bbg := [1; 3]%Z |};
            {| bmask := [false; true]; bimg := [7; 9]%Z; bbg := [2; 2]%Z |} ]
          (OffSeq [Qmake 1 2; Qmake 3 1]) with
  | BrOk [Some (a1, _); Some (a2, _)] => a1 == Qmake 25 2 /\ a2 == Qmake 4 1
  | _ => False
  end.
Proof. vm_compute. split; reflexivity. Qed.

Example ex_similarity :
  (* a 4 x 2 rectangle rotated by atan2(2, 3) and scaled by sqrt 13:
     T = 7680, sqrt D = 4608 < T, principal ratio squared 4 *)
  let c := [(0, 0); (4, 0); (4, 2); (0, 2)]%Z in
  (T_N c = 7680)%Z /\ (Disc_N c = 4608 * 4608)%Z /\
  (T_N (simmap 3 2 c) = 13 * 13 * 13 * 7680)%Z /\
  (3 * 3 + 2 * 2 <> 0)%Z /\
  prnc_sq (inject_Z 7680) (inject_Z 4608) == inject_Z 4.
Proof. vm_compute. repeat split; try reflexivity; discriminate. Qed.

(* ---------------------------------------------------------------------- *)
(* positive definite second moments  =>  sqrt D < T                          *)
(* ---------------------------------------------------------------------- *)
Close Scope Q_scope.

Lemma pd_contour_spec c :
  pd_contour c = true <->
  0 < N20 c /\ 0 < N02 c /\ N11 c * N11 c < 4 * (N20 c * N02 c).
Proof.
  unfold pd_contour. rewrite !andb_true_iff, !Z.ltb_lt. tauto.
Qed.

(* T^2 - D = 4 N20 N02 - N11^2 *)
Lemma T_sq_minus_Disc c :
  T_N c * T_N c - Disc_N c = 4 * (N20 c * N02 c) - N11 c * N11 c.
Proof. unfold T_N, Disc_N. ring. Qed.

(* the hypothesis of C18_principal_ratio_at_least_one holds for every
   contour with positive definite second moments: any non-negative root h of
   the discriminant is below the trace *)
Lemma pd_root_below_trace c (h : Q) :
  pd_contour c = true ->
  (0 <= h)%Q -> (h * h == zq (Disc_N c))%Q -> (h < zq (T_N c))%Q.
Proof.
  intros Hpd Hh Hsq. apply pd_contour_spec in Hpd.
  destruct Hpd as (H20 & H02 & Hdet).
  assert (HT : 0 < T_N c) by (unfold T_N; lia).
  pose proof (T_sq_minus_Disc c) as E.
  assert (HD : Disc_N c < T_N c * T_N c) by lia.
  destruct (Qlt_le_dec h (zq (T_N c))) as [Hlt|Hge]; [exact Hlt|exfalso].
  assert (HTq : (0 <= zq (T_N c))%Q).
  { unfold zq, Qle. simpl. lia. }
  assert (Hmul : (zq (T_N c) * zq (T_N c) <= h * h)%Q).
  { apply Qle_trans with (h * zq (T_N c))%Q.
    - apply Qmult_le_compat_r; assumption.
    - rewrite (Qmult_comm h (zq (T_N c))).
      apply Qmult_le_compat_r; assumption. }
  rewrite Hsq in Hmul. unfold zq in Hmul. rewrite <- inject_Z_mult in Hmul.
  rewrite <- Zle_Qle in Hmul. lia.
Qed.

Lemma pd_principal_ratio_ge_1 c (h : Q) :
  pd_contour c = true ->
  (0 <= h)%Q -> (h * h == zq (Disc_N c))%Q ->
  (1 <= prnc_sq (zq (T_N c)) h)%Q.
Proof.
  intros Hpd Hh Hsq. apply prnc_sq_ge_1; [exact Hh|].
  apply pd_root_below_trace; assumption.
Qed.

(* A class for which positive definiteness is PROVED: every non-degenerate
   triangle, at any position and orientation.
   4 N20 N02 - N11^2 = 3 a00^6,  2 N20 = a00^2 * sum (xi - xj)^2 *)
Lemma triangle_identities x1 y1 x2 y2 x3 y3 :
  let c := [(x1, y1); (x2, y2); (x3, y3)] in
  4 * (N20 c * N02 c) - N11 c * N11 c
  = 3 * (a00 c * a00 c * a00 c * a00 c * a00 c * a00 c) /\
  2 * N20 c = a00 c * a00 c * ((x1 - x2) * (x1 - x2) + (x2 - x3) * (x2 - x3)
                               + (x3 - x1) * (x3 - x1)) /\
  2 * N02 c = a00 c * a00 c * ((y1 - y2) * (y1 - y2) + (y2 - y3) * (y2 - y3)
                               + (y3 - y1) * (y3 - y1)) /\
  a00 c = x2 * y1 - x1 * y2 + (x3 * y2 - x2 * y3) + (x1 * y3 - x3 * y1).
Proof.
  cbv zeta.
  unfold N20, N02, N11, a00, a10, a01, a20, a11, a02, csum, psum,
    e00, e10, e01, e20, e11, e02, dxy. cbn [fst snd].
  repeat split; ring.
Qed.

Lemma sq_pos z : z <> 0 -> 0 < z * z.
Proof.
  intros H. pose proof (Z.square_nonneg z) as H0.
  assert (z * z <> 0) by (intro E; apply Z.mul_eq_0 in E; tauto). lia.
Qed.

Lemma sumsq3_pos a b c : a <> b \/ b <> c -> 
  0 < (a - b) * (a - b) + (b - c) * (b - c) + (c - a) * (c - a).
Proof.
  intros H.
  pose proof (Z.square_nonneg (a - b)). pose proof (Z.square_nonneg (b - c)).
  pose proof (Z.square_nonneg (c - a)).
  destruct H as [H|H].
  - pose proof (sq_pos (a - b)). lia.
  - pose proof (sq_pos (b - c)). lia.
Qed.

Lemma triangle_positive_definite x1 y1 x2 y2 x3 y3 :
  let c := [(x1, y1); (x2, y2); (x3, y3)] in
  a00 c <> 0 -> pd_contour c = true.
Proof.
  cbv zeta. intros Ha.
  destruct (triangle_identities x1 y1 x2 y2 x3 y3) as (Hd & H20 & H02 & Ha00).
  cbv zeta in *.
  set (c := [(x1, y1); (x2, y2); (x3, y3)]) in *.
  apply pd_contour_spec.
  assert (Hsq : 0 < a00 c * a00 c) by (apply sq_pos; exact Ha).
  assert (Hx : 0 < (x1 - x2) * (x1 - x2) + (x2 - x3) * (x2 - x3)
                   + (x3 - x1) * (x3 - x1)).
  { apply sumsq3_pos.
    destruct (Z.eq_dec x1 x2) as [E1|E1]; [|left; exact E1].
    destruct (Z.eq_dec x2 x3) as [E2|E2]; [|right; exact E2].
    exfalso. apply Ha. rewrite Ha00. subst x2 x3. ring. }
  assert (Hy : 0 < (y1 - y2) * (y1 - y2) + (y2 - y3) * (y2 - y3)
                   + (y3 - y1) * (y3 - y1)).
  { apply sumsq3_pos.
    destruct (Z.eq_dec y1 y2) as [E1|E1]; [|left; exact E1].
    destruct (Z.eq_dec y2 y3) as [E2|E2]; [|right; exact E2].
    exfalso. apply Ha. rewrite Ha00. subst y2 y3. ring. }
  assert (H6 : 0 < a00 c * a00 c * a00 c * a00 c * a00 c * a00 c).
  { replace (a00 c * a00 c * a00 c * a00 c * a00 c * a00 c)
      with ((a00 c * a00 c) * ((a00 c * a00 c) * (a00 c * a00 c))) by ring.
    apply Z.mul_pos_pos; [exact Hsq|apply Z.mul_pos_pos; exact Hsq]. }
  pose proof (Z.mul_pos_pos _ _ Hsq Hx) as Px.
  pose proof (Z.mul_pos_pos _ _ Hsq Hy) as Py.
  rewrite <- H20 in Px. rewrite <- H02 in Py.
  repeat split; lia.
Qed.

Example ex_pd :
  pd_contour [(0, 0); (4, 0); (4, 2); (0, 2)] = true /\
  pd_contour [(3, 1); (40, 7); (12, 30)] = true /\
  pd_contour [(0, 0); (4, 0); (8, 0)] = false.
Proof. vm_compute. repeat split; reflexivity. Qed.
