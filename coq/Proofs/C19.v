(* Proofs about the HTTPFile model (Model/C19.v). *)
From Coq Require Import ZArith List Bool Lia ZifyBool ZifyNat.
From Verif Require Import Common.ListIdx Model.C19.
Import ListNotations.
Open Scope Z_scope.
Ltac Zify.zify_post_hook ::= Z.div_mod_to_equations.

(* ---- generic cache lemmas ------------------------------------------------ *)

Lemma lookup_In k c v : lookup k c = Some v -> In (k, v) c.
Proof.
  induction c as [|[k' v'] c IH]; simpl; [discriminate|].
  destruct (k =? k') eqn:E.
  - intros [= ->]. left. f_equal. lia.
  - intros H; right; auto.
Qed.

Lemma lookup_app_last k c v :
  lookup k c = None -> lookup k (c ++ [(k, v)]) = Some v.
Proof.
  induction c as [|[k' v'] c IH]; simpl.
  - now rewrite Z.eqb_refl.
  - destruct (k =? k'); [discriminate|auto].
Qed.

Lemma lookup_None_notin k c : lookup k c = None -> ~ In k (map fst c).
Proof.
  induction c as [|[k' v'] c IH]; simpl; [tauto|].
  destruct (k =? k') eqn:E; [discriminate|].
  intros H [H1|H1]; [lia|]. now apply IH.
Qed.

Lemma remove_first_In p c c' kv :
  remove_first p c = Some c' -> In kv c' -> In kv c.
Proof.
  revert c'; induction c as [|[k v] c IH]; simpl; intros c'; [discriminate|].
  destruct (p k).
  - intros [= <-] H; now right.
  - destruct (remove_first p c) as [c''|]; [|discriminate].
    intros [= <-] [H|H]; [now left|right; eauto].
Qed.

Lemma remove_first_lookup p c c' k :
  remove_first p c = Some c' -> p k = false -> lookup k c' = lookup k c.
Proof.
  revert c'; induction c as [|[k' v] c IH]; simpl; intros c'; [discriminate|].
  destruct (p k') eqn:Ep.
  - intros [= <-] Hk. destruct (k =? k') eqn:E; [|reflexivity].
    assert (k = k') by lia; subst; congruence.
  - destruct (remove_first p c) as [c''|]; [|discriminate].
    intros [= <-] Hk; simpl. destruct (k =? k'); [reflexivity|eauto].
Qed.

Lemma remove_first_length p c c' :
  remove_first p c = Some c' -> length c = S (length c').
Proof.
  revert c'; induction c as [|[k v] c IH]; simpl; intros c'; [discriminate|].
  destruct (p k).
  - now intros [= <-].
  - destruct (remove_first p c) as [c''|]; [|discriminate].
    intros [= <-]; simpl; f_equal; auto.
Qed.

Lemma remove_first_keys p c c' k :
  remove_first p c = Some c' -> In k (map fst c') -> In k (map fst c).
Proof.
  revert c'; induction c as [|[k' v] c IH]; simpl; intros c'; [discriminate|].
  destruct (p k').
  - intros [= <-]; now right.
  - destruct (remove_first p c) as [c''|]; [|discriminate].
    intros [= <-]; simpl; intros [H|H]; [now left|right; eauto].
Qed.

Lemma remove_first_NoDup p c c' :
  remove_first p c = Some c' -> NoDup (map fst c) -> NoDup (map fst c').
Proof.
  revert c'; induction c as [|[k v] c IH]; simpl; intros c'; [discriminate|].
  destruct (p k).
  - intros [= <-] H; now inversion H.
  - destruct (remove_first p c) as [c''|] eqn:E; [|discriminate].
    intros [= <-] H; inversion H as [|? ? Hn Hd]; subst; simpl.
    constructor; [|auto]. intros Hin; apply Hn. eapply remove_first_keys; eauto.
Qed.

Lemma remove_first_None p c :
  remove_first p c = None -> forall k, In k (map fst c) -> p k = false.
Proof.
  induction c as [|[k' v] c IH]; simpl; [tauto|].
  destruct (p k') eqn:Ep; [discriminate|].
  destruct (remove_first p c); [discriminate|].
  intros _ k [<-|H]; auto.
Qed.

(* a duplicate-free key list with two or more entries has a key different
   from any given one *)
Lemma NoDup_two_other (idx : Z) (l : list Z) :
  NoDup l -> (2 <= length l)%nat -> exists k, In k l /\ k <> idx.
Proof.
  destruct l as [|a [|b l]]; simpl; try lia.
  intros H _. inversion H as [|? ? Hn _]; subst.
  destruct (Z.eq_dec a idx) as [->|Ha].
  - exists b; split; [auto|]. intros ->; apply Hn; now left.
  - exists a; auto.
Qed.

(* ---- what an eviction policy has to guarantee ------------------------------
   It only removes entries (never adds or alters one), never removes the
   requested chunk, keeps keys unique, and removes exactly one entry when the
   cache holds two or more. Nothing else about the choice matters. *)
Definition policy_ok (ev : Z -> cache -> cache) : Prop :=
  forall idx c,
    (forall kv, In kv (ev idx c) -> In kv c)
    /\ lookup idx (ev idx c) = lookup idx c
    /\ (NoDup (map fst c) -> NoDup (map fst (ev idx c)))
    /\ (NoDup (map fst c) -> (2 <= length c)%nat ->
        length c = S (length (ev idx c))).

(* the policy of the code meets it *)
Lemma evict_policy_ok : policy_ok evict.
Proof.
  intros idx c. unfold evict. repeat split.
  - intros kv.
    destruct (remove_first (fun k => negb (k =? 0) && negb (k =? idx)) c) as [c'|] eqn:E1; [eapply remove_first_In; eauto|].
    destruct (remove_first (fun k => negb (k =? idx)) c) as [c'|] eqn:E2; [eapply remove_first_In; eauto|auto].
  - destruct (remove_first (fun k => negb (k =? 0) && negb (k =? idx)) c) as [c'|] eqn:E1.
    { eapply remove_first_lookup; eauto. simpl. rewrite Z.eqb_refl. now rewrite andb_false_r. }
    destruct (remove_first (fun k => negb (k =? idx)) c) as [c'|] eqn:E2; [|reflexivity].
    eapply remove_first_lookup; eauto. simpl. now rewrite Z.eqb_refl.
  - intros H.
    destruct (remove_first (fun k => negb (k =? 0) && negb (k =? idx)) c) as [c'|] eqn:E1; [eapply remove_first_NoDup; eauto|].
    destruct (remove_first (fun k => negb (k =? idx)) c) as [c'|] eqn:E2; [eapply remove_first_NoDup; eauto|auto].
  - intros Hnd Hlen.
    destruct (remove_first (fun k => negb (k =? 0) && negb (k =? idx)) c) as [c'|] eqn:E1; [eapply remove_first_length; eauto|].
    destruct (remove_first (fun k => negb (k =? idx)) c) as [c'|] eqn:E2; [eapply remove_first_length; eauto|].
    exfalso.
    destruct (NoDup_two_other idx (map fst c) Hnd) as [k [Hin Hk]];
      [now rewrite map_length|].
    pose proof (remove_first_None _ _ E2 k Hin) as Hp. simpl in Hp. lia.
Qed.

(* other policies meet it too, e.g. "drop the oldest chunk that is not the
   requested one" (chunk 0 not pinned): the theorems do not depend on which
   chunk goes *)
Definition evict_unpinned (idx : Z) (c : cache) : cache :=
  match remove_first (fun k => negb (k =? idx)) c with
  | Some c' => c'
  | None => c
  end.

Lemma evict_unpinned_policy_ok : policy_ok evict_unpinned.
Proof.
  intros idx c. unfold evict_unpinned. repeat split.
  - intros kv.
    destruct (remove_first (fun k => negb (k =? idx)) c) as [c'|] eqn:E2; [eapply remove_first_In; eauto|auto].
  - destruct (remove_first (fun k => negb (k =? idx)) c) as [c'|] eqn:E2; [|reflexivity].
    eapply remove_first_lookup; eauto. simpl. now rewrite Z.eqb_refl.
  - intros H.
    destruct (remove_first (fun k => negb (k =? idx)) c) as [c'|] eqn:E2; [eapply remove_first_NoDup; eauto|auto].
  - intros Hnd Hlen.
    destruct (remove_first (fun k => negb (k =? idx)) c) as [c'|] eqn:E2; [eapply remove_first_length; eauto|].
    exfalso.
    destruct (NoDup_two_other idx (map fst c) Hnd) as [k [Hin Hk]];
      [now rewrite map_length|].
    pose proof (remove_first_None _ _ E2 k Hin) as Hp. simpl in Hp. lia.
Qed.

(* the policy of the code before repair 96f1c8a does not: it can remove the
   requested chunk *)
Lemma evict_old_not_policy_ok : ~ policy_ok (fun _ c => evict_old c).
Proof.
  intros H. destruct (H 5 [(0, []); (5, [1])]) as (_ & Hl & _).
  vm_compute in Hl. discriminate.
Qed.

(* ---- the HTTP file -------------------------------------------------------- *)
Section HTTP.
  Variable res : list Z.
  Variable junk : Z -> Z -> list Z.
  Variable cs keep : Z.
  Variable ev : Z -> cache -> cache.
  Hypothesis Hcs : 0 < cs.
  Hypothesis Hkeep : 1 <= keep.
  Hypothesis Hev : policy_ok ev.

  Notation len := (len res).
  Notation download := (download res junk).
  Notation get_chunk := (get_chunk res junk cs keep ev).
  Notation rrc_loop := (rrc_loop res junk cs keep ev).
  Notation rrc := (rrc res junk cs keep ev).
  Notation step := (step res junk cs keep ev).
  Notation run := (run res junk cs keep ev).

  Definition chunk_of (k : Z) : list Z := slice res (k * cs) (Z.min ((k + 1) * cs) len).

  (* every cached chunk that lies inside the resource holds the right bytes *)
  Definition Good (c : cache) : Prop :=
    forall k v, In (k, v) c -> 0 <= k -> k * cs < len -> v = chunk_of k.

  (* keys are unique and the cache is within its capacity *)
  Definition Bnd (c : cache) : Prop :=
    NoDup (map fst c) /\ Z.of_nat (length c) <= keep.

  Lemma download_valid k : 0 <= k -> k * cs < len ->
    download (k * cs) (Z.min ((k + 1) * cs) len) = chunk_of k.
  Proof.
    intros H0 H1; unfold C19.download, chunk_of.
    replace ((0 <=? k * cs) && (k * cs <? Z.min ((k + 1) * cs) len)
             && (Z.min ((k + 1) * cs) len <=? len)) with true; [reflexivity|].
    symmetry; nia.
  Qed.

  Lemma evict_sub idx c kv : In kv (ev idx c) -> In kv c.
  Proof. apply (Hev idx c). Qed.

  Lemma evict_lookup idx c : lookup idx (ev idx c) = lookup idx c.
  Proof. apply (Hev idx c). Qed.

  Lemma evict_NoDup idx c : NoDup (map fst c) -> NoDup (map fst (ev idx c)).
  Proof. apply (Hev idx c). Qed.

  Lemma evict_length idx c :
    NoDup (map fst c) -> (2 <= length c)%nat -> length c = S (length (ev idx c)).
  Proof. apply (Hev idx c). Qed.

  Lemma get_chunk_Good idx c c' r :
    Good c -> get_chunk idx c = (c', r) -> Good c'.
  Proof.
    unfold C19.get_chunk, insert_chunk; intros HG [= <- _].
    set (c1 := match lookup idx c with Some _ => c | None => _ end).
    assert (HG1 : Good c1).
    { subst c1. destruct (lookup idx c) eqn:El; [exact HG|].
      intros k v Hin H0 H1. apply in_app_or in Hin as [Hin|[[= <- <-]|[]]]; [eauto|].
      now apply download_valid. }
    destruct (keep <? _); [|exact HG1].
    intros k v Hin; apply HG1. now apply evict_sub in Hin.
  Qed.

  Lemma get_chunk_found idx c : exists v, snd (get_chunk idx c) = Some v.
  Proof.
    unfold C19.get_chunk, insert_chunk; simpl.
    set (c1 := match lookup idx c with Some _ => c | None => _ end).
    assert (H1 : exists v, lookup idx c1 = Some v).
    { subst c1. destruct (lookup idx c) eqn:El; [eauto|].
      eexists; now apply lookup_app_last. }
    destruct (keep <? _); [now rewrite evict_lookup|exact H1].
  Qed.

  Lemma NoDup_snoc (l : list Z) (x : Z) : NoDup l -> ~ In x l -> NoDup (l ++ [x]).
  Proof.
    induction l as [|a l IH]; simpl; intros Hnd Hn.
    - constructor; [tauto|constructor].
    - inversion Hnd as [|? ? Ha Hd]; subst. constructor.
      + rewrite in_app_iff; simpl. intuition congruence.
      + apply IH; tauto.
  Qed.

  Lemma get_chunk_Bnd idx c : Bnd c -> Bnd (fst (get_chunk idx c)).
  Proof.
    unfold C19.get_chunk, insert_chunk, Bnd; simpl; intros [Hnd Hl].
    set (c1 := match lookup idx c with Some _ => c | None => _ end).
    assert (H1 : NoDup (map fst c1) /\ Z.of_nat (length c1) <= keep + 1).
    { subst c1. destruct (lookup idx c) eqn:El; [split; [auto|lia]|].
      rewrite map_app, app_length; simpl; split; [|lia].
      apply NoDup_snoc; [auto|now apply lookup_None_notin]. }
    destruct H1 as [Hnd1 Hl1].
    destruct (keep <? Z.of_nat (length c1)) eqn:E; [|split; [auto|lia]].
    split; [now apply evict_NoDup|].
    pose proof (evict_length idx c1 Hnd1) as HL. lia.
  Qed.

  (* ---- read_range_cached ------------------------------------------------- *)

  Lemma get_chunk_spec k c :
    Good c -> Bnd c -> 0 <= k -> k * cs < len ->
    exists c', get_chunk k c = (c', Some (chunk_of k)) /\ Good c' /\ Bnd c'.
  Proof.
    intros HG HB H0 H1.
    destruct (get_chunk k c) as [c' r] eqn:E.
    pose proof (get_chunk_found k c) as [v Hv]. rewrite E in Hv; simpl in Hv; subst r.
    pose proof (get_chunk_Good _ _ _ _ HG E) as HG'.
    pose proof (get_chunk_Bnd k c HB) as HB'. rewrite E in HB'; simpl in HB'.
    exists c'. split; [|split; auto]. do 2 f_equal.
    apply HG'; auto. apply lookup_In.
    unfold C19.get_chunk in E. now inversion E.
  Qed.

  Lemma get_chunk_any k c :
    Good c -> Bnd c ->
    exists c' v, get_chunk k c = (c', Some v) /\ Good c' /\ Bnd c'.
  Proof.
    intros HG HB.
    destruct (get_chunk k c) as [c' r] eqn:E.
    pose proof (get_chunk_found k c) as [v Hv]. rewrite E in Hv; simpl in Hv; subst r.
    pose proof (get_chunk_Good _ _ _ _ HG E) as HG'.
    pose proof (get_chunk_Bnd k c HB) as HB'. rewrite E in HB'; simpl in HB'.
    exists c', v; auto.
  Qed.

  Ltac sk := try match goal with H : ?k = _ / _ |- _ => subst k end.

  Lemma loop_spec n : forall k pos toread stop c acc,
    Good c -> Bnd c ->
    0 <= pos -> 0 <= toread -> pos + toread = stop -> stop <= len ->
    k = pos / cs -> Z.of_nat n + k = stop / cs + 1 ->
    exists c', rrc_loop n k pos toread stop c acc = (c', Some (acc ++ slice res pos stop))
               /\ Good c' /\ Bnd c'.
  Proof.
    induction n as [|n IH]; intros k pos toread stop c acc HG HB Hp Ht Hs Hl Hk Hn.
    { exfalso. assert (pos / cs <= stop / cs) by (apply Z.div_le_mono; lia). lia. }
    cbn [C19.rrc_loop].
    destruct (Z.eq_dec toread 0) as [->|Hne].
    - (* toread = 0: the chunk is fetched, then the loop breaks *)
      destruct (get_chunk_any k c HG HB) as (c' & v & -> & HG' & HB').
      exists c'. split; [|split; auto]. cbn.
      rewrite slice_empty by lia. now rewrite app_nil_r.
    - assert (Hk0 : 0 <= k) by (sk; apply Z.div_pos; lia).
      assert (Hk1 : k * cs < len) by (sk; nia).
      destruct (get_chunk_spec k c HG HB Hk0 Hk1) as (c' & -> & HG' & HB').
      replace (toread =? 0) with false by lia.
      destruct (cs <=? pos mod cs + toread) eqn:Ebr.
      + (* the read continues beyond this chunk *)
        assert (Hmin : Z.min ((k + 1) * cs) len = (k + 1) * cs) by (sk; nia).
        destruct (IH (k + 1) (pos + (cs - pos mod cs)) (toread - (cs - pos mod cs)) stop c'
                     (acc ++ skipn (Z.to_nat (pos mod cs)) (chunk_of k)) HG' HB')
          as (c'' & Hrun & HG'' & HB''); try (sk; nia).
        exists c''. split; [|split; auto]. rewrite Hrun. do 2 f_equal.
        rewrite <- app_assoc. f_equal.
        unfold chunk_of. rewrite skipn_slice by (sk; nia).
        rewrite Hmin.
        replace (k * cs + pos mod cs) with pos by (sk; nia).
        replace (pos + (cs - pos mod cs)) with ((k + 1) * cs) by (sk; nia).
        apply slice_app; sk; nia.
      + (* the read ends inside this chunk: this was the last iteration *)
        assert (Hce : stop mod cs = pos mod cs + toread).
        { symmetry; apply Z.mod_unique with (q := pos / cs); [lia|nia]. }
        assert (Hq : stop / cs = pos / cs).
        { symmetry; apply Z.div_unique with (r := pos mod cs + toread); [lia|nia]. }
        assert (Hn0 : n = 0%nat) by (sk; lia). subst n. cbn [C19.rrc_loop].
        exists c'. split; [|split; auto]. do 3 f_equal.
        unfold chunk_of. rewrite slice_slice by (sk; nia).
        f_equal; sk; nia.
  Qed.

  Theorem rrc_correct start stop c :
    Good c -> Bnd c -> 0 <= start ->
    exists c', rrc start stop c = (c', Some (slice res start (Z.min stop len)))
               /\ Good c' /\ Bnd c'.
  Proof.
    intros HG HB Hs. unfold C19.rrc.
    destruct (Z.min stop len - start <=? 0) eqn:E.
    - exists c. split; [|split; auto]. rewrite slice_empty by lia. reflexivity.
    - destruct (loop_spec (Z.to_nat (Z.min stop len / cs + 1 - start / cs)) (start / cs) start
                          (Z.min stop len - start) (Z.min stop len) c [] HG HB)
        as (c' & Hrun & HG' & HB'); try lia.
      { assert (start / cs <= Z.min stop len / cs) by (apply Z.div_le_mono; lia). lia. }
      exists c'. split; [|split; auto]. rewrite Hrun.
      replace (Z.min stop len - start + start) with (Z.min stop len) by lia. reflexivity.
  Qed.

  (* ---- operation histories ---------------------------------------------- *)

  Lemma step_spec s o :
    Good (chunks s) -> Bnd (chunks s) -> 0 <= pos s ->
    let '(s', r) := step s o in
    let '(p', r') := spec_step res (pos s) o in
    r = r' /\ pos s' = p' /\ Good (chunks s') /\ Bnd (chunks s').
  Proof.
    intros HG HB Hp. destruct o as [w off| |n]; simpl.
    - split; [|split; [|split]]; auto.
    - split; [|split; [|split]]; auto.
    - set (size := if n <? 0 then Z.max (len - pos s) 0 else n).
      destruct (rrc_correct (pos s) (pos s + size) (chunks s) HG HB Hp)
        as (c' & -> & HG' & HB').
      simpl. unfold slen, C19.len. split; [|split; [|split]]; auto.
  Qed.

  Theorem run_spec ops : forall s,
    Good (chunks s) -> Bnd (chunks s) -> 0 <= pos s ->
    pos_ok res (pos s) ops = true ->
    snd (run s ops) = spec_run res (pos s) ops
    /\ Bnd (chunks (fst (run s ops))).
  Proof.
    induction ops as [|o ops IH]; intros s HG HB Hp Hok; simpl; [auto|].
    pose proof (step_spec s o HG HB Hp) as Hst.
    destruct (step s o) as [s' r] eqn:Es.
    destruct (spec_step res (pos s) o) as [p' r'] eqn:Ep.
    destruct Hst as (-> & Hp' & HG' & HB').
    simpl in Hok. rewrite Ep in Hok; simpl in Hok.
    apply andb_prop in Hok as [Hok1 Hok2].
    subst p'. destruct (IH s' HG' HB' ltac:(lia) Hok2) as [IH1 IH2].
    destruct (run s' ops) as [s'' rs] eqn:Er. simpl in *. split; [now f_equal|auto].
  Qed.

  Lemma init_Good : Good [].  Proof. intros k v []. Qed.
  Lemma init_Bnd : Bnd [].  Proof. split; [constructor|simpl; lia]. Qed.

  Theorem ops_history ops :
    pos_ok res 0 ops = true -> snd (run init ops) = spec_run res 0 ops.
  Proof.
    intros H. apply (run_spec ops init init_Good init_Bnd); simpl; [lia|exact H].
  Qed.

  (* the bound does not need any assumption on positions *)
  Lemma loop_Bnd n : forall k pos toread stop c acc,
    Bnd c -> Bnd (fst (rrc_loop n k pos toread stop c acc)).
  Proof.
    induction n as [|n IH]; intros k pos toread stop c acc HB; cbn [C19.rrc_loop]; [auto|].
    pose proof (get_chunk_Bnd k c HB) as HB'.
    destruct (get_chunk k c) as [c' [chunk|]]; simpl in HB'; [|auto].
    destruct (toread =? 0); [auto|].
    destruct (cs <=? pos mod cs + toread); apply IH; auto.
  Qed.

  Lemma step_Bnd s o : Bnd (chunks s) -> Bnd (chunks (fst (step s o))).
  Proof.
    intros HB. destruct o as [w off| |n]; simpl; auto.
    set (size := if n <? 0 then Z.max (len - pos s) 0 else n).
    assert (H : Bnd (fst (rrc (pos s) (pos s + size) (chunks s)))).
    { unfold C19.rrc. destruct (_ <=? 0); [auto|]. now apply loop_Bnd. }
    destruct (rrc (pos s) (pos s + size) (chunks s)) as [c' [d|]]; auto.
  Qed.

  Theorem cache_bounded ops : forall s,
    Bnd (chunks s) -> run_maxheld res junk cs keep ev s ops <= keep.
  Proof.
    induction ops as [|o ops IH]; intros s HB; simpl.
    - apply HB.
    - apply Z.max_lub; [apply HB|]. apply IH. now apply step_Bnd.
  Qed.

  (* ---- the transient inside get_cache_chunk ------------------------------ *)
  Lemma insert_chunk_length idx c :
    Z.of_nat (length (insert_chunk res junk cs idx c)) <= Z.of_nat (length c) + 1.
  Proof.
    unfold insert_chunk. destruct (lookup idx c); [lia|].
    rewrite app_length; simpl; lia.
  Qed.

  Lemma loop_peak n : forall k pos toread stop c,
    Bnd c -> rrc_loop_peak res junk cs keep ev n k pos toread stop c <= keep + 1.
  Proof.
    induction n as [|n IH]; intros k pos toread stop c HB; cbn [rrc_loop_peak].
    { destruct HB; lia. }
    pose proof (insert_chunk_length k c) as Hi.
    assert (Hh : Z.of_nat (length (insert_chunk res junk cs k c)) <= keep + 1)
      by (destruct HB; lia).
    pose proof (get_chunk_Bnd k c HB) as HB'.
    destruct (get_chunk k c) as [c' [chunk|]]; simpl in HB'; [|exact Hh].
    destruct (toread =? 0); [exact Hh|].
    destruct (cs <=? pos mod cs + toread); apply Z.max_lub; auto.
  Qed.

  Lemma step_peak_bound s o :
    Bnd (chunks s) -> step_peak res junk cs keep ev s o <= keep + 1.
  Proof.
    intros HB. destruct o as [w off| |n]; simpl; try (destruct HB; lia).
    unfold rrc_peak. destruct (_ <=? 0); [destruct HB; lia|]. now apply loop_peak.
  Qed.

  Theorem peak_bounded ops : forall s,
    Bnd (chunks s) -> run_peak res junk cs keep ev s ops <= keep + 1.
  Proof.
    induction ops as [|o ops IH]; intros s HB; simpl.
    - destruct HB; lia.
    - apply Z.max_lub; [now apply step_peak_bound|]. apply IH. now apply step_Bnd.
  Qed.

  (* ---- adaptive clients --------------------------------------------------- *)
  Theorem interact_spec fuel (rd : reader) : forall s hist,
    Good (chunks s) -> Bnd (chunks s) -> 0 <= pos s ->
    reader_pos_ok res fuel rd (pos s) hist = true ->
    interact res junk cs keep ev fuel rd s hist
    = spec_interact res fuel rd (pos s) hist.
  Proof.
    induction fuel as [|f IH]; intros s hist HG HB Hp Hok; cbn [interact spec_interact]; [reflexivity|].
    cbn [reader_pos_ok] in Hok.
    destruct (rd hist) as [o|]; [|reflexivity].
    pose proof (step_spec s o HG HB Hp) as Hst.
    destruct (step s o) as [s' r] eqn:Es.
    destruct (spec_step res (pos s) o) as [p' r'] eqn:Ep.
    destruct Hst as (-> & Hp' & HG' & HB').
    apply andb_prop in Hok as [Hok1 Hok2]. subst p'.
    apply IH; auto. lia.
  Qed.

  Theorem reader_history fuel (rd : reader) :
    reader_pos_ok res fuel rd 0 [] = true ->
    interact res junk cs keep ev fuel rd init []
    = spec_interact res fuel rd 0 [].
  Proof.
    intros H. apply (interact_spec fuel rd init [] init_Good init_Bnd); simpl; [lia|exact H].
  Qed.
End HTTP.

(* the bounds stated with the hypothesis 0 < chunk_size that the code needs
   (it divides by the chunk size), although the proofs do not use it *)
Lemma cache_bounded_cs res junk cs keep ev :
  0 < cs -> 1 <= keep -> policy_ok ev ->
  forall (ops : list op) (s : state),
    Bnd keep (chunks s) -> run_maxheld res junk cs keep ev s ops <= keep.
Proof. intros _. exact (cache_bounded res junk cs keep ev). Qed.

Lemma peak_bounded_cs res junk cs keep ev :
  0 < cs -> 1 <= keep -> policy_ok ev ->
  forall (ops : list op) (s : state),
    Bnd keep (chunks s) -> run_peak res junk cs keep ev s ops <= keep + 1.
Proof. intros _. exact (peak_bounded res junk cs keep ev). Qed.

(* non-vacuity: a concrete history meeting the hypotheses, crossing chunk
   boundaries, evicting, reading to and past the end *)
Example c19_nonvacuous :
  let res := [10;11;12;13;14;15;16;17;18;19] in
  let ops := [Read 3; Seek 0 7; Read 5; Tell; Seek 2 (-4); Read (-1); Seek 1 (-9); Read 9; Read 0] in
  pos_ok res 0 ops = true
  /\ snd (run res (fun _ _ => res) 4 2 evict init ops)
     = [OData [10;11;12]; ONone; OData [17;18;19]; OPos 10; ONone;
        OData [16;17;18;19]; ONone; OData [11;12;13;14;15;16;17;18;19]; OData []]
  /\ run_maxheld res (fun _ _ => res) 4 2 evict init ops = 2
  /\ run_peak res (fun _ _ => res) 4 2 evict init ops = 3.
Proof. vm_compute. repeat split. Qed.

(* ---- refutation witnesses for the code before the repairs ---------------- *)
Definition res10 : list Z := [10;11;12;13;14;15;16;17;18;19].

(* keep_chunks = 1: reading chunk 0 and then any other chunk raised KeyError *)
Lemma old_keep1_keyerror :
  exists ops, pos_ok res10 0 ops = true
    /\ run_old res10 (fun _ _ => []) 4 1 init ops <> spec_run res10 0 ops
    /\ In OKeyError (run_old res10 (fun _ _ => []) 4 1 init ops).
Proof.
  exists [Read 2; Seek 0 5; Read 2]. vm_compute.
  split; [reflexivity|]. split; [discriminate|]. right; right; left; reflexivity.
Qed.

(* read() / read(-1) returned b"" instead of the remaining bytes *)
Lemma old_read_all_empty :
  exists ops, pos_ok res10 0 ops = true
    /\ run_old res10 (fun _ _ => []) 4 2 init ops = [ONone; OData []]
    /\ spec_run res10 0 ops = [ONone; OData [17; 18; 19]].
Proof. exists [Seek 0 7; Read (-1)]. vm_compute. repeat split. Qed.

(* a read crossing the end of the resource appended the server's reply to an
   unsatisfiable range (here: a server that answers with the whole body) *)
Lemma old_read_across_eof_junk :
  exists ops, pos_ok res10 0 ops = true
    /\ run_old res10 (fun _ _ => res10) 4 2 init ops
       = [ONone; OData [15; 16; 17; 18; 19; 10]]
    /\ spec_run res10 0 ops = [ONone; OData [15; 16; 17; 18; 19]].
Proof. exists [Seek 0 5; Read 8]. vm_compute. repeat split. Qed.

(* read(0) moved the position to the end of the resource *)
Lemma old_read0_moves :
  exists ops, pos_ok res10 0 ops = true
    /\ run_old res10 (fun _ _ => []) 4 2 init ops = [OData []; OPos 10]
    /\ spec_run res10 0 ops = [OData []; OPos 0].
Proof. exists [Read 0; Tell]. vm_compute. repeat split. Qed.

(* keep_chunks = 0 is outside the theorem's hypothesis for a reason: the chunk
   being returned has to be held *)
Lemma keep0_bound_fails :
  exists ops, run_maxheld res10 (fun _ _ => []) 4 0 evict init ops > 0.
Proof. exists [Read 1]. vm_compute. reflexivity. Qed.

(* the transient is real: keep_chunks + 1 chunks are held for a moment *)
Lemma peak_reaches_keep_plus_one :
  exists ops, pos_ok res10 0 ops = true
    /\ run_peak res10 (fun _ _ => []) 4 2 evict init ops = 3
    /\ run_maxheld res10 (fun _ _ => []) 4 2 evict init ops = 2.
Proof. exists [Read 10]. vm_compute. repeat split. Qed.

(* an adaptive client meeting the hypotheses: reads a 2-byte header, seeks to
   the offset stored there, reads to the end *)
Definition demo_reader : reader :=
  fun hist => match hist with
              | [] => Some (Read 2)
              | [OData [a; b]] => Some (Seek 0 (a - 4))
              | [_; ONone] => Some (Read (-1))
              | _ => None
              end.

Example c19_reader_nonvacuous :
  reader_pos_ok res10 5 demo_reader 0 [] = true
  /\ interact res10 (fun _ _ => res10) 4 1 evict 5 demo_reader init []
     = [OData [10; 11]; ONone; OData [16; 17; 18; 19]].
Proof. vm_compute. split; reflexivity. Qed.
