(* Proofs about the summary model (Model/C20.v). *)
From Coq Require Import ZArith List Bool Lia ZifyBool ZifyNat.
From Verif Require Import Model.C20.
Import ListNotations.
Open Scope Z_scope.

(* ---- extrema ----------------------------------------------------------------- *)
Ltac cmp_all :=
  repeat match goal with
         | |- context [?p <=? ?q] => destruct (Z.leb_spec p q); cbn
         end.

Lemma nanmin2_assoc a b c : nanmin2 a (nanmin2 b c) = nanmin2 (nanmin2 a b) c.
Proof.
  destruct a as [x| | |], b as [y| | |], c as [z| | |]; cbn; try reflexivity;
    cmp_all; try reflexivity; try (f_equal; lia); try lia.
Qed.

Lemma nanmax2_assoc a b c : nanmax2 a (nanmax2 b c) = nanmax2 (nanmax2 a b) c.
Proof.
  destruct a as [x| | |], b as [y| | |], c as [z| | |]; cbn; try reflexivity;
    cmp_all; try reflexivity; try (f_equal; lia); try lia.
Qed.

Lemma nanmin_l_app a b : nanmin_l (a ++ b) = nanmin2 (nanmin_l a) (nanmin_l b).
Proof.
  induction a as [|x a IH]; [reflexivity|].
  change (nanmin2 x (nanmin_l (a ++ b)) = nanmin2 (nanmin2 x (nanmin_l a)) (nanmin_l b)).
  now rewrite IH, nanmin2_assoc.
Qed.

Lemma nanmax_l_app a b : nanmax_l (a ++ b) = nanmax2 (nanmax_l a) (nanmax_l b).
Proof.
  induction a as [|x a IH]; [reflexivity|].
  change (nanmax2 x (nanmax_l (a ++ b)) = nanmax2 (nanmax2 x (nanmax_l a)) (nanmax_l b)).
  now rewrite IH, nanmax2_assoc.
Qed.

(* ---- means ------------------------------------------------------------------------ *)
Lemma count_valid_nonneg l : 0 <= count_valid l.
Proof. induction l as [|v l IH]; simpl; [lia|]. destruct (isnan v); lia. Qed.

Lemma count_valid_app a b : count_valid (a ++ b) = count_valid a + count_valid b.
Proof. induction a as [|v a IH]; simpl; [lia|]. destruct (isnan v); lia. Qed.

Lemma fsum_app a b : fsum (a ++ b) = fsum a + fsum b.
Proof. induction a as [|v a IH]; simpl; [lia|]. destruct v; lia. Qed.

Lemma has_pinf_app a b : has_pinf (a ++ b) = has_pinf a || has_pinf b.
Proof. apply existsb_app. Qed.
Lemma has_ninf_app a b : has_ninf (a ++ b) = has_ninf a || has_ninf b.
Proof. apply existsb_app. Qed.

Lemma all_nan l : count_valid l = 0 -> fsum l = 0 /\ has_pinf l = false /\ has_ninf l = false.
Proof.
  induction l as [|v l IH]; simpl; [auto|].
  pose proof (count_valid_nonneg l). destruct v; simpl; try lia; try exact IH.
Qed.

Lemma nanmean_app_nan_r a b : count_valid b = 0 -> nanmean_l (a ++ b) = nanmean_l a.
Proof.
  intros H. destruct (all_nan b H) as (S & P & N). unfold nanmean_l.
  rewrite count_valid_app, fsum_app, has_pinf_app, has_ninf_app, H, S, P, N.
  now rewrite !orb_false_r, !Z.add_0_r.
Qed.

Lemma nanmean_app_nan_l a b : count_valid a = 0 -> nanmean_l (a ++ b) = nanmean_l b.
Proof.
  intros H. destruct (all_nan a H) as (S & P & N). unfold nanmean_l.
  rewrite count_valid_app, fsum_app, has_pinf_app, has_ninf_app, H, S, P, N.
  reflexivity.
Qed.

Lemma mv_eq_nanmean l : mv_eq (nanmean_l l) (nanmean_l l).
Proof.
  unfold nanmean_l. destruct (count_valid l =? 0) eqn:E; [exact I|].
  destruct (has_pinf l), (has_ninf l); cbn; auto. repeat split; lia.
Qed.

(* the weighted update is exact when the weights are the numbers of non-NaN
   values *)
Lemma mean_update a b ma :
  0 < count_valid a -> 0 < count_valid b -> mv_eq ma (nanmean_l a) ->
  mv_eq (mdiv (madd (mscale ma (count_valid a)) (mscale (nanmean_l b) (count_valid b)))
              (count_valid a + count_valid b))
        (nanmean_l (a ++ b)).
Proof.
  intros Ha Hb Hm. unfold nanmean_l in *.
  rewrite count_valid_app, fsum_app, has_pinf_app, has_ninf_app.
  replace (count_valid a =? 0) with false in * by lia.
  replace (count_valid b =? 0) with false by lia.
  replace (count_valid a + count_valid b =? 0) with false by lia.
  set (na := count_valid a) in *. set (nb := count_valid b) in *.
  destruct (has_pinf a), (has_ninf a), (has_pinf b), (has_ninf b), ma as [p q| | |];
    cbn in *; try exact I; try contradiction.
  destruct Hm as (Hq & _ & He). repeat split; try nia.
  replace (p * na) with (fsum a * q) by lia. ring.
Qed.

(* ---- the invariant: stored summaries describe the stored values ------------------ *)
Definition Good (d : sdset) : Prop :=
  (forall v, a_min d = Some v -> v = nanmin_l (d_vals d))
  /\ (forall v, a_max d = Some v -> v = nanmax_l (d_vals d))
  /\ (forall m, a_mean d = Some m -> mv_eq m (nanmean_l (d_vals d))).

Definition vals (s : state) : list fv := match ds s with Some d => d_vals d | None => [] end.

(* the _valid_counts entry of an instance that is not in replace mode never
   describes more events than the dataset holds, and is right when the sizes
   match *)
Definition EntryOK (l : list fv) (e : Z * winst) : Prop :=
  match snd (snd e) with
  | Some (sz, c) => fst (snd e) <> 1 -> 0 <= sz <= zlen l /\ (sz = zlen l -> c = count_valid l)
  | None => True
  end.

Definition Inv (s : state) : Prop :=
  match ds s with Some d => Good d | None => True end
  /\ Forall (EntryOK (vals s)) (insts s).

Lemma write_good old dt0 cache data :
  match old with Some d => Good d | None => True end ->
  (forall sz c d, old = Some d -> cache = Some (sz, c) -> sz = zlen (d_vals d) ->
                  c = count_valid (d_vals d)) ->
  let r := write old dt0 cache data in
  Good (fst r)
  /\ d_vals (fst r) = match old with Some d => d_vals d ++ map (cast (d_dt d)) data
                                    | None => map (cast dt0) data end
  /\ d_dt (fst r) = match old with Some d => d_dt d | None => dt0 end
  /\ snd r = (zlen (d_vals (fst r)), count_valid (d_vals (fst r))).
Proof.
  intros HG HC. cbv zeta. unfold write. destruct old as [d|].
  - destruct HG as (Hmn & Hmx & Hme).
    set (st := map (cast (d_dt d)) data).
    set (num_a := match cache with
                  | Some (sz, c) => if sz =? zlen (d_vals d) then c else count_valid (d_vals d)
                  | None => count_valid (d_vals d) end).
    assert (Hna : num_a = count_valid (d_vals d)).
    { subst num_a. destruct cache as [[sz c]|]; [|reflexivity].
      destruct (sz =? zlen (d_vals d)) eqn:E; [|reflexivity].
      apply (HC sz c d eq_refl eq_refl). lia. }
    pose proof (count_valid_nonneg (d_vals d)) as Pa.
    pose proof (count_valid_nonneg st) as Pb.
    destruct (a_mean d) as [mean_a|] eqn:Em; cbn [fst snd d_vals d_dt a_min a_max a_mean];
      (split; [|split; [reflexivity|split; [reflexivity|]]]).
    + unfold Good; cbn [d_vals a_min a_max a_mean]. split; [|split].
      * intros v [= <-]. unfold upd_ext. destruct (a_min d) as [a|]; [|reflexivity].
        now rewrite (Hmn a eq_refl), nanmin_l_app.
      * intros v [= <-]. unfold upd_ext. destruct (a_max d) as [a|]; [|reflexivity].
        now rewrite (Hmx a eq_refl), nanmax_l_app.
      * intros m [= <-]. specialize (Hme mean_a eq_refl).
        destruct (count_valid st =? 0) eqn:Eb.
        -- rewrite nanmean_app_nan_r by lia. exact Hme.
        -- destruct (num_a =? 0) eqn:Ea.
           ++ rewrite nanmean_app_nan_l by lia. apply mv_eq_nanmean.
           ++ rewrite Hna. apply mean_update; [lia|lia|exact Hme].
    + f_equal. rewrite count_valid_app. lia.
    + unfold Good; cbn [d_vals a_min a_max a_mean]. split; [|split].
      * intros v [= <-]. unfold upd_ext. destruct (a_min d) as [a|]; [|reflexivity].
        now rewrite (Hmn a eq_refl), nanmin_l_app.
      * intros v [= <-]. unfold upd_ext. destruct (a_max d) as [a|]; [|reflexivity].
        now rewrite (Hmx a eq_refl), nanmax_l_app.
      * intros m [= <-]. apply mv_eq_nanmean.
    + reflexivity.
  - cbn [fst snd d_vals d_dt]. split; [|split; [reflexivity|split; reflexivity]].
    unfold Good; cbn [d_vals a_min a_max a_mean]. split; [|split].
    + now intros v [= <-].
    + now intros v [= <-].
    + intros m [= <-]. apply mv_eq_nanmean.
Qed.

Lemma In_set_inst i w l e : In e (set_inst i w l) -> e = (i, w) \/ In e l.
Proof.
  induction l as [|[j n] r IH]; simpl.
  - intros [H|[]]. now left.
  - destruct (i =? j); simpl; intros [H|H]; auto. destruct (IH H); auto.
Qed.

Lemma inst_of_In i l m c : inst_of i l = (m, Some c) -> In (i, (m, Some c)) l.
Proof.
  induction l as [|[j n] r IH]; simpl; [discriminate|].
  destruct (i =? j) eqn:E; [|auto]. intros ->. left. f_equal. lia.
Qed.

Lemma zlen_app' {A} (a b : list A) : zlen (a ++ b) = zlen a + zlen b.
Proof. unfold zlen. rewrite app_length. lia. Qed.

(* entries stay right when the dataset grows by at least one event *)
Lemma EntryOK_grow l st e : st <> [] -> EntryOK l e -> EntryOK (l ++ st) e.
Proof.
  intros Hne H. unfold EntryOK in *. destruct (snd (snd e)) as [[sz c]|]; [|exact I].
  intros Hm. specialize (H Hm). rewrite zlen_app'.
  assert (0 < zlen st) by (unfold zlen; destruct st; [congruence|simpl; lia]).
  split; lia.
Qed.

Lemma step_inv forced s o : Inv s -> replace_ok s o = true -> Inv (step forced s o).
Proof.
  intros [HG HE] Hok. unfold Inv, vals in *.
  destruct o as [i m|i isint data| |mn mx me| |dt raw]; cbn [step];
    [| | | |cbn [ds insts]; split; [exact HG|constructor]|].
  - destruct (m =? 2); cbn [ds insts].
    + split; [exact I|]. constructor; [exact I|constructor].
    + split; [exact HG|]. apply Forall_forall. intros e He.
      apply In_set_inst in He as [->|He]; [exact I|].
      rewrite Forall_forall in HE. now apply HE.
  - destruct (inst_of i (insts s)) as [m cache] eqn:Ei.
    cbn [replace_ok] in Hok. unfold mode_of in Hok. rewrite Ei in Hok. cbn [fst] in Hok.
    set (old := if m =? 1 then None else ds s).
    assert (HO : match old with Some d => Good d | None => True end).
    { subst old. destruct (m =? 1); [exact I|exact HG]. }
    assert (HC : forall sz c d, old = Some d -> cache = Some (sz, c) ->
                                sz = zlen (d_vals d) -> c = count_valid (d_vals d)).
    { intros sz c d Hold -> Hsz. subst old. destruct (m =? 1) eqn:Em; [discriminate|].
      rewrite Hold in HE. rewrite Forall_forall in HE.
      specialize (HE _ (inst_of_In _ _ _ _ Ei)). unfold EntryOK in HE. cbn in HE.
      apply HE; [lia|exact Hsz]. }
    (* the other entries against the values the dataset had before this call *)
    assert (HE' : Forall (EntryOK (match old with Some d => d_vals d | None => [] end))
                         (insts s)).
    { subst old. destruct (m =? 1) eqn:Em; [|exact HE].
      rewrite Forall_forall in *. intros e He. specialize (HE e He).
      rewrite forallb_forall in Hok. specialize (Hok e He).
      unfold EntryOK in *. destruct e as [j [mj [[sz c]|]]]; cbn in *; [|exact I].
      intros Hmj. replace (mj =? 1) with false in Hok by lia. discriminate. }
    destruct data as [|x data]; cbn [ds insts].
    + split; [exact HO|]. subst old. destruct (m =? 1) eqn:Em; [|exact HE]. exact HE'.
    + pose proof (write_good old (match forced with Some t => t
                                                   | None => if isint then DI64 else DF end)
                             cache (x :: data) HO HC) as HW. cbv zeta in HW.
      destruct (write old _ cache (x :: data)) as [d e] eqn:Ew. cbn [fst snd] in HW.
      destruct HW as (G & V & _ & E). cbn [ds insts]. split; [exact G|].
      apply Forall_forall. intros en Hen. apply In_set_inst in Hen as [->|Hen].
      * unfold EntryOK. cbn. rewrite E. intros _. unfold zlen. split; [lia|auto].
      * rewrite Forall_forall in HE'. specialize (HE' en Hen). rewrite V.
        destruct old as [d0|].
        -- apply EntryOK_grow; [discriminate|exact HE'].
        -- change (map (cast _) (x :: data)) with ([] ++ map (cast
             (match forced with Some t => t | None => if isint then DI64 else DF end)) (x :: data)).
           apply EntryOK_grow; [discriminate|exact HE'].
  - cbn [ds insts]. split; [|constructor]. destruct (ds s) as [d|]; [|exact I]. cbn [option_map].
    unfold copy. destruct (d_vals d) eqn:Ev; [exact HG|]. rewrite <- Ev.
    destruct HG as (A & B & C). unfold Good; cbn [d_vals a_min a_max a_mean].
    split; [|split].
    + intros v [= <-]. destruct (a_min d) as [a|]; [now apply A|reflexivity].
    + intros v [= <-]. destruct (a_max d) as [a|]; [now apply B|reflexivity].
    + intros m [= <-]. destruct (a_mean d) as [a|]; [now apply C|apply mv_eq_nanmean].
  - cbn [ds insts]. split; [|constructor]. destruct (ds s) as [d|]; [|exact I]. cbn [option_map].
    destruct HG as (A & B & C). unfold Good; cbn [d_vals a_min a_max a_mean].
    split; [|split].
    + destruct mn; [discriminate|exact A].
    + destruct mx; [discriminate|exact B].
    + destruct me; [discriminate|exact C].
  - cbn [ds insts]. split; [|constructor].
    unfold Good; cbn [a_min a_max a_mean]. repeat split; discriminate.
Qed.

(* the model state seen as (instance modes, dtype and stored values) *)
Definition proj (s : state) : list (Z * Z) * option (dtk * list fv) :=
  (map (fun e : Z * winst => (fst e, fst (snd e))) (insts s),
   option_map (fun d => (d_dt d, d_vals d)) (ds s)).

Lemma smode_of_map i l :
  smode_of i (map (fun e : Z * winst => (fst e, fst (snd e))) l) = mode_of i l.
Proof.
  unfold mode_of. induction l as [|[j w] r IH]; simpl; [reflexivity|].
  destruct (i =? j); [reflexivity|exact IH].
Qed.

Lemma set_mode_map i m c l :
  map (fun e : Z * winst => (fst e, fst (snd e))) (set_inst i (m, c) l)
  = set_mode i m (map (fun e : Z * winst => (fst e, fst (snd e))) l).
Proof.
  induction l as [|[j w] r IH]; simpl; [reflexivity|].
  destruct (i =? j); simpl; [reflexivity|now rewrite IH].
Qed.

Lemma step_proj forced s o : Inv s -> replace_ok s o = true ->
  proj (step forced s o) = spec_step forced (proj s) o.
Proof.
  intros HI Hok. pose proof (step_inv forced s o HI Hok) as HI'.
  unfold proj. destruct o as [i m|i isint data| |mn mx me| |dt raw]; cbn [step spec_step];
    [| | | |reflexivity|].
  - destruct (m =? 2); cbn [insts ds]; [reflexivity|]. now rewrite set_mode_map.
  - rewrite smode_of_map. unfold mode_of.
    destruct (inst_of i (insts s)) as [m cache] eqn:Ei. cbn [fst].
    set (old := if m =? 1 then None else ds s).
    assert (Hold : (if m =? 1 then None
                    else option_map (fun d => (d_dt d, d_vals d)) (ds s))
                   = option_map (fun d => (d_dt d, d_vals d)) old).
    { subst old. now destruct (m =? 1). }
    rewrite Hold.
    destruct data as [|x data]; cbn [insts ds]; [reflexivity|].
    destruct HI as [HG HE].
    assert (HO : match old with Some d => Good d | None => True end).
    { subst old. destruct (m =? 1); [exact I|exact HG]. }
    assert (HC : forall sz c d, old = Some d -> cache = Some (sz, c) ->
                                sz = zlen (d_vals d) -> c = count_valid (d_vals d)).
    { intros sz c d Hd -> Hsz. subst old. destruct (m =? 1) eqn:Em; [discriminate|].
      unfold vals in HE. rewrite Hd in HE. rewrite Forall_forall in HE.
      specialize (HE _ (inst_of_In _ _ _ _ Ei)). unfold EntryOK in HE. cbn in HE.
      apply HE; [lia|exact Hsz]. }
    pose proof (write_good old (match forced with Some t => t
                                                | None => if isint then DI64 else DF end)
                           cache (x :: data) HO HC) as HW. cbv zeta in HW.
    destruct (write old _ cache (x :: data)) as [d e]. cbn [fst snd] in HW.
    destruct HW as (_ & V & T & _). cbn [insts ds option_map].
    rewrite set_mode_map, V, T. destruct old as [d0|]; reflexivity.
  - cbn [insts ds map]. f_equal. destruct (ds s) as [d|]; [|reflexivity]. cbn [option_map].
    unfold copy. destruct (d_vals d) eqn:Ev; [now rewrite Ev|reflexivity].
  - cbn [insts ds map]. f_equal. now destruct (ds s).
  - reflexivity.
Qed.

Theorem history_inv forced : forall ops s, Inv s -> hist_ok forced s ops = true ->
  Inv (run forced s ops)
  /\ proj (run forced s ops) = fold_left (spec_step forced) ops (proj s).
Proof.
  unfold run. induction ops as [|o r IH]; intros s HI Hok; [split; [exact HI|reflexivity]|].
  cbn [fold_left]. cbn [hist_ok] in Hok. apply andb_prop in Hok as [Ho Hr].
  destruct (IH (step forced s o) (step_inv forced s o HI Ho) Hr) as [I1 I2].
  split; [exact I1|]. now rewrite I2, step_proj.
Qed.

Lemma init_inv : Inv init.
Proof. split; [exact I|constructor]. Qed.

(* what the feature object reports after any history *)
Theorem reported_summaries forced ops d :
  hist_ok forced init ops = true ->
  ds (run forced init ops) = Some d ->
  spec_vals forced ops = Some (d_dt d, d_vals d)
  /\ rep_min d = nanmin_l (d_vals d)
  /\ rep_max d = nanmax_l (d_vals d)
  /\ mv_eq (rep_mean d) (nanmean_l (d_vals d)).
Proof.
  intros Hok Hd. destruct (history_inv forced ops init init_inv Hok) as [[HG _] HV].
  unfold spec_vals. change ([], None) with (proj init). rewrite <- HV.
  unfold proj in *. rewrite Hd in *. cbn [snd option_map].
  destruct HG as (A & B & C).
  split; [reflexivity|]. unfold rep_min, rep_max, rep_mean.
  split; [|split].
  - destruct (a_min d) as [a|]; [now apply A|reflexivity].
  - destruct (a_max d) as [a|]; [now apply B|reflexivity].
  - destruct (a_mean d) as [a|]; [now apply C|apply mv_eq_nanmean].
Qed.

(* stored attributes themselves (what rtdc_copy, join, export pass on) *)
Theorem stored_summaries forced ops d :
  hist_ok forced init ops = true ->
  ds (run forced init ops) = Some d ->
  (forall v, a_min d = Some v -> v = nanmin_l (d_vals d))
  /\ (forall v, a_max d = Some v -> v = nanmax_l (d_vals d))
  /\ (forall m, a_mean d = Some m -> mv_eq m (nanmean_l (d_vals d))).
Proof.
  intros Hok Hd. destruct (history_inv forced ops init init_inv Hok) as [[HG _] _].
  rewrite Hd in HG. exact HG.
Qed.

(* known finding C20-two-writers-replace-same-size: A writes [1, NaN]; B, a
   second live writer in replace mode, re-creates the dataset with [3, 4] (the
   size A remembers); A appends [5]: the stored mean is 4.25, not 4 *)
Theorem reported_summaries_refuted :
  exists forced ops d,
    ds (run forced init ops) = Some d
    /\ ~ mv_eq (rep_mean d) (nanmean_l (d_vals d)).
Proof.
  exists None, [OOpen 1 2; OWrite 1 false [Fin 8; NaN]; OOpen 2 1; OWrite 2 false [Fin 24; Fin 32];
                OWrite 1 false [Fin 40]].
  eexists. split; [vm_compute; reflexivity|]. vm_compute. intros (_ & _ & H). discriminate.
Qed.

(* the update before the repair (weights offset and data.size) is wrong as soon
   as a NaN was written: [1, NaN, NaN] then [3] gives 1.5 instead of 2 *)
Theorem old_mean_refuted :
  exists old data,
    ~ mv_eq (old_mean_update (nanmean_l old) old data) (nanmean_l (old ++ data)).
Proof.
  exists [Fin 8; NaN; NaN], [Fin 24]. vm_compute. intros (_ & _ & H). discriminate.
Qed.

(* ---- non-vacuity --------------------------------------------------------------------- *)
(* two writers alive on one file (A, B, A), NaN batches, attributes removed,
   a copy; the guard holds *)
Example c20_nonvacuous :
  let ops := [OOpen 0 2; OWrite 0 false [Fin 8; Fin 24]; OOpen 1 0; OWrite 1 false [Fin 40; Fin 56];
              OWrite 0 false [Fin 72]; OWrite 1 false [NaN; NaN]; ODrop true false false;
              OOpen 2 0; OWrite 2 false [NInf; Fin (-16)]; OCopy] in
  exists d p q, hist_ok None init ops = true
            /\ ds (run None init ops) = Some d
            /\ d_vals d = [Fin 8; Fin 24; Fin 40; Fin 56; Fin 72; NaN; NaN; NInf; Fin (-16)]
            /\ a_mean d = Some MNInf
            /\ rep_min d = NInf /\ rep_max d = Fin 72
            /\ option_map a_mean (ds (run None init (firstn 5 ops))) = Some (Some (MFin p q))
            /\ p = 40 * q /\ q <> 0.
Proof. eexists; eexists; eexists. vm_compute. repeat split; discriminate. Qed.

(* a replace-mode writer with other writers alive, allowed by the guard *)
Example c20_nonvacuous_replace :
  let ops := [OOpen 1 2; OWrite 1 false [Fin 8; NaN]; OOpen 2 1; OOpen 3 1;
              OWrite 2 false [Fin 24]; OWrite 3 false [Fin 40; NaN]; OWrite 2 false [Fin 8]] in
  hist_ok None init (firstn 3 ops) = true /\ hist_ok None init ops = false
  /\ hist_ok None init [OOpen 1 2; OWrite 1 false [Fin 8; NaN]; OClose; OOpen 2 1;
                         OWrite 2 false [Fin 24]] = true
  /\ hist_ok None init [OOpen 2 1; OOpen 3 1; OWrite 2 false [Fin 24];
                         OWrite 3 false [Fin 40; NaN]; OWrite 2 false [Fin 8]] = true.
Proof. vm_compute. repeat split. Qed.

(* integer features: what is stored (and summarised) is the converted value *)
Example c20_nonvacuous_int :
  let ops := [OOpen 0 2; OWrite 0 false [Fin 14; Fin 18]; OWrite 0 false [Fin 31; NaN; PInf]] in
  exists d, ds (run (Some (DI 0 (2 ^ 32 - 1))) init ops) = Some d
            /\ d_vals d = [Fin 8; Fin 16; Fin 24; Fin 0; Fin (8 * (2 ^ 32 - 1))]
            /\ rep_max d = Fin (8 * (2 ^ 32 - 1)) /\ rep_min d = Fin 0
            /\ spec_vals (Some (DI 0 (2 ^ 32 - 1))) ops = Some (d_dt d, d_vals d).
Proof. eexists. vm_compute. repeat split. Qed.

(* ---- hierarchy children across refreshes ---------------------------------------------- *)
Definition OGood (s : hstate) (o : cobj) : Prop :=
  let sel := select (h_filt s) (h_vals s) in
  (forall a, o_arr o = Some a -> a = sel)
  /\ (forall v, o_min o = Some v -> v = nanmin_l sel)
  /\ (forall v, o_max o = Some v -> v = nanmax_l sel)
  /\ (forall m, o_mean o = Some m -> m = nanmean_l sel).

(* while the parent's filter is unchanged since the last refresh, the object
   held by the child describes the current selection *)
Definition HInv (s : hstate) : Prop :=
  h_changed s = false -> match h_obj s with Some o => OGood s o | None => True end.

Lemma hquery_good s w :
  HInv s -> h_changed s = false ->
  fst (hquery s w) = spec_q (h_filt s) (h_vals s) w /\ OGood s (snd (hquery s w)).
Proof.
  intros HI Hc. specialize (HI Hc). unfold hquery, spec_q.
  set (o := match h_obj s with Some o => o | None => new_cobj end).
  assert (HO : OGood s o).
  { subst o. destruct (h_obj s); [exact HI|]. repeat split; discriminate. }
  destruct HO as (A & B & C & D).
  set (sel := select (h_filt s) (h_vals s)) in *.
  cbv zeta in A, B, C, D.
  assert (Harr : match o_arr o with Some a => a | None => sel end = sel).
  { destruct (o_arr o) as [a|]; [now apply A|reflexivity]. }
  rewrite Harr.
  assert (Hfin : forall o', 
            (forall a, o_arr o' = Some a -> a = sel) ->
            (forall v, o_min o' = Some v -> v = nanmin_l sel) ->
            (forall v, o_max o' = Some v -> v = nanmax_l sel) ->
            (forall m, o_mean o' = Some m -> m = nanmean_l sel) -> OGood s o').
  { intros o' H1 H2 H3 H4. unfold OGood. fold sel. auto. }
  destruct (w =? 0); [|destruct (w =? 1)].
  - case_eq (o_min o); [intros v E|intros E]; cbn [fst snd].
    + split; [now rewrite (B v E)|]. now apply Hfin.
    + split; [reflexivity|]. apply Hfin; cbn; auto; intros ? [= <-]; reflexivity.
  - case_eq (o_max o); [intros v E|intros E]; cbn [fst snd].
    + split; [now rewrite (C v E)|]. now apply Hfin.
    + split; [reflexivity|]. apply Hfin; cbn; auto; intros ? [= <-]; reflexivity.
  - case_eq (o_mean o); [intros m E|intros E]; cbn [fst snd].
    + split; [now rewrite (D m E)|]. now apply Hfin.
    + split; [reflexivity|]. apply Hfin; cbn; auto; intros ? [= <-]; reflexivity.
Qed.

Lemma hstep_inv s o : HInv s -> HInv (hstep s o).
Proof.
  intros HI. destruct o as [f| |w| |v]; unfold HInv; cbn [hstep h_changed h_obj];
    [| | | |discriminate].
  - discriminate.
  - intros _. exact I.
  - intros Hc. destruct (hquery_good s w HI Hc) as [_ G]. exact G.
  - intros Hc. specialize (HI Hc).
    set (o := match h_obj s with Some o => o | None => new_cobj end).
    assert (HO : OGood s o).
    { subst o. destruct (h_obj s); [exact HI|]. repeat split; discriminate. }
    destruct HO as (A & B & C & D). unfold OGood in *. cbn [o_arr o_min o_max o_mean h_filt h_vals].
    split; [|auto]. intros a [= <-]. case_eq (o_arr o); [intros a E; now apply A|reflexivity].
Qed.

Lemma hrun_inv ops : forall s, HInv s -> HInv (hrun s ops).
Proof.
  unfold hrun. induction ops as [|o r IH]; intros s HI; [exact HI|].
  cbn [fold_left]. apply IH, hstep_inv, HI.
Qed.

Lemma hinit_inv vals : HInv (hinit vals).
Proof. intros _. exact I. Qed.

(* after any history of filter changes, refreshes and queries: a query made
   while the child is up to date returns the summary of the selected events *)
Theorem child_fresh vals ops w :
  let s := hrun (hinit vals) ops in
  h_changed s = false ->
  fst (hquery s w) = spec_q (h_filt s) (h_vals s) w.
Proof.
  cbv zeta. intros Hc.
  apply (hquery_good _ w (hrun_inv ops _ (hinit_inv vals)) Hc).
Qed.

(* every query of a history that was made in an up-to-date state is right *)
Fixpoint spec_out (s : hstate) (ops : list hop) : list (bool * qres) :=
  match ops with
  | [] => []
  | HQuery w :: r => (negb (h_changed s), spec_q (h_filt s) (h_vals s) w)
                     :: spec_out (hstep s (HQuery w)) r
  | o :: r => spec_out (hstep s o) r
  end.

Theorem child_history ops : forall s, HInv s ->
  Forall2 (fun a b : bool * qres => fst a = fst b /\ (fst a = true -> snd a = snd b))
          (hrun_out s ops) (spec_out s ops).
Proof.
  induction ops as [|o r IH]; intros s HI; [constructor|].
  destruct o as [f| |w| |v]; cbn [hrun_out spec_out];
    [| | | |apply IH, (hstep_inv s (HData v)), HI].
  - apply IH, (hstep_inv s (HFilter f)), HI.
  - apply IH, (hstep_inv s HRefresh), HI.
  - constructor; [|apply IH, (hstep_inv s (HQuery w)), HI].
    cbn [fst snd]. split; [reflexivity|]. intros Hc.
    apply (hquery_good s w HI). now destruct (h_changed s).
  - apply IH, (hstep_inv s HRead), HI.
Qed.

(* ---- features of mapped basins: reads and queries in any order ------------------------ *)
Lemma select_all {A} (l : list A) : select (map (fun _ => true) l) l = l.
Proof. induction l as [|x l IH]; simpl; [reflexivity|now rewrite IH]. Qed.

Lemma rq_frame ops : forall s, forallb is_rq ops = true ->
  h_vals (hrun s ops) = h_vals s /\ h_filt (hrun s ops) = h_filt s
  /\ h_changed (hrun s ops) = h_changed s.
Proof.
  unfold hrun. induction ops as [|o r IH]; intros s H; [auto|].
  cbn [forallb] in H. apply andb_prop in H as [Ho Hr]. cbn [fold_left].
  destruct (IH (hstep s o) Hr) as (A & B & C). rewrite A, B, C.
  destruct o; try discriminate; auto.
Qed.

(* whatever the basin map (identity, subset, repeats, permutation, ...) and
   whatever the order of reading the data and asking for summaries: every
   summary is that of the mapped events *)
Theorem basin_history bm vals ops w :
  forallb is_rq ops = true ->
  fst (hquery (hrun (binit bm vals) ops) w) = spec_b bm vals w.
Proof.
  intros H. destruct (rq_frame ops (binit bm vals) H) as (A & B & C).
  pose proof (child_fresh (mapped bm vals) ops w) as HF. cbv zeta in HF.
  unfold binit in *. rewrite HF by (rewrite C; reflexivity).
  rewrite A, B. unfold spec_q, spec_b. cbn [hinit h_vals h_filt].
  now rewrite select_all.
Qed.

Example c20_basin_nonvacuous :
  let vals := [Fin 8; NaN; Fin 24; Fin (-8); PInf; Fin 16] in
  let bm := [0; 4; 4; 4; 1; 5] in
  hrun_out (binit bm vals) [HQuery 1; HRead; HQuery 0; HQuery 2; HQuery 1]
  = [(true, QF PInf); (true, QF (Fin 8)); (true, QM MPInf); (true, QF PInf)]
  /\ nanmax_l vals = PInf /\ nanmin_l vals = Fin (-8)
  /\ hrun_out (binit [0; 1; 1; 3; 3; 5] vals) [HQuery 0] = [(true, QF (Fin (-8)))]
  /\ hrun_out (binit [0; 1; 1; 2; 2; 5] vals) [HQuery 0] = [(true, QF (Fin 8))].
Proof. vm_compute. repeat split. Qed.

Example c20_child_nonvacuous :
  let vals := [Fin 8; NaN; Fin 24; Fin (-8); PInf] in
  let ops := [HQuery 0; HFilter [true; true; false; false; true]; HQuery 0; HRefresh;
              HQuery 0; HQuery 2; HFilter [false; true; true; true; false]; HRefresh;
              HQuery 1; HQuery 2; HData [Fin 80; Fin 88; Fin 96; NaN; Fin 8]; HQuery 1;
              HRefresh; HRead; HQuery 1] in
  hrun_out (hinit vals) ops
  = [(true, QF (Fin (-8))); (false, QF (Fin (-8))); (true, QF (Fin 8)); (true, QM MPInf);
     (true, QF (Fin 24)); (true, QM (MFin 16 2)); (false, QF (Fin 24)); (true, QF (Fin 96))]
  /\ h_changed (hrun (hinit vals) ops) = false.
Proof. vm_compute. repeat split. Qed.

(* ---- chunk-wise reduction ----------------------------------------------------------------- *)
Lemma chunk_min_ok chunks : chunk_min chunks = nanmin_l (concat chunks).
Proof.
  unfold chunk_min. induction chunks as [|c r IH]; [reflexivity|].
  cbn [map concat]. rewrite nanmin_l_app, <- IH. reflexivity.
Qed.

Lemma chunk_max_ok chunks : chunk_max chunks = nanmax_l (concat chunks).
Proof.
  unfold chunk_max. induction chunks as [|c r IH]; [reflexivity|].
  cbn [map concat]. rewrite nanmax_l_app, <- IH. reflexivity.
Qed.

Lemma nanmean_all_nan l : count_valid l = 0 -> nanmean_l l = MNaN.
Proof. intros H. unfold nanmean_l. now rewrite H. Qed.

Lemma wmean_fold chunks : forall a m,
  (count_valid a = 0 -> m = MNaN) ->
  (0 < count_valid a -> mv_eq m (nanmean_l a)) ->
  let r := fold_left wmean_step chunks (m, count_valid a) in
  snd r = count_valid (a ++ concat chunks)
  /\ (count_valid (a ++ concat chunks) = 0 -> fst r = MNaN)
  /\ (0 < count_valid (a ++ concat chunks) -> mv_eq (fst r) (nanmean_l (a ++ concat chunks))).
Proof.
  induction chunks as [|c r IH]; intros a m H0 H1; cbv zeta.
  - cbn [fold_left concat fst snd]. rewrite app_nil_r. auto.
  - cbn [fold_left concat]. rewrite app_assoc.
    pose proof (count_valid_nonneg a) as Pa. pose proof (count_valid_nonneg c) as Pc.
    assert (Hs : wmean_step (m, count_valid a) c
                 = if count_valid c =? 0 then (m, count_valid a)
                   else if count_valid a =? 0 then (nanmean_l c, count_valid c)
                   else (mdiv (madd (mscale m (count_valid a))
                                    (mscale (nanmean_l c) (count_valid c)))
                              (count_valid a + count_valid c),
                         count_valid a + count_valid c)) by reflexivity.
    rewrite Hs. clear Hs.
    destruct (count_valid c =? 0) eqn:Ec.
    + replace (count_valid a) with (count_valid (a ++ c)) by (rewrite count_valid_app; lia).
      apply IH.
      * rewrite count_valid_app. intros H. apply H0. lia.
      * rewrite count_valid_app. intros H. rewrite nanmean_app_nan_r by lia. apply H1. lia.
    + destruct (count_valid a =? 0) eqn:Ea.
      * replace (count_valid c) with (count_valid (a ++ c)) by (rewrite count_valid_app; lia).
        apply IH.
        -- rewrite count_valid_app. intros H. lia.
        -- intros _. rewrite nanmean_app_nan_l by lia. apply mv_eq_nanmean.
      * replace (count_valid a + count_valid c) with (count_valid (a ++ c))
          by (rewrite count_valid_app; lia).
        apply IH.
        -- rewrite count_valid_app. intros H. lia.
        -- intros _. rewrite count_valid_app. apply mean_update; [lia|lia|apply H1; lia].
Qed.

(* the weighted chunk-wise mean is the mean of the data *)
Theorem chunk_mean_weighted_ok chunks :
  mv_eq (chunk_mean_weighted chunks) (nanmean_l (concat chunks)).
Proof.
  unfold chunk_mean_weighted.
  destruct (wmean_fold chunks [] MNaN (fun _ => eq_refl)) as (_ & B & C).
  { cbn. lia. }
  cbn [app] in *. change (count_valid []) with 0 in *.
  pose proof (count_valid_nonneg (concat chunks)) as P.
  destruct (Z.eq_dec (count_valid (concat chunks)) 0) as [E|E].
  - rewrite (B E), (nanmean_all_nan _ E). exact I.
  - apply C. lia.
Qed.

(* the unweighted mean of the chunk means is not: chunks [1, 2, 3] and [5] *)
Theorem chunk_mean_unweighted_refuted :
  exists chunks, ~ mv_eq (chunk_mean_unweighted chunks) (nanmean_l (concat chunks)).
Proof.
  exists [[Fin 8; Fin 16; Fin 24]; [Fin 40]]. vm_compute. intros (_ & _ & H). discriminate.
Qed.

Example c20_chunks_nonvacuous :
  let chunks := [[Fin 8; NaN; Fin 24]; [NaN; NaN]; [Fin 40; PInf; NInf]; [Fin 16]] in
  chunk_min chunks = NInf /\ chunk_max chunks = PInf /\ chunk_mean_weighted chunks = MNaN
  /\ chunk_mean_weighted [[Fin 8; Fin 16; Fin 24]; [NaN]; [Fin 40]] = MFin 264 12
  /\ chunk_mean_unweighted [[Fin 8; Fin 16; Fin 24]; [NaN]; [Fin 40]] = MFin 168 6.
Proof. vm_compute. repeat split. Qed.

(* ---- ndarray-valued scalar features (known finding) ------------------------------------------ *)
Theorem ndarray_summaries_refuted :
  exists l, npmin_l l <> nanmin_l l /\ npmax_l l <> nanmax_l l.
Proof. exists [Fin 80; NaN; Fin 8]. vm_compute. split; discriminate. Qed.

(* without NaN both agree *)
Lemma npmin2_nonan a b : isnan a = false -> isnan b = false -> npmin2 a b = nanmin2 a b.
Proof. intros Ha Hb. unfold npmin2, nanmin2. now rewrite Ha, Hb. Qed.
