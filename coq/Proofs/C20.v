(* Proofs about the summary model (Model/C20.v). *)
From Coq Require Import ZArith List Bool Lia ZifyBool ZifyNat.
From Verif Require Import Model.C20.
Import ListNotations.
Open Scope Z_scope.

(* ---- extrema ----------------------------------------------------------------- *)
Ltac cmp_all :=
  repeat match goal with
         | |- context [?p <=? ?q] => destruct (Z.leb_spec p q); cbn
         end.

Lemma nanmin2_assoc a b c : nanmin2 a (nanmin2 b c) = nanmin2 (nanmin2 a b) c.
Proof.
  destruct a as [x| | |], b as [y| | |], c as [z| | |]; cbn; try reflexivity;
    cmp_all; try reflexivity; try (f_equal; lia); try lia.
Qed.

Lemma nanmax2_assoc a b c : nanmax2 a (nanmax2 b c) = nanmax2 (nanmax2 a b) c.
Proof.
  destruct a as [x| | |], b as [y| | |], c as [z| | |]; cbn; try reflexivity;
    cmp_all; try reflexivity; try (f_equal; lia); try lia.
Qed.

Lemma nanmin_l_app a b : nanmin_l (a ++ b) = nanmin2 (nanmin_l a) (nanmin_l b).
Proof.
  induction a as [|x a IH]; [reflexivity|].
  change (nanmin2 x (nanmin_l (a ++ b)) = nanmin2 (nanmin2 x (nanmin_l a)) (nanmin_l b)).
  now rewrite IH, nanmin2_assoc.
Qed.

Lemma nanmax_l_app a b : nanmax_l (a ++ b) = nanmax2 (nanmax_l a) (nanmax_l b).
Proof.
  induction a as [|x a IH]; [reflexivity|].
  change (nanmax2 x (nanmax_l (a ++ b)) = nanmax2 (nanmax2 x (nanmax_l a)) (nanmax_l b)).
  now rewrite IH, nanmax2_assoc.
Qed.

(* ---- means ------------------------------------------------------------------------ *)
Lemma count_valid_nonneg l : 0 <= count_valid l.
Proof. induction l as [|v l IH]; simpl; [lia|]. destruct (isnan v); lia. Qed.

Lemma count_valid_app a b : count_valid (a ++ b) = count_valid a + count_valid b.
Proof. induction a as [|v a IH]; simpl; [lia|]. destruct (isnan v); lia. Qed.

Lemma fsum_app a b : fsum (a ++ b) = fsum a + fsum b.
Proof. induction a as [|v a IH]; simpl; [lia|]. destruct v; lia. Qed.

Lemma has_pinf_app a b : has_pinf (a ++ b) = has_pinf a || has_pinf b.
Proof. apply existsb_app. Qed.
Lemma has_ninf_app a b : has_ninf (a ++ b) = has_ninf a || has_ninf b.
Proof. apply existsb_app. Qed.

Lemma all_nan l : count_valid l = 0 -> fsum l = 0 /\ has_pinf l = false /\ has_ninf l = false.
Proof.
  induction l as [|v l IH]; simpl; [auto|].
  pose proof (count_valid_nonneg l). destruct v; simpl; try lia; try exact IH.
Qed.

Lemma nanmean_app_nan_r a b : count_valid b = 0 -> nanmean_l (a ++ b) = nanmean_l a.
Proof.
  intros H. destruct (all_nan b H) as (S & P & N). unfold nanmean_l.
  rewrite count_valid_app, fsum_app, has_pinf_app, has_ninf_app, H, S, P, N.
  now rewrite !orb_false_r, !Z.add_0_r.
Qed.

Lemma nanmean_app_nan_l a b : count_valid a = 0 -> nanmean_l (a ++ b) = nanmean_l b.
Proof.
  intros H. destruct (all_nan a H) as (S & P & N). unfold nanmean_l.
  rewrite count_valid_app, fsum_app, has_pinf_app, has_ninf_app, H, S, P, N.
  reflexivity.
Qed.

Lemma mv_eq_nanmean l : mv_eq (nanmean_l l) (nanmean_l l).
Proof.
  unfold nanmean_l. destruct (count_valid l =? 0) eqn:E; [exact I|].
  destruct (has_pinf l), (has_ninf l); cbn; auto. repeat split; lia.
Qed.

(* the weighted update is exact when the weights are the numbers of non-NaN
   values *)
Lemma mean_update a b ma :
  0 < count_valid a -> 0 < count_valid b -> mv_eq ma (nanmean_l a) ->
  mv_eq (mdiv (madd (mscale ma (count_valid a)) (mscale (nanmean_l b) (count_valid b)))
              (count_valid a + count_valid b))
        (nanmean_l (a ++ b)).
Proof.
  intros Ha Hb Hm. unfold nanmean_l in *.
  rewrite count_valid_app, fsum_app, has_pinf_app, has_ninf_app.
  replace (count_valid a =? 0) with false in * by lia.
  replace (count_valid b =? 0) with false by lia.
  replace (count_valid a + count_valid b =? 0) with false by lia.
  set (na := count_valid a) in *. set (nb := count_valid b) in *.
  destruct (has_pinf a), (has_ninf a), (has_pinf b), (has_ninf b), ma as [p q| | |];
    cbn in *; try exact I; try contradiction.
  destruct Hm as (Hq & _ & He). repeat split; try nia.
  replace (p * na) with (fsum a * q) by lia. ring.
Qed.

(* ---- the invariant: stored summaries describe the stored values ------------------ *)
Definition Good (c : option Z) (d : sdset) : Prop :=
  (forall v, a_min d = Some v -> v = nanmin_l (d_vals d))
  /\ (forall v, a_max d = Some v -> v = nanmax_l (d_vals d))
  /\ (forall m, a_mean d = Some m -> mv_eq m (nanmean_l (d_vals d)))
  /\ (forall n, c = Some n -> n = count_valid (d_vals d)).

Definition Inv (s : state) : Prop :=
  match ds s with Some d => Good (cnt s) d | None => True end.

Lemma write_good c old data :
  match old with Some d => Good c d | None => True end ->
  Good (Some (snd (write c old data))) (fst (write c old data))
  /\ d_vals (fst (write c old data))
     = match old with Some d => d_vals d | None => [] end ++ data.
Proof.
  intros HG. unfold write. destruct old as [d|].
  - destruct HG as (Hmn & Hmx & Hme & Hc).
    set (num_a := match c with Some n => n | None => count_valid (d_vals d) end).
    assert (Hna : num_a = count_valid (d_vals d)).
    { subst num_a. destruct c as [n|]; [now apply Hc|reflexivity]. }
    pose proof (count_valid_nonneg (d_vals d)) as Pa.
    pose proof (count_valid_nonneg data) as Pb.
    destruct (a_mean d) as [mean_a|] eqn:Em; cbn [fst snd d_vals a_min a_max a_mean];
      (split; [|reflexivity]); unfold Good; cbn [d_vals a_min a_max a_mean].
    + split; [|split; [|split]].
      * intros v [= <-]. unfold upd_ext. destruct (a_min d) as [a|]; [|reflexivity].
        now rewrite (Hmn a eq_refl), nanmin_l_app.
      * intros v [= <-]. unfold upd_ext. destruct (a_max d) as [a|]; [|reflexivity].
        now rewrite (Hmx a eq_refl), nanmax_l_app.
      * intros m [= <-]. specialize (Hme mean_a eq_refl).
        destruct (count_valid data =? 0) eqn:Eb.
        -- rewrite nanmean_app_nan_r by lia. exact Hme.
        -- destruct (num_a =? 0) eqn:Ea.
           ++ rewrite nanmean_app_nan_l by lia. apply mv_eq_nanmean.
           ++ rewrite Hna. apply mean_update; [lia|lia|exact Hme].
      * intros n [= <-]. rewrite count_valid_app. lia.
    + split; [|split; [|split]].
      * intros v [= <-]. unfold upd_ext. destruct (a_min d) as [a|]; [|reflexivity].
        now rewrite (Hmn a eq_refl), nanmin_l_app.
      * intros v [= <-]. unfold upd_ext. destruct (a_max d) as [a|]; [|reflexivity].
        now rewrite (Hmx a eq_refl), nanmax_l_app.
      * intros m [= <-]. apply mv_eq_nanmean.
      * intros n [= <-]. reflexivity.
  - cbn [fst snd d_vals]. split; [|reflexivity]. unfold Good; cbn [d_vals a_min a_max a_mean].
    split; [|split; [|split]].
    + now intros v [= <-].
    + now intros v [= <-].
    + intros m [= <-]. apply mv_eq_nanmean.
    + intros n [= <-]. reflexivity.
Qed.

Definition vals (s : state) : list fv := match ds s with Some d => d_vals d | None => [] end.

Lemma step_inv s o : Inv s -> Inv (step s o).
Proof.
  unfold Inv. intros HI. destruct o as [m|data| |mn mx me|raw]; cbn [step];
    [| | | |cbn [ds cnt]; unfold Good; cbn [a_min a_max a_mean]; repeat split; discriminate].
  - cbn [ds cnt]. destruct (m =? 2); [exact I|].
    destruct (ds s) as [d|]; [|exact I].
    destruct HI as (A & B & C & _). repeat split; auto. discriminate.
  - destruct data as [|x data].
    + cbn [ds cnt]. destruct (mode s =? 1); [exact I|exact HI].
    + set (old := if mode s =? 1 then None else ds s).
      assert (HO : match old with Some d => Good (cnt s) d | None => True end).
      { subst old. destruct (mode s =? 1); [exact I|exact HI]. }
      pose proof (write_good (cnt s) old (x :: data) HO) as [HW _].
      destruct (write (cnt s) old (x :: data)) as [d c]. exact HW.
  - cbn [ds cnt]. destruct (ds s) as [d|]; [|exact I]. cbn [option_map].
    destruct HI as (A & B & C & _). unfold copy, Good; cbn [d_vals a_min a_max a_mean].
    split; [|split; [|split]].
    + intros v [= <-]. destruct (a_min d) as [a|]; [now apply A|reflexivity].
    + intros v [= <-]. destruct (a_max d) as [a|]; [now apply B|reflexivity].
    + intros m [= <-]. destruct (a_mean d) as [a|]; [now apply C|apply mv_eq_nanmean].
    + discriminate.
  - cbn [ds cnt]. destruct (ds s) as [d|]; [|exact I]. cbn [option_map].
    destruct HI as (A & B & C & _). unfold Good; cbn [d_vals a_min a_max a_mean].
    split; [|split; [|split]].
    + destruct mn; [discriminate|exact A].
    + destruct mx; [discriminate|exact B].
    + destruct me; [discriminate|exact C].
    + discriminate.
Qed.

Lemma step_vals s o :
  Inv s ->
  vals (step s o)
  = match o with
    | OOpen m => if m =? 2 then [] else vals s
    | OWrite data => if mode s =? 1 then data else vals s ++ data
    | ORaw data => data
    | _ => vals s
    end
  /\ mode (step s o) = match o with OOpen m => m | _ => mode s end.
Proof.
  intros HI. unfold vals. destruct o as [m|data| |mn mx me|raw]; cbn [step];
    [| | | |cbn [ds mode d_vals]; split; reflexivity].
  - cbn [ds mode]. split; [|reflexivity]. now destruct (m =? 2).
  - destruct data as [|x data].
    + cbn [ds mode]. split; [|reflexivity].
      destruct (mode s =? 1); [reflexivity|]. now rewrite app_nil_r.
    + set (old := if mode s =? 1 then None else ds s).
      assert (HO : match old with Some d => Good (cnt s) d | None => True end).
      { subst old. destruct (mode s =? 1); [exact I|exact HI]. }
      pose proof (write_good (cnt s) old (x :: data) HO) as [_ HV].
      destruct (write (cnt s) old (x :: data)) as [d c]. cbn [ds mode fst] in *.
      split; [|reflexivity]. rewrite HV. subst old. now destruct (mode s =? 1).
  - cbn [ds mode]. split; [|reflexivity]. now destruct (ds s).
  - cbn [ds mode]. split; [|reflexivity]. now destruct (ds s).
Qed.

Theorem history_inv : forall ops s, Inv s ->
  Inv (run s ops) /\ vals (run s ops) = spec_vals (mode s) (vals s) ops.
Proof.
  unfold run. induction ops as [|o r IH]; intros s HI; [split; [exact HI|reflexivity]|].
  cbn [fold_left]. destruct (IH (step s o) (step_inv s o HI)) as [I1 I2].
  split; [exact I1|]. rewrite I2. destruct (step_vals s o HI) as [V M]. rewrite V, M.
  destruct o; reflexivity.
Qed.

(* what the feature object reports after any history *)
Theorem reported_summaries ops d :
  ds (run init ops) = Some d ->
  d_vals d = spec_vals 0 [] ops
  /\ rep_min d = nanmin_l (d_vals d)
  /\ rep_max d = nanmax_l (d_vals d)
  /\ mv_eq (rep_mean d) (nanmean_l (d_vals d)).
Proof.
  intros Hd. destruct (history_inv ops init I) as [HI HV].
  unfold Inv, vals in *. rewrite Hd in *. destruct HI as (A & B & C & _).
  split; [exact HV|]. unfold rep_min, rep_max, rep_mean.
  split; [|split].
  - destruct (a_min d) as [a|]; [now apply A|reflexivity].
  - destruct (a_max d) as [a|]; [now apply B|reflexivity].
  - destruct (a_mean d) as [a|]; [now apply C|apply mv_eq_nanmean].
Qed.

(* stored attributes themselves (what rtdc_copy, join, export pass on) *)
Theorem stored_summaries ops d :
  ds (run init ops) = Some d ->
  (forall v, a_min d = Some v -> v = nanmin_l (spec_vals 0 [] ops))
  /\ (forall v, a_max d = Some v -> v = nanmax_l (spec_vals 0 [] ops))
  /\ (forall m, a_mean d = Some m -> mv_eq m (nanmean_l (spec_vals 0 [] ops))).
Proof.
  intros Hd. destruct (history_inv ops init I) as [HI HV].
  unfold Inv, vals in *. rewrite Hd in *. destruct HI as (A & B & C & _).
  change (d_vals d = spec_vals 0 [] ops) in HV. rewrite <- HV. auto.
Qed.

(* the update before the repair (weights offset and data.size) is wrong as soon
   as a NaN was written: [1, NaN, NaN] then [3] gives 1.5 instead of 2 *)
Theorem old_mean_refuted :
  exists old data,
    ~ mv_eq (old_mean_update (nanmean_l old) old data) (nanmean_l (old ++ data)).
Proof.
  exists [Fin 8; NaN; NaN], [Fin 24]. vm_compute. intros (_ & _ & H). discriminate.
Qed.

(* ---- non-vacuity --------------------------------------------------------------------- *)
Example c20_nonvacuous :
  let ops := [OOpen 2; OWrite [NaN; NaN]; OWrite [Fin 8; NaN; PInf]; OOpen 0; OWrite [Fin 24];
              ODrop true false false; OOpen 0; OWrite [NInf; Fin (-16)]; OCopy;
              OOpen 1; OWrite [Fin 8; NaN; NaN]; OOpen 0; OWrite [Fin 24]; OWrite [NaN]] in
  exists d p q, ds (run init ops) = Some d
            /\ d_vals d = [Fin 8; NaN; NaN; Fin 24; NaN]
            /\ a_mean d = Some (MFin p q) /\ p * 2 = 32 * q /\ q <> 0
            /\ rep_min d = Fin 8 /\ rep_max d = Fin 24.
Proof. eexists; eexists; eexists. vm_compute. repeat split; discriminate. Qed.

Example c20_nonvacuous_mean :
  let ops := [OOpen 2; OWrite [Fin 8; NaN; NaN]; OWrite [Fin 24]; OOpen 0; OWrite [NaN];
              OWrite [Fin 40; Fin 8]] in
  exists d p q, ds (run init ops) = Some d /\ a_mean d = Some (MFin p q)
                /\ p * 4 = 80 * q /\ q <> 0.
Proof. eexists; eexists; eexists. vm_compute. repeat split; discriminate. Qed.

(* ---- hierarchy children across refreshes ---------------------------------------------- *)
Definition OGood (s : hstate) (o : cobj) : Prop :=
  let sel := select (h_filt s) (h_vals s) in
  (forall a, o_arr o = Some a -> a = sel)
  /\ (forall v, o_min o = Some v -> v = nanmin_l sel)
  /\ (forall v, o_max o = Some v -> v = nanmax_l sel)
  /\ (forall m, o_mean o = Some m -> m = nanmean_l sel).

(* while the parent's filter is unchanged since the last refresh, the object
   held by the child describes the current selection *)
Definition HInv (s : hstate) : Prop :=
  h_changed s = false -> match h_obj s with Some o => OGood s o | None => True end.

Lemma hquery_good s w :
  HInv s -> h_changed s = false ->
  fst (hquery s w) = spec_q (h_filt s) (h_vals s) w /\ OGood s (snd (hquery s w)).
Proof.
  intros HI Hc. specialize (HI Hc). unfold hquery, spec_q.
  set (o := match h_obj s with Some o => o | None => new_cobj end).
  assert (HO : OGood s o).
  { subst o. destruct (h_obj s); [exact HI|]. repeat split; discriminate. }
  destruct HO as (A & B & C & D).
  set (sel := select (h_filt s) (h_vals s)) in *.
  cbv zeta in A, B, C, D.
  assert (Harr : match o_arr o with Some a => a | None => sel end = sel).
  { destruct (o_arr o) as [a|]; [now apply A|reflexivity]. }
  rewrite Harr.
  assert (Hfin : forall o', 
            (forall a, o_arr o' = Some a -> a = sel) ->
            (forall v, o_min o' = Some v -> v = nanmin_l sel) ->
            (forall v, o_max o' = Some v -> v = nanmax_l sel) ->
            (forall m, o_mean o' = Some m -> m = nanmean_l sel) -> OGood s o').
  { intros o' H1 H2 H3 H4. unfold OGood. fold sel. auto. }
  destruct (w =? 0); [|destruct (w =? 1)].
  - case_eq (o_min o); [intros v E|intros E]; cbn [fst snd].
    + split; [now rewrite (B v E)|]. now apply Hfin.
    + split; [reflexivity|]. apply Hfin; cbn; auto; intros ? [= <-]; reflexivity.
  - case_eq (o_max o); [intros v E|intros E]; cbn [fst snd].
    + split; [now rewrite (C v E)|]. now apply Hfin.
    + split; [reflexivity|]. apply Hfin; cbn; auto; intros ? [= <-]; reflexivity.
  - case_eq (o_mean o); [intros m E|intros E]; cbn [fst snd].
    + split; [now rewrite (D m E)|]. now apply Hfin.
    + split; [reflexivity|]. apply Hfin; cbn; auto; intros ? [= <-]; reflexivity.
Qed.

Lemma hstep_inv s o : HInv s -> HInv (hstep s o).
Proof.
  intros HI. destruct o as [f| |w|]; unfold HInv; cbn [hstep h_changed h_obj].
  - discriminate.
  - intros _. exact I.
  - intros Hc. destruct (hquery_good s w HI Hc) as [_ G]. exact G.
  - intros Hc. specialize (HI Hc).
    set (o := match h_obj s with Some o => o | None => new_cobj end).
    assert (HO : OGood s o).
    { subst o. destruct (h_obj s); [exact HI|]. repeat split; discriminate. }
    destruct HO as (A & B & C & D). unfold OGood in *. cbn [o_arr o_min o_max o_mean h_filt h_vals].
    split; [|auto]. intros a [= <-]. case_eq (o_arr o); [intros a E; now apply A|reflexivity].
Qed.

Lemma hrun_inv ops : forall s, HInv s -> HInv (hrun s ops).
Proof.
  unfold hrun. induction ops as [|o r IH]; intros s HI; [exact HI|].
  cbn [fold_left]. apply IH, hstep_inv, HI.
Qed.

Lemma hinit_inv vals : HInv (hinit vals).
Proof. intros _. exact I. Qed.

(* after any history of filter changes, refreshes and queries: a query made
   while the child is up to date returns the summary of the selected events *)
Theorem child_fresh vals ops w :
  let s := hrun (hinit vals) ops in
  h_changed s = false ->
  fst (hquery s w) = spec_q (h_filt s) (h_vals s) w.
Proof.
  cbv zeta. intros Hc.
  apply (hquery_good _ w (hrun_inv ops _ (hinit_inv vals)) Hc).
Qed.

(* every query of a history that was made in an up-to-date state is right *)
Fixpoint spec_out (s : hstate) (ops : list hop) : list (bool * qres) :=
  match ops with
  | [] => []
  | HQuery w :: r => (negb (h_changed s), spec_q (h_filt s) (h_vals s) w)
                     :: spec_out (hstep s (HQuery w)) r
  | o :: r => spec_out (hstep s o) r
  end.

Theorem child_history ops : forall s, HInv s ->
  Forall2 (fun a b : bool * qres => fst a = fst b /\ (fst a = true -> snd a = snd b))
          (hrun_out s ops) (spec_out s ops).
Proof.
  induction ops as [|o r IH]; intros s HI; [constructor|].
  destruct o as [f| |w|]; cbn [hrun_out spec_out].
  - apply IH, (hstep_inv s (HFilter f)), HI.
  - apply IH, (hstep_inv s HRefresh), HI.
  - constructor; [|apply IH, (hstep_inv s (HQuery w)), HI].
    cbn [fst snd]. split; [reflexivity|]. intros Hc.
    apply (hquery_good s w HI). now destruct (h_changed s).
  - apply IH, (hstep_inv s HRead), HI.
Qed.

(* ---- features of mapped basins: reads and queries in any order ------------------------ *)
Lemma select_all {A} (l : list A) : select (map (fun _ => true) l) l = l.
Proof. induction l as [|x l IH]; simpl; [reflexivity|now rewrite IH]. Qed.

Lemma rq_frame ops : forall s, forallb is_rq ops = true ->
  h_vals (hrun s ops) = h_vals s /\ h_filt (hrun s ops) = h_filt s
  /\ h_changed (hrun s ops) = h_changed s.
Proof.
  unfold hrun. induction ops as [|o r IH]; intros s H; [auto|].
  cbn [forallb] in H. apply andb_prop in H as [Ho Hr]. cbn [fold_left].
  destruct (IH (hstep s o) Hr) as (A & B & C). rewrite A, B, C.
  destruct o; try discriminate; auto.
Qed.

(* whatever the basin map (identity, subset, repeats, permutation, ...) and
   whatever the order of reading the data and asking for summaries: every
   summary is that of the mapped events *)
Theorem basin_history bm vals ops w :
  forallb is_rq ops = true ->
  fst (hquery (hrun (binit bm vals) ops) w) = spec_b bm vals w.
Proof.
  intros H. destruct (rq_frame ops (binit bm vals) H) as (A & B & C).
  pose proof (child_fresh (mapped bm vals) ops w) as HF. cbv zeta in HF.
  unfold binit in *. rewrite HF by (rewrite C; reflexivity).
  rewrite A, B. unfold spec_q, spec_b. cbn [hinit h_vals h_filt].
  now rewrite select_all.
Qed.

Example c20_basin_nonvacuous :
  let vals := [Fin 8; NaN; Fin 24; Fin (-8); PInf; Fin 16] in
  let bm := [0; 4; 4; 4; 1; 5] in
  hrun_out (binit bm vals) [HQuery 1; HRead; HQuery 0; HQuery 2; HQuery 1]
  = [(true, QF PInf); (true, QF (Fin 8)); (true, QM MPInf); (true, QF PInf)]
  /\ nanmax_l vals = PInf /\ nanmin_l vals = Fin (-8)
  /\ hrun_out (binit [0; 1; 1; 3; 3; 5] vals) [HQuery 0] = [(true, QF (Fin (-8)))]
  /\ hrun_out (binit [0; 1; 1; 2; 2; 5] vals) [HQuery 0] = [(true, QF (Fin 8))].
Proof. vm_compute. repeat split. Qed.

Example c20_child_nonvacuous :
  let vals := [Fin 8; NaN; Fin 24; Fin (-8); PInf] in
  let ops := [HQuery 0; HFilter [true; true; false; false; true]; HQuery 0; HRefresh;
              HQuery 0; HQuery 2; HFilter [false; true; true; true; false]; HRefresh;
              HQuery 1; HQuery 2] in
  hrun_out (hinit vals) ops
  = [(true, QF (Fin (-8))); (false, QF (Fin (-8))); (true, QF (Fin 8)); (true, QM MPInf);
     (true, QF (Fin 24)); (true, QM (MFin 16 2))]
  /\ h_changed (hrun (hinit vals) ops) = false.
Proof. vm_compute. repeat split. Qed.

(* ---- chunk-wise reduction ----------------------------------------------------------------- *)
Lemma chunk_min_ok chunks : chunk_min chunks = nanmin_l (concat chunks).
Proof.
  unfold chunk_min. induction chunks as [|c r IH]; [reflexivity|].
  cbn [map concat]. rewrite nanmin_l_app, <- IH. reflexivity.
Qed.

Lemma chunk_max_ok chunks : chunk_max chunks = nanmax_l (concat chunks).
Proof.
  unfold chunk_max. induction chunks as [|c r IH]; [reflexivity|].
  cbn [map concat]. rewrite nanmax_l_app, <- IH. reflexivity.
Qed.

Lemma nanmean_all_nan l : count_valid l = 0 -> nanmean_l l = MNaN.
Proof. intros H. unfold nanmean_l. now rewrite H. Qed.

Lemma wmean_fold chunks : forall a m,
  (count_valid a = 0 -> m = MNaN) ->
  (0 < count_valid a -> mv_eq m (nanmean_l a)) ->
  let r := fold_left wmean_step chunks (m, count_valid a) in
  snd r = count_valid (a ++ concat chunks)
  /\ (count_valid (a ++ concat chunks) = 0 -> fst r = MNaN)
  /\ (0 < count_valid (a ++ concat chunks) -> mv_eq (fst r) (nanmean_l (a ++ concat chunks))).
Proof.
  induction chunks as [|c r IH]; intros a m H0 H1; cbv zeta.
  - cbn [fold_left concat fst snd]. rewrite app_nil_r. auto.
  - cbn [fold_left concat]. rewrite app_assoc.
    pose proof (count_valid_nonneg a) as Pa. pose proof (count_valid_nonneg c) as Pc.
    assert (Hs : wmean_step (m, count_valid a) c
                 = if count_valid c =? 0 then (m, count_valid a)
                   else if count_valid a =? 0 then (nanmean_l c, count_valid c)
                   else (mdiv (madd (mscale m (count_valid a))
                                    (mscale (nanmean_l c) (count_valid c)))
                              (count_valid a + count_valid c),
                         count_valid a + count_valid c)) by reflexivity.
    rewrite Hs. clear Hs.
    destruct (count_valid c =? 0) eqn:Ec.
    + replace (count_valid a) with (count_valid (a ++ c)) by (rewrite count_valid_app; lia).
      apply IH.
      * rewrite count_valid_app. intros H. apply H0. lia.
      * rewrite count_valid_app. intros H. rewrite nanmean_app_nan_r by lia. apply H1. lia.
    + destruct (count_valid a =? 0) eqn:Ea.
      * replace (count_valid c) with (count_valid (a ++ c)) by (rewrite count_valid_app; lia).
        apply IH.
        -- rewrite count_valid_app. intros H. lia.
        -- intros _. rewrite nanmean_app_nan_l by lia. apply mv_eq_nanmean.
      * replace (count_valid a + count_valid c) with (count_valid (a ++ c))
          by (rewrite count_valid_app; lia).
        apply IH.
        -- rewrite count_valid_app. intros H. lia.
        -- intros _. rewrite count_valid_app. apply mean_update; [lia|lia|apply H1; lia].
Qed.

(* the weighted chunk-wise mean is the mean of the data *)
Theorem chunk_mean_weighted_ok chunks :
  mv_eq (chunk_mean_weighted chunks) (nanmean_l (concat chunks)).
Proof.
  unfold chunk_mean_weighted.
  destruct (wmean_fold chunks [] MNaN (fun _ => eq_refl)) as (_ & B & C).
  { cbn. lia. }
  cbn [app] in *. change (count_valid []) with 0 in *.
  pose proof (count_valid_nonneg (concat chunks)) as P.
  destruct (Z.eq_dec (count_valid (concat chunks)) 0) as [E|E].
  - rewrite (B E), (nanmean_all_nan _ E). exact I.
  - apply C. lia.
Qed.

(* the unweighted mean of the chunk means is not: chunks [1, 2, 3] and [5] *)
Theorem chunk_mean_unweighted_refuted :
  exists chunks, ~ mv_eq (chunk_mean_unweighted chunks) (nanmean_l (concat chunks)).
Proof.
  exists [[Fin 8; Fin 16; Fin 24]; [Fin 40]]. vm_compute. intros (_ & _ & H). discriminate.
Qed.

Example c20_chunks_nonvacuous :
  let chunks := [[Fin 8; NaN; Fin 24]; [NaN; NaN]; [Fin 40; PInf; NInf]; [Fin 16]] in
  chunk_min chunks = NInf /\ chunk_max chunks = PInf /\ chunk_mean_weighted chunks = MNaN
  /\ chunk_mean_weighted [[Fin 8; Fin 16; Fin 24]; [NaN]; [Fin 40]] = MFin 264 12
  /\ chunk_mean_unweighted [[Fin 8; Fin 16; Fin 24]; [NaN]; [Fin 40]] = MFin 168 6.
Proof. vm_compute. repeat split. Qed.
