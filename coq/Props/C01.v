(* C01 — data written through the writer API is read back exactly.
   Property theorems only; each is closed by [exact] of a lemma proved in
   Proofs/C01.v and followed by Print Assumptions. *)
From Coq Require Import ZArith List Bool.
From Verif Require Import Common.ListIdx Model.C01 Proofs.C01.
Import ListNotations.
Open Scope Z_scope.

(* write_ndarray, n-d branch (resize, loop over full chunks, remainder): for
   every chunk size > 0 the dataset afterwards holds the old events followed
   by the new ones — every event written exactly once, none beyond. *)
Theorem C01_write_nd_appends :
  forall (csb : Z) (old : option nd) (shape : list Z) (itemsize : Z) (dt0 : ndt)
         (data : list row),
    match old with Some d => 0 < nd_chunk d | None => True end ->
    nd_rows (write_nd csb old shape itemsize dt0 data)
    = match old with Some d => nd_rows d | None => [] end ++ data.
Proof. exact write_nd_appends. Qed.
Print Assumptions C01_write_nd_appends.

(* Every history of writer calls (any modes, reopen points, chunk settings,
   interleaving): an image-like or user-shaped feature reads back as the
   concatenation of what was written to it since the last replace/reset (masks
   as booleans; arrays in their single-event and many-event forms).
   The full statement is refuted: the dtype of an n-d dataset is frozen by the
   first array (or forced: uint8 images, float32 qpi) and later values it
   cannot hold are converted (finding C01-nd-dtype-frozen; float32 rounds to 24
   significant bits); it holds when every value written TO THAT FEATURE fits
   the dataset that receives it (the guards are per object: what happens to
   other features, traces or logs of the history does not matter). *)
Theorem C01_nd_history_refuted :
  exists (ops : list op) (f : Z),
    rd_nd (st_f (run init ops)) f <> spec_nd f 0 [] ops.
Proof. exact nd_history_refuted. Qed.
Print Assumptions C01_nd_history_refuted.

Theorem C01_nd_history_partial :
  forall (f : Z) (ops : list op),
    hist_ok_nd f init ops = true ->
    rd_nd (st_f (run init ops)) f = spec_nd f 0 [] ops.
Proof. exact nd_history_init. Qed.
Print Assumptions C01_nd_history_partial.

Theorem C01_trace_history_refuted :
  exists (ops : list op) (tr : Z),
    rd_trace (st_f (run init ops)) tr <> spec_trace tr 0 [] ops.
Proof. exact trace_history_refuted. Qed.
Print Assumptions C01_trace_history_refuted.

Theorem C01_trace_history_partial :
  forall (tr : Z) (ops : list op),
    hist_ok_trace tr init ops = true ->
    rd_trace (st_f (run init ops)) tr = spec_trace tr 0 [] ops.
Proof. exact trace_history_init. Qed.
Print Assumptions C01_trace_history_partial.

(* Contour k is stored under the name str(k) across appends, reopen, replace
   and reset: reading events 0..N-1 by name returns the written contours. *)
Theorem C01_contour_history :
  forall ops : list op,
    rd_contour (st_f (run init ops)) = map Some (spec_contour 0 [] ops).
Proof. exact contour_history_init. Qed.
Print Assumptions C01_contour_history.

(* The index feature enumerates 1..N for every history (N < 2^32: uint32). *)
Theorem C01_index_enumerates :
  forall ops : list op,
    index_ok 0 0 ops = true ->
    rd_scalar (st_f (run init ops)) F_INDEX = enumerate_from_1 (spec_index_len 0 0 ops).
Proof. exact index_history_init. Qed.
Print Assumptions C01_index_enumerates.

(* Scalar features: full statement refuted (the dtype is frozen by the first
   array: C01-dtype-frozen); it holds when every value fits the dataset. *)
Theorem C01_scalar_history_refuted :
  exists (ops : list op) (f : Z),
    f <> F_INDEX /\ rd_scalar (st_f (run init ops)) f <> spec_scalar f 0 [] ops.
Proof. exact scalar_history_refuted. Qed.
Print Assumptions C01_scalar_history_refuted.

Theorem C01_scalar_history_partial :
  forall (f : Z) (ops : list op),
    f <> F_INDEX -> hist_ok_scalar f init ops = true ->
    rd_scalar (st_f (run init ops)) f = spec_scalar f 0 [] ops.
Proof. exact scalar_history_init. Qed.
Print Assumptions C01_scalar_history_partial.

(* Logs: full statement refuted (C01-log-truncated); it holds when no line
   appended to an existing log exceeds the width frozen at its creation. *)
Theorem C01_log_history_refuted :
  exists (ops : list op) (name : Z),
    rd_log (st_f (run init ops)) name <> spec_log name 0 [] ops.
Proof. exact log_history_refuted. Qed.
Print Assumptions C01_log_history_refuted.

Theorem C01_log_history_partial :
  forall (name : Z) (ops : list op),
    hist_ok_log name init ops = true ->
    rd_log (st_f (run init ops)) name = spec_log name 0 [] ops.
Proof. exact log_history_init. Qed.
Print Assumptions C01_log_history_partial.

Theorem C01_table_history :
  forall (name : Z) (ops : list op),
    rd_table (st_f (run init ops)) name = spec_table name None ops.
Proof. exact table_history_init. Qed.
Print Assumptions C01_table_history.

(* rectify_metadata: when all stored features hold n events (each trace of
   the trace group; an empty trace group counts as a feature without events)
   the event count written on exit is n ... *)
Theorem C01_event_count_matches :
  forall (s : file) (n : Z),
    Balanced s n -> feats_sorted s <> [] ->
    rd_attr (rectify_metadata s) M_EVENT_COUNT = Some n.
Proof. exact event_count_matches. Qed.
Print Assumptions C01_event_count_matches.

(* ... hence for every history that leaves such a file, closing the writer
   stores the event count n. *)
Theorem C01_event_count_history :
  forall (ops : list op) (n : Z),
    Balanced (st_f (run init ops)) n -> feats_sorted (st_f (run init ops)) <> [] ->
    rd_attr (st_f (run init (ops ++ [OClose]))) M_EVENT_COUNT = Some n.
Proof. exact event_count_history. Qed.
Print Assumptions C01_event_count_history.

(* Metadata keys the writer does not auto-complete (everything but event
   count, roi size, samples per event, channel count) read back as the last
   value given to store_metadata since the last reset, for every history.
   (The conversion to the documented type is C11's subject.) *)
Theorem C01_meta_history :
  forall (k : Z) (ops : list op),
    auto_key k = false ->
    rd_attr (st_f (run init ops)) k = spec_meta k None ops.
Proof. exact meta_history_init. Qed.
Print Assumptions C01_meta_history.

(* The same from what the readers return: if every stored feature reads back n
   events (lengths that C01_*_history equate with the lengths written since the
   last replace/reset) the event count stored on exit is n. *)
Theorem C01_event_count_readers :
  forall (ops : list op) (n : Z),
    ReadersBalanced (st_f (run init ops)) n -> feats_sorted (st_f (run init ops)) <> [] ->
    rd_attr (st_f (run init (ops ++ [OClose]))) M_EVENT_COUNT = Some n.
Proof. exact event_count_readers. Qed.
Print Assumptions C01_event_count_readers.
