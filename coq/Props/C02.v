(* C02 — HDF5/TSV export contains exactly the selected events and features.
   Property theorems only; each is closed by [exact] of a lemma proved in
   Proofs/C02.v and followed by Print Assumptions. *)
From Coq Require Import ZArith List Bool.
From Verif Require Import Common.ListIdx Model.C02 Proofs.C02 Proofs.C02_export.
Import ListNotations.
Open Scope Z_scope.

(* The export chunk size is never below 10, whatever CHUNK_SIZE_BYTES and the
   event size are (so the stack theorems below apply to every configuration). *)
Theorem C02_chunk_size_at_least_10 : forall cfg esize, 10 <= best_chunk cfg esize.
Proof. exact best_chunk_ge10. Qed.
Print Assumptions C02_chunk_size_at_least_10.

(* yield_filtered_array_stacks, sliceable route: for every chunk size c > 0,
   every data and every index list (any order, duplicates allowed) the
   concatenated stacks are data[indices]: order kept, nothing dropped, nothing
   duplicated, for any event type A. *)
Theorem C02_stacks_concat_fast :
  forall (A : Type) (d : A) (c : Z) (data : list A), 0 < c ->
    forall idx : list Z, concat (stacks_fast d c data idx) = take d data idx.
Proof. exact @stacks_fast_concat. Qed.
Print Assumptions C02_stacks_concat_fast.

(* ... event-wise route with its reused buffer (z = what np.zeros puts there) *)
Theorem C02_stacks_concat_slow :
  forall (A : Type) (d z : A) (c : Z) (data : list A), 0 < c ->
    forall idx : list Z, concat (stacks_slow d z c data idx) = take d data idx.
Proof. exact @stacks_slow_concat. Qed.
Print Assumptions C02_stacks_concat_slow.

(* No stack is empty (the writer rejects empty data) or longer than c. *)
Theorem C02_stacks_nonempty_bounded :
  forall (A : Type) (d z : A) (c : Z) (data : list A), 0 < c ->
    forall idx : list Z,
      Forall (fun ch => 0 < len ch <= c) (stacks_fast d c data idx)
      /\ Forall (fun ch => 0 < len ch <= c) (stacks_slow d z c data idx).
Proof. exact @stacks_chunks. Qed.
Print Assumptions C02_stacks_nonempty_bounded.

(* np.where(filter)[0]: exactly the positions holding True, strictly
   increasing (original order, each once), count = number of True, in range. *)
Theorem C02_where_selects_true_positions :
  forall f : list bool,
    (forall j, In j (where_ f) <-> 0 <= j /\ nth (Z.to_nat j) f false = true)
    /\ increasing (where_ f)
    /\ len (where_ f) = count_true f
    /\ (forall j, In j (where_ f) -> 0 <= j < len f).
Proof. exact where_full_spec. Qed.
Print Assumptions C02_where_selects_true_positions.

(* Scalar features use boolean-mask indexing; it selects the same events. *)
Theorem C02_mask_select_is_take_where :
  forall (A : Type) (d : A) (data : list A) (f : list bool),
    (length f <= length data)%nat ->
    mask_select data f = take d data (where_ f).
Proof. exact @mask_select_take. Qed.
Print Assumptions C02_mask_select_is_take_where.

(* Truncation to the shortest feature (filter_arr[l_min:] = False) keeps
   exactly the selected events below l_min. *)
Theorem C02_truncation_keeps_events_below_lmin :
  forall (lmin : Z) (f : list bool), 0 <= lmin ->
    where_ (trunc lmin f) = filter (fun j => j <? lmin) (where_ f)
    /\ length (trunc lmin f) = length f.
Proof. exact trunc_spec. Qed.
Print Assumptions C02_truncation_keeps_events_below_lmin.

(* sorted(set(features)): duplicates and order of the request are harmless. *)
Theorem C02_feature_list_sorted_without_duplicates :
  forall l : list Z,
    increasing (sortset l) /\ NoDup (sortset l)
    /\ forall x, In x (sortset l) <-> In x l.
Proof. exact sortset_spec. Qed.
Print Assumptions C02_feature_list_sorted_without_duplicates.

(* store_filtered_feature: whenever it succeeds, the file holds for every
   array of the feature exactly data[np.where(filtarr)[0]] (for "index": the
   enumeration 1..k), for every feature kind, both stack routes and every
   chunk configuration. *)
Theorem C02_store_filtered_selects :
  forall (A : Type) (d z : A) (enum : Z -> A) (cfg : Z) (f : feat A)
         (filt : list bool) (calls : list (call A)),
    NoDup (map p_key (f_parts f)) ->
    store_filtered A d z enum cfg f filt = Ok calls ->
    forall p, In p (f_parts f) ->
      content A calls (f_name f) (p_key p)
      = match f_kind f with
        | KIndex => map enum (zrange 1 (Z.to_nat (count_true filt)))
        | _ => take d (p_data p) (where_ filt)
        end.
Proof. exact store_filtered_selects. Qed.
Print Assumptions C02_store_filtered_selects.

(* Export.hdf5: whenever the export succeeds, for every requested feature and
   each of its arrays the file holds exactly the events selected by the filter
   (all events when filtering is off) that exist in the array, limited to the
   shortest requested feature when the length check is on - in original order,
   unchanged, each once; the "index" feature is re-enumerated; nothing else is
   stored; and the event count is the number of exported events.  Hypotheses:
   feature names and trace names are unique, the filter has len(ds) entries
   and no array is longer than the dataset. *)
Theorem C02_export_selects :
  forall (A : Type) (d z : A) (enum : Z -> A) (cfg : Z) (ds : dset A)
         (filt : list bool) (filtered skip : bool) (req : list Z)
         (calls : list (call A)) (cnt : Z),
    wf_ds A ds -> len filt = ds_len ds ->
    export A d z enum cfg ds filt filtered skip req = Ok (calls, cnt) ->
    exists fs,
      lookup_all A ds (sortset req) = Ok fs
      /\ map f_name fs = sortset req
      /\ (forall f p, In f fs -> In p (f_parts f) ->
            content A calls (f_name f) (p_key p)
            = spec_content A d enum filtered filt (spec_lim A skip fs)
                           (f_kind f) (p_data p))
      /\ (forall n k, ~ In n (sortset req) -> content A calls n k = [])
      /\ (calls <> [] -> exists f p, In f fs /\ In p (f_parts f)
            /\ cnt = len (content A calls (f_name f) (p_key p)))
      /\ (calls = [] ->
            cnt = match filter_arr A ds filt filtered skip fs with
                  | Some fl => count_true fl
                  | None => ds_count ds
                  end).
Proof. exact export_selects. Qed.
Print Assumptions C02_export_selects.

(* The export does not always succeed: a sliceable source that rejects array
   indexing (hierarchy child of a tdms dataset; tdms images on the unfiltered
   path) raises NotImplementedError (Err 1), and features that are all shorter
   than the dataset raise IndexError (Err 2).  [findings
   C02-nonsliceable-source and C02-short-features-indexerror; the guarded
   positive statement is C02_export_selects: whenever export returns, the
   content is right] *)
Theorem C02_export_total_refuted :
  (exists (ds : dset Z) filt req,
      wf_ds Z ds /\ len filt = ds_len ds /\
      export Z 0 0 (fun k => k) 1 ds filt true false req = Err 1)
  /\ (exists (ds : dset Z) filt req,
      wf_ds Z ds /\ len filt = ds_len ds /\
      export Z 0 0 (fun k => k) 1 ds filt true false req = Err 2).
Proof. exact export_total_refuted. Qed.
Print Assumptions C02_export_total_refuted.

(* Export.tsv: the columns are the requested scalar features in sorted order
   without duplicates, each holding data[np.where(filter)[0]] (all events when
   filtering is off); row r, column j of the table is column j's r-th value. *)
Theorem C02_tsv_rows :
  forall (A : Type) (d : A) (ds : dset A) (filt : list bool) (filtered : bool)
         (req : list Z) (rows : list (list A)),
    tsv_rows A d ds filt filtered req = Ok rows ->
    exists cols,
      tsv_cols A ds filt filtered req = Ok cols
      /\ rows = transpose A d cols
      /\ Forall2 (fun n col =>
            exists f p, lookup A n (ds_feats ds) = Some f /\ f_parts f = [p]
              /\ (f_kind f = KScalar \/ f_kind f = KIndex)
              /\ col = if filtered then take d (p_data p) (where_ filt)
                       else p_data p) (sortset req) cols
      /\ (forall r j, (r < length (nth 0 cols []))%nat -> (j < length cols)%nat ->
            nth j (nth r rows []) d = nth r (nth j cols []) d).
Proof. exact tsv_rows_spec. Qed.
Print Assumptions C02_tsv_rows.

(* Outside the known failure classes the export does return (no exception):
   all requested features exist; scalars have len(ds) events while n-d
   features (image, mask, contour, trace, temporary) may be SHORTER (aborted
   acquisition); with the length check on, some requested array spans the whole
   dataset (without the check all do); image-like sources accept array indices
   unless they are integer-only sources of a non-hdf5 dataset exported with
   filtering (the event-wise route). *)
Theorem C02_export_total_partial :
  forall (A : Type) (d z : A) (enum : Z -> A) (cfg : Z) (ds : dset A)
         (filt : list bool) (filtered skip : bool) (req : list Z),
    len filt = ds_len ds ->
    export_guard A ds filtered skip req = true ->
    exists calls cnt,
      export A d z enum cfg ds filt filtered skip req = Ok (calls, cnt).
Proof. exact export_total_partial. Qed.
Print Assumptions C02_export_total_partial.

(* With the length check on (skip_checks off), whenever the export returns,
   ALL stored arrays of ALL exported features hold the same number of events,
   and that number is the event count: the number of selected events below the
   common length (filtered), or the common length (unfiltered). *)
Theorem C02_export_uniform_count :
  forall (A : Type) (d z : A) (enum : Z -> A) (cfg : Z) (ds : dset A)
         (filt : list bool) (filtered : bool) (req : list Z)
         (calls : list (call A)) (cnt : Z),
    wf_ds A ds -> len filt = ds_len ds ->
    export A d z enum cfg ds filt filtered false req = Ok (calls, cnt) ->
    exists fs,
      lookup_all A ds (sortset req) = Ok fs
      /\ (forall f p, In f fs -> In p (f_parts f) ->
            len (content A calls (f_name f) (p_key p))
            = spec_count filtered filt (spec_lim A false fs))
      /\ (calls <> [] -> cnt = spec_count filtered filt (spec_lim A false fs)).
Proof. exact export_uniform. Qed.
Print Assumptions C02_export_uniform_count.

(* Default feature list and metadata: the stored event count is the export's
   count; the run identifier is "<measurement identifier>-<suffix>" when
   filtered and unchanged otherwise; the sample name is unchanged; with
   features=None only innate features are written (basin features are left to
   the basins); with features=[] nothing is written and the count is the number
   of selected events.  uuid4 is the oracle value rnd.  (The basins flag is not
   an argument of anything written: export_full ignores it by construction.) *)
Theorem C02_export_meta_spec :
  forall (A : Type) (d z : A) (enum : Z -> A) (rnd cfg : Z) (pre : Z -> Z)
         (f0 : tfile)
         (ds : dset A) (innate : list Z) (sm : smeta) (filt : list bool)
         (filtered skip logs tables basins : bool) (features : option (list Z))
         (calls : list (call A)) (om : ometa),
    wf_ds A ds -> len filt = ds_len ds ->
    export_full A d z enum rnd cfg pre f0 ds innate sm filt filtered skip logs
                tables basins features = Ok (calls, om) ->
    exists cnt,
      export A d z enum cfg ds filt filtered skip (req_features features innate)
      = Ok (calls, cnt)
      /\ om_count om = cnt
      /\ (filtered = true -> om_runid om = Some (meas_id sm, Some rnd))
      /\ (filtered = false ->
            om_runid om = match sm_runid sm with
                          | Some r => Some (Some r, None)
                          | None => None
                          end)
      /\ om_sample om = sm_sample sm
      /\ (features = None -> forall n k, ~ In n innate -> content A calls n k = [])
      /\ (features = Some [] ->
            calls = [] /\ cnt = if filtered then count_true filt else ds_count ds).
Proof. exact export_meta_spec. Qed.
Print Assumptions C02_export_meta_spec.

(* Logs and tables.  Logs go through the model of RTDCWriter.write_text (a
   line = its UTF-8 bytes, fixed width max(100, longest line of the creating
   call), lines cut to the width of an existing dataset): with distinct source
   names, an injective prefixing and no prefixed name in the file before
   ([f0] = the export's own log), every source log is found under its prefixed
   name with exactly its lines - no line is cut, whatever its length -, every
   other name keeps what it held, and the file is untouched when the flag is
   off.  Tables (one dataset per table): found under the prefixed name with
   exactly their rows, nothing else, nothing when the flag is off. *)
Theorem C02_export_logs_tables_carried :
  forall (A : Type) (d z : A) (enum : Z -> A) (rnd cfg : Z) (pre : Z -> Z)
         (f0 : tfile)
         (ds : dset A) (innate : list Z) (sm : smeta) (filt : list bool)
         (filtered skip logs tables basins : bool) (features : option (list Z))
         (calls : list (call A)) (om : ometa),
    export_full A d z enum rnd cfg pre f0 ds innate sm filt filtered skip logs
                tables basins features = Ok (calls, om) ->
    (forall a b, pre a = pre b -> a = b) ->
    (NoDup (map fst (sm_logs sm)) ->
     (forall n, In n (map fst (sm_logs sm)) -> ~ In (pre n) (tnames f0)) ->
       (logs = true -> forall n l, In (n, l) (sm_logs sm) ->
          text_lookup (om_logs om) (pre n) = l)
       /\ (logs = true -> forall m, (forall n, In n (map fst (sm_logs sm)) ->
                                     pre n <> m) ->
          text_lookup (om_logs om) m = text_lookup f0 m)
       /\ (logs = false -> om_logs om = f0))
    /\ (NoDup (map fst (sm_tables sm)) ->
       (tables = true -> forall n l, In (n, l) (sm_tables sm) ->
          text_content (om_tables om) (pre n) = l)
       /\ (tables = true -> forall m, (forall n, In n (map fst (sm_tables sm)) ->
                                       pre n <> m) ->
          text_content (om_tables om) m = [])
       /\ (tables = false -> forall m, text_content (om_tables om) m = [])).
Proof. exact export_texts_spec. Qed.
Print Assumptions C02_export_logs_tables_carried.

(* [definitional: a case split of rectify_chcount, kept because the function
   is compared with rectify_metadata on every export case]
   fluorescence:channel count of the source is carried over whatever subset
   of the fluorescence features is exported; only a missing value is filled in
   with the number of stored fl*_max features. *)
Theorem C02_channel_count_carried :
  forall (src : option Z) (nfl : Z),
    (forall c, src = Some c -> rectify_chcount src nfl = Some c)
    /\ (src = None -> 0 < nfl -> rectify_chcount src nfl = Some nfl)
    /\ (src = None -> nfl <= 0 -> rectify_chcount src nfl = None).
Proof. exact chcount_spec. Qed.
Print Assumptions C02_channel_count_carried.

(* [finding C02-short-scalar-indexerror] a requested scalar feature shorter
   than the dataset makes the export raise IndexError (boolean index of
   len(ds) entries) even though the filter was clipped to the common length;
   C02_export_total_partial therefore demands full-length scalars. *)
Theorem C02_export_short_scalar_refuted :
  exists (ds : dset Z) filt req,
    wf_ds Z ds /\ len filt = ds_len ds /\
    export Z 0 0 (fun k => k) 1 ds filt true false req = Err 2.
Proof. exact export_short_scalar_refuted. Qed.
Print Assumptions C02_export_short_scalar_refuted.

(* [finding C02-image-cast-uint8] image and image_bg are always stored as
   uint8: a pixel value 0..255 survives the export, values above saturate at
   255, negative ones become 0, fractions are cut (uint16 or float sources are
   NOT exported with unchanged values). *)
Theorem C02_image_uint8_partial :
  forall v : Z, 0 <= v <= 255 -> sat8 (8 * v) = v.
Proof. exact sat8_partial. Qed.
Print Assumptions C02_image_uint8_partial.

Theorem C02_image_uint8_refuted :
  (exists v, 255 < v /\ sat8 (8 * v) <> v)
  /\ (exists v, v < 0 /\ sat8 (8 * v) <> v)
  /\ (exists k, k mod 8 <> 0 /\ 8 * sat8 k <> k).
Proof. exact sat8_refuted. Qed.
Print Assumptions C02_image_uint8_refuted.
