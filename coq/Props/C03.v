(* C03 — the combined event filter equals the specification of the current
   settings. Property theorems only; each is closed by [exact] of a lemma
   proved in Proofs/C03.v and followed by Print Assumptions.

   [update/run ... true] is Filter.update with both repairs
   (fixes_proposed/C03-removed-range-keys.diff = 1ad19c0 and
   fixes_proposed/C03-valueerror-before-mutation.diff), [... false] the code
   before the first repair. [err w' = false] says that the application did not
   raise ValueError (C03_apply_raises_iff: it raises exactly when some range
   has only one of its two keys). [hashf] (PolygonFilter.hash) and [choice] (the seeded
   np.random.choice behind "limit events") are oracles: their hypotheses are
   explicit and are checked on the implementation by harness/c03.py. *)
From Coq Require Import ZArith List Bool.
From Verif Require Import Model.C03 Proofs.C03.
Import ListNotations.
Open Scope Z_scope.

(* After ANY history of setting changes and applications (any length, any
   order, including applications that raised), one more application that does
   not raise leaves all four filter arrays equal to the stateless
   specification of the current settings. *)
Theorem C03_filter_history :
  forall (hashf : Z -> bool -> Z) (choice : Z -> Z -> list Z)
         (rows : list row) (feats : list Z),
    (forall v b v' b', hashf v b = hashf v' b' -> v = v' /\ b = b') ->
    forall (reg0 : registry) (ops : list op) (force : list Z),
      let w := run hashf choice rows feats true (init_world rows reg0) ops in
      let w' := update hashf choice rows feats true w force in
      err w' = false ->
      a_all (flt w') = spec_all choice rows feats w /\
      a_box (flt w') = spec_box rows feats w /\
      a_polygon (flt w') = spec_polygon rows w /\
      a_invalid (flt w') = spec_invalid rows feats w.
Proof. exact history_ok. Qed.
Print Assumptions C03_filter_history.

(* An application raises exactly when the current settings hold a range with
   only one of its two keys, whatever happened before. *)
Theorem C03_apply_raises_iff :
  forall (hashf : Z -> bool -> Z) (choice : Z -> Z -> list Z)
         (rows : list row) (feats : list Z),
    (forall v b v' b', hashf v b = hashf v' b' -> v = v' /\ b = b') ->
    forall (reg0 : registry) (ops : list op) (force : list Z),
      let w := run hashf choice rows feats true (init_world rows reg0) ops in
      err (update hashf choice rows feats true w force) = true
      <-> exists f, half_set (rng (cfg w)) f = true.
Proof. exact history_raises. Qed.
Print Assumptions C03_apply_raises_iff.

(* With an event limit set, exactly min(limit, number of qualifying events)
   events remain after any history, and every one of them qualifies. *)
Theorem C03_limit_exact :
  forall (hashf : Z -> bool -> Z) (choice : Z -> Z -> list Z)
         (rows : list row) (feats : list Z),
    (forall v b v' b', hashf v b = hashf v' b' -> v = v' /\ b = b') ->
    forall (reg0 : registry) (ops : list op) (force : list Z),
      (forall m k, 0 < k < m ->
         NoDup (choice m k) /\ Z.of_nat (length (choice m k)) = k /\
         Forall (fun i => 0 <= i < m) (choice m k)) ->
      let w := run hashf choice rows feats true (init_world rows reg0) ops in
      let w' := update hashf choice rows feats true w force in
      err w' = false ->
      enable (cfg w) = true -> 0 < limit (cfg w) ->
      count_true (a_all (flt w'))
      = Z.min (limit (cfg w)) (count_true (spec_qual rows feats w)) /\
      Forall2 (fun a q => a = true -> q = true)
              (a_all (flt w')) (spec_qual rows feats w).
Proof. exact history_limit. Qed.
Print Assumptions C03_limit_exact.

(* Without a limit the selection is exactly the set of qualifying events. *)
Theorem C03_no_limit_all_qualifying :
  forall (hashf : Z -> bool -> Z) (choice : Z -> Z -> list Z)
         (rows : list row) (feats : list Z),
    (forall v b v' b', hashf v b = hashf v' b' -> v = v' /\ b = b') ->
    forall (reg0 : registry) (ops : list op) (force : list Z),
      let w := run hashf choice rows feats true (init_world rows reg0) ops in
      err (update hashf choice rows feats true w force) = false ->
      enable (cfg w) = true -> limit (cfg w) <= 0 ->
      a_all (flt (update hashf choice rows feats true w force))
      = spec_qual rows feats w.
Proof. exact history_no_limit. Qed.
Print Assumptions C03_no_limit_all_qualifying.

(* With filters disabled every event is selected. *)
Theorem C03_disabled_selects_all :
  forall (hashf : Z -> bool -> Z) (choice : Z -> Z -> list Z)
         (rows : list row) (feats : list Z),
    (forall v b v' b', hashf v b = hashf v' b' -> v = v' /\ b = b') ->
    forall (reg0 : registry) (ops : list op) (force : list Z),
      let w := run hashf choice rows feats true (init_world rows reg0) ops in
      err (update hashf choice rows feats true w force) = false ->
      enable (cfg w) = false ->
      a_all (flt (update hashf choice rows feats true w force))
      = map (fun _ => true) rows.
Proof. exact history_disabled. Qed.
Print Assumptions C03_disabled_selects_all.

(* Reproducibility: two histories that end in the same settings select the
   same events, whatever happened before. *)
Theorem C03_selection_depends_on_settings_only :
  forall (hashf : Z -> bool -> Z) (choice : Z -> Z -> list Z)
         (rows : list row) (feats : list Z),
    (forall v b v' b', hashf v b = hashf v' b' -> v = v' /\ b = b') ->
    forall (reg1 : registry) (ops1 : list op) (force1 : list Z)
           (reg2 : registry) (ops2 : list op) (force2 : list Z),
      let w1 := run hashf choice rows feats true (init_world rows reg1) ops1 in
      let w2 := run hashf choice rows feats true (init_world rows reg2) ops2 in
      cfg w1 = cfg w2 -> reg w1 = reg w2 -> manual (flt w1) = manual (flt w2) ->
      err (update hashf choice rows feats true w1 force1) = false ->
      err (update hashf choice rows feats true w2 force2) = false ->
      a_all (flt (update hashf choice rows feats true w1 force1))
      = a_all (flt (update hashf choice rows feats true w2 force2)).
Proof. exact history_reproducible. Qed.
Print Assumptions C03_selection_depends_on_settings_only.

(* The specification of one range is what the property text says: NaN is never
   inside, reversed bounds are swapped, bounds are inclusive. *)
Theorem C03_spec_range_semantics :
  (forall lo hi, in_range lo hi FNaN = false) /\
  (forall lo hi x, fisnan lo = false -> fisnan hi = false ->
                   in_range lo hi x = in_range hi lo x) /\
  (forall lo hi, fle lo hi = true ->
                 in_range lo hi lo = true /\ in_range lo hi hi = true).
Proof. exact (conj in_range_nan (conj in_range_swap in_range_inclusive)). Qed.
Print Assumptions C03_spec_range_semantics.

(* The code before repair 1ad19c0 does NOT satisfy the history theorem: set a
   range, apply, delete the range; the next application keeps the old box
   filter (one event with deform = 1, range [0.25, 0.75]). *)
Theorem C03_filter_history_unrepaired_refuted :
  forall (hashf : Z -> bool -> Z) (choice : Z -> Z -> list Z),
    let w := run hashf choice refute_rows [0] false
                 (init_world refute_rows []) refute_ops in
    a_all (flt (update hashf choice refute_rows [0] false w []))
    <> spec_all choice refute_rows [0] w.
Proof. exact unrepaired_refuted. Qed.
Print Assumptions C03_filter_history_unrepaired_refuted.
