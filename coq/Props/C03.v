(* C03 — the combined event filter equals the specification of the current
   settings. Property theorems only; each is closed by [exact] of a lemma
   proved in Proofs/C03.v and followed by Print Assumptions.

   [update/run ... HEAD] is Filter.update as it is in /repo (with the repairs
   1ad19c0, 2db14c2, 1895a86, 842d5c2 and
   fixes_proposed/C03-failed-update-resets-caches.diff). [hashf] (PolygonFilter.hash of a filter) and [choice]
   (the seeded np.random.choice behind "limit events") are oracles: their
   hypotheses are explicit and are checked on the implementation by
   harness/c03.py. [kn w] are the feature names dclab knows (deregistering a temporary
   feature removes its name), [have w] the features rtdc_ds[f] has data for,
   [vax] the axes of the polygon vertex sets. The classification [pin] of a
   vertex set is fixed data of the case: the DATA of a polygon axis are never
   replaced (ReplaceTemp concerns box ranges; a polygon mask on replaced data
   stays stale even with force: outside the property's operations).
   [err w' = false]: the application did not raise ValueError
   (C03_apply_raises_iff says exactly when it does).
   [stale w' = []]: GHOST condition (Model/C03.v, world): no feature whose DATA
   were replaced (set_temporary_feature on an existing temporary feature,
   op ReplaceTemp) still has its old box filter. Replacing feature data is not
   an operation of the property's quantifier; for histories made of the
   property's operations the condition holds by C03_filter_history
   (no_replace), after a replacement it is re-established by
   apply_filter(force=[feature]) (C03_force_refreshes).

   The four *_refuted theorems at the end are about EARLIER versions of
   Filter.update (V0, V1, V2, V3) that no longer exist in /repo: they document
   the repaired defects (DESIGN.md section 10) and are tied to no code. *)
From Coq Require Import ZArith List Bool.
From Verif Require Import Model.C03 Proofs.C03.
Import ListNotations.
Open Scope Z_scope.

(* After ANY history of the property's operations (set/change/remove range
   keys, polygons, switches, limit, manual edits, temporary features coming
   and going, reset, applications incl. ones that raised; any length and
   order), one more application that does not raise leaves all four filter
   arrays equal to the stateless specification of the current settings. *)
Theorem C03_filter_history :
  forall (hashf : Z -> Z -> bool -> Z) (choice : Z -> Z -> list Z)
         (rows : list row) (vax : list (Z * list Z)),
    (forall id v b v' b', hashf id v b = hashf id v' b' -> v = v' /\ b = b') ->
    forall (reg0 : registry) (feats0 known0 : list Z) (ops : list op) (force : list Z),
      (forall f, In f feats0 -> In f known0) ->
      no_replace ops = true ->
      let w := run hashf choice rows vax HEAD (init_world rows reg0 feats0 known0) ops in
      let w' := update hashf choice rows vax HEAD w force in
      err w' = false ->
      a_all (flt w') = spec_all choice rows w /\
      a_box (flt w') = spec_box rows w /\
      a_polygon (flt w') = spec_polygon rows w /\
      a_invalid (flt w') = spec_invalid rows w.
Proof. exact history_no_replace. Qed.
Print Assumptions C03_filter_history.

(* The same for histories that also replace feature data, provided no replaced
   feature still has its old box filter. *)
Theorem C03_filter_history_with_data_replacement :
  forall (hashf : Z -> Z -> bool -> Z) (choice : Z -> Z -> list Z)
         (rows : list row) (vax : list (Z * list Z)),
    (forall id v b v' b', hashf id v b = hashf id v' b' -> v = v' /\ b = b') ->
    forall (reg0 : registry) (feats0 known0 : list Z) (ops : list op) (force : list Z),
      (forall f, In f feats0 -> In f known0) ->
      let w := run hashf choice rows vax HEAD (init_world rows reg0 feats0 known0) ops in
      let w' := update hashf choice rows vax HEAD w force in
      err w' = false -> stale w' = [] ->
      a_all (flt w') = spec_all choice rows w /\
      a_box (flt w') = spec_box rows w /\
      a_polygon (flt w') = spec_polygon rows w /\
      a_invalid (flt w') = spec_invalid rows w.
Proof. exact history_ok. Qed.
Print Assumptions C03_filter_history_with_data_replacement.

(* apply_filter(force=...) naming every replaced feature makes the guard true. *)
Theorem C03_force_refreshes :
  forall (hashf : Z -> Z -> bool -> Z) (choice : Z -> Z -> list Z)
         (rows : list row) (vax : list (Z * list Z)) (w : world) (force : list Z),
    (forall f, In f (stale w) -> In f force) ->
    stale (update hashf choice rows vax HEAD w force) = [].
Proof. exact forced_not_stale. Qed.
Print Assumptions C03_force_refreshes.

(* An application raises exactly when `force` names an unknown feature, a
   KNOWN feature has a range with only one of its two keys (a deregistered
   temporary feature is unknown: its keys are ignored), or a registered polygon
   filter has no instance or an axis the dataset has no data for — whatever
   happened before (in particular never because of the event limit). *)
Theorem C03_apply_raises_iff :
  forall (hashf : Z -> Z -> bool -> Z) (choice : Z -> Z -> list Z)
         (rows : list row) (vax : list (Z * list Z)),
    (forall id v b v' b', hashf id v b = hashf id v' b' -> v = v' /\ b = b') ->
    forall (reg0 : registry) (feats0 known0 : list Z) (ops : list op) (force : list Z),
      (forall f, In f feats0 -> In f known0) ->
      let w := run hashf choice rows vax HEAD (init_world rows reg0 feats0 known0) ops in
      err (update hashf choice rows vax HEAD w force) = true
      <-> (exists f, In f force /\ ~ In f (kn w))
          \/ (exists f, In f (kn w) /\ half_set (rng (cfg w)) f = true)
          \/ poly_bad vax (reg w) (have w) (polys (cfg w)) = true.
Proof. exact history_raises. Qed.
Print Assumptions C03_apply_raises_iff.

(* With an event limit set (any positive integer), exactly min(limit, number
   of qualifying events) events remain after any history, and every one of
   them qualifies. *)
Theorem C03_limit_exact :
  forall (hashf : Z -> Z -> bool -> Z) (choice : Z -> Z -> list Z)
         (rows : list row) (vax : list (Z * list Z)),
    (forall id v b v' b', hashf id v b = hashf id v' b' -> v = v' /\ b = b') ->
    forall (reg0 : registry) (feats0 known0 : list Z) (ops : list op) (force : list Z),
      (forall f, In f feats0 -> In f known0) ->
      (forall m k, 0 < k < m ->
         NoDup (choice m k) /\ Z.of_nat (length (choice m k)) = k /\
         Forall (fun i => 0 <= i < m) (choice m k)) ->
      let w := run hashf choice rows vax HEAD (init_world rows reg0 feats0 known0) ops in
      let w' := update hashf choice rows vax HEAD w force in
      err w' = false -> stale w' = [] ->
      enable (cfg w) = true -> 0 < limit (cfg w) ->
      count_true (a_all (flt w'))
      = Z.min (limit (cfg w)) (count_true (spec_qual rows w)) /\
      Forall2 (fun a q => a = true -> q = true)
              (a_all (flt w')) (spec_qual rows w).
Proof. exact history_limit. Qed.
Print Assumptions C03_limit_exact.

(* Without a limit the selection is exactly the set of qualifying events. *)
Theorem C03_no_limit_all_qualifying :
  forall (hashf : Z -> Z -> bool -> Z) (choice : Z -> Z -> list Z)
         (rows : list row) (vax : list (Z * list Z)),
    (forall id v b v' b', hashf id v b = hashf id v' b' -> v = v' /\ b = b') ->
    forall (reg0 : registry) (feats0 known0 : list Z) (ops : list op) (force : list Z),
      (forall f, In f feats0 -> In f known0) ->
      let w := run hashf choice rows vax HEAD (init_world rows reg0 feats0 known0) ops in
      err (update hashf choice rows vax HEAD w force) = false ->
      stale (update hashf choice rows vax HEAD w force) = [] ->
      enable (cfg w) = true -> limit (cfg w) <= 0 ->
      a_all (flt (update hashf choice rows vax HEAD w force))
      = spec_qual rows w.
Proof. exact history_no_limit. Qed.
Print Assumptions C03_no_limit_all_qualifying.

(* With filters disabled every event is selected (also with stale features). *)
Theorem C03_disabled_selects_all :
  forall (hashf : Z -> Z -> bool -> Z) (choice : Z -> Z -> list Z)
         (rows : list row) (vax : list (Z * list Z)),
    forall (reg0 : registry) (feats0 known0 : list Z) (ops : list op) (force : list Z),
      let w := run hashf choice rows vax HEAD (init_world rows reg0 feats0 known0) ops in
      err (update hashf choice rows vax HEAD w force) = false ->
      enable (cfg w) = false ->
      a_all (flt (update hashf choice rows vax HEAD w force))
      = map (fun _ => true) rows.
Proof. exact history_disabled. Qed.
Print Assumptions C03_disabled_selects_all.

(* Reproducibility: two histories that end in the same settings and data
   select the same events, whatever happened before. (That the seeded choice
   is a function of pool size and limit is the oracle's type; the harness
   checks it on the implementation.) *)
Theorem C03_selection_depends_on_settings_only :
  forall (hashf : Z -> Z -> bool -> Z) (choice : Z -> Z -> list Z)
         (rows : list row) (vax : list (Z * list Z)),
    (forall id v b v' b', hashf id v b = hashf id v' b' -> v = v' /\ b = b') ->
    forall (reg1 : registry) (feats1 known1 : list Z) (ops1 : list op) (force1 : list Z)
           (reg2 : registry) (feats2 known2 : list Z) (ops2 : list op) (force2 : list Z),
      (forall f, In f feats1 -> In f known1) -> (forall f, In f feats2 -> In f known2) ->
      let w1 := run hashf choice rows vax HEAD (init_world rows reg1 feats1 known1) ops1 in
      let w2 := run hashf choice rows vax HEAD (init_world rows reg2 feats2 known2) ops2 in
      cfg w1 = cfg w2 -> reg w1 = reg w2 -> manual (flt w1) = manual (flt w2) ->
      feats w1 = feats w2 -> fcol w1 = fcol w2 ->
      err (update hashf choice rows vax HEAD w1 force1) = false ->
      err (update hashf choice rows vax HEAD w2 force2) = false ->
      stale (update hashf choice rows vax HEAD w1 force1) = [] ->
      stale (update hashf choice rows vax HEAD w2 force2) = [] ->
      a_all (flt (update hashf choice rows vax HEAD w1 force1))
      = a_all (flt (update hashf choice rows vax HEAD w2 force2)).
Proof. exact history_reproducible. Qed.
Print Assumptions C03_selection_depends_on_settings_only.

(* The specification of one range is what the property text says: NaN is never
   inside, reversed bounds are swapped, bounds are inclusive; a range is
   inactive when min equals max or a key is missing, otherwise it is the
   inclusive interval test on the feature's current data. *)
Theorem C03_spec_range_semantics :
  (forall lo hi, in_range lo hi FNaN = false) /\
  (forall lo hi x, fisnan lo = false -> fisnan hi = false ->
                   in_range lo hi x = in_range hi lo x) /\
  (forall lo hi, fle lo hi = true ->
                 in_range lo hi lo = true /\ in_range lo hi hi = true) /\
  (forall fc rg f r,
      (forall lo hi, rget rg f = (Some lo, Some hi) -> feq lo hi = true) ->
      spec_feat fc rg f r = true) /\
  (forall fc rg f r lo hi,
      rget rg f = (Some lo, Some hi) -> feq lo hi = false ->
      spec_feat fc rg f r = in_range lo hi (val r (colof fc f))).
Proof.
  exact (conj in_range_nan (conj in_range_swap (conj in_range_inclusive
           (conj spec_feat_inactive spec_feat_active)))).
Qed.
Print Assumptions C03_spec_range_semantics.

(* Outside the property's operations: after the data of a feature were
   replaced, an application WITHOUT force keeps the box filter of the old data
   (the cache carries no data hash). Stated so that the guard [stale = []]
   above is known to be necessary. *)
Theorem C03_replaced_data_unforced_stale :
  forall (hashf : Z -> Z -> bool -> Z) (choice : Z -> Z -> list Z),
    let w := run hashf choice repl_rows [] HEAD (init_world repl_rows [] [0] [0; 1]) repl_ops in
    let w' := update hashf choice repl_rows [] HEAD w [] in
    err w' = false /\ stale w' = [1] /\ a_all (flt w') <> spec_all choice repl_rows w.
Proof. exact replaced_data_unforced_stale. Qed.
Print Assumptions C03_replaced_data_unforced_stale.

(* ---- earlier versions of Filter.update (not in /repo any more) ------------
   Each does NOT satisfy the history theorem (vm_compute witnesses; the same
   histories are corpus cases of the harness).
   Before 1ad19c0: set a range, apply, delete the range; the next application
   keeps the old box filter. *)
Theorem C03_filter_history_unrepaired_refuted :
  forall (hashf : Z -> Z -> bool -> Z) (choice : Z -> Z -> list Z),
    let w := run hashf choice refute_rows [] V0
                 (init_world refute_rows [] [0] [0; 1]) refute_ops in
    let w' := update hashf choice refute_rows [] V0 w [] in
    err w' = false /\ a_all (flt w') <> spec_all choice refute_rows w.
Proof. exact unrepaired_refuted. Qed.
Print Assumptions C03_filter_history_unrepaired_refuted.

(* Before 2db14c2 (pairing check inside the loop): range [1,2] applied; range
   changed to [3,4] together with a lone "min" key of a later feature: the
   application raises after the first box filter was recomputed; [1,2] is
   restored and the lone key removed: the [3,4] mask stays. *)
Theorem C03_filter_history_sequential_raise_refuted :
  forall (hashf : Z -> Z -> bool -> Z) (choice : Z -> Z -> list Z),
    let w := run hashf choice exc_rows [] V1 (init_world exc_rows [] [0; 1] [0; 1]) exc_ops in
    let w' := update hashf choice exc_rows [] V1 w [] in
    err w' = false /\ a_all (flt w') <> spec_all choice exc_rows w.
Proof. exact sequential_raise_refuted. Qed.
Print Assumptions C03_filter_history_sequential_raise_refuted.

(* Without the late-feature repair: a range configured and applied before its
   (temporary) feature exists is not applied once the feature exists. *)
Theorem C03_filter_history_late_feature_refuted :
  forall (hashf : Z -> Z -> bool -> Z) (choice : Z -> Z -> list Z),
    let w := run hashf choice exc_rows [] V2 (init_world exc_rows [] [0] [0; 1]) late_ops in
    let w' := update hashf choice exc_rows [] V2 w [] in
    err w' = false /\ a_all (flt w') <> spec_all choice exc_rows w.
Proof. exact late_feature_refuted. Qed.
Print Assumptions C03_filter_history_late_feature_refuted.

(* Before fixes_proposed/C03-failed-update-resets-caches.diff (a failed update
   left recomputed masks behind): range [1,2] applied; range [3,4] plus a
   polygon id without instance: KeyError after the box filter was recomputed;
   the id is removed and [1,2] restored: the [3,4] mask stays. *)
Theorem C03_filter_history_polygon_keyerror_refuted :
  forall (hashf : Z -> Z -> bool -> Z) (choice : Z -> Z -> list Z),
    let w1 := run hashf choice exc_rows [] V3 (init_world exc_rows [] [0; 1] [0; 1])
                  (firstn 7 keyerr_ops) in
    let w := run hashf choice exc_rows [] V3 (init_world exc_rows [] [0; 1] [0; 1])
                 keyerr_ops in
    let w' := update hashf choice exc_rows [] V3 w [] in
    err w1 = true /\ err w' = false /\ a_all (flt w') <> spec_all choice exc_rows w.
Proof. exact polygon_keyerror_refuted. Qed.
Print Assumptions C03_filter_history_polygon_keyerror_refuted.
