(* C03 — the combined event filter equals the specification of the current
   settings. Property theorems only; each is closed by [exact] of a lemma
   proved in Proofs/C03.v and followed by Print Assumptions.

   [update/run ... HEAD] is Filter.update with its three repairs
   (fixes_proposed/C03-removed-range-keys.diff = 1ad19c0,
   C03-valueerror-before-mutation.diff = 2db14c2, C03-range-on-late-feature.diff);
   [V0], [V1], [V2] are the code before the first, second and third repair.
   The set of scalar features of the dataset is part of the state (temporary
   features are added and removed by AddFeat/DelFeat). [err w' = false] says that the application did not
   raise ValueError (C03_apply_raises_iff: it raises exactly when some range
   has only one of its two keys). [hashf] (PolygonFilter.hash) and [choice] (the seeded
   np.random.choice behind "limit events") are oracles: their hypotheses are
   explicit and are checked on the implementation by harness/c03.py. *)
From Coq Require Import ZArith List Bool.
From Verif Require Import Model.C03 Proofs.C03.
Import ListNotations.
Open Scope Z_scope.

(* After ANY history of setting changes and applications (any length, any
   order, including applications that raised), one more application that does
   not raise leaves all four filter arrays equal to the stateless
   specification of the current settings. *)
Theorem C03_filter_history :
  forall (hashf : Z -> bool -> Z) (choice : Z -> Z -> list Z)
         (rows : list row),
    (forall v b v' b', hashf v b = hashf v' b' -> v = v' /\ b = b') ->
    forall (reg0 : registry) (feats0 : list Z) (ops : list op) (force : list Z),
      let w := run hashf choice rows HEAD (init_world rows reg0 feats0) ops in
      let w' := update hashf choice rows HEAD w force in
      err w' = false ->
      a_all (flt w') = spec_all choice rows w /\
      a_box (flt w') = spec_box rows w /\
      a_polygon (flt w') = spec_polygon rows w /\
      a_invalid (flt w') = spec_invalid rows w.
Proof. exact history_ok. Qed.
Print Assumptions C03_filter_history.

(* An application raises exactly when the current settings hold a range with
   only one of its two keys, whatever happened before. *)
Theorem C03_apply_raises_iff :
  forall (hashf : Z -> bool -> Z) (choice : Z -> Z -> list Z)
         (rows : list row),
    (forall v b v' b', hashf v b = hashf v' b' -> v = v' /\ b = b') ->
    forall (reg0 : registry) (feats0 : list Z) (ops : list op) (force : list Z),
      let w := run hashf choice rows HEAD (init_world rows reg0 feats0) ops in
      err (update hashf choice rows HEAD w force) = true
      <-> exists f, half_set (rng (cfg w)) f = true.
Proof. exact history_raises. Qed.
Print Assumptions C03_apply_raises_iff.

(* With an event limit set, exactly min(limit, number of qualifying events)
   events remain after any history, and every one of them qualifies. *)
Theorem C03_limit_exact :
  forall (hashf : Z -> bool -> Z) (choice : Z -> Z -> list Z)
         (rows : list row),
    (forall v b v' b', hashf v b = hashf v' b' -> v = v' /\ b = b') ->
    forall (reg0 : registry) (feats0 : list Z) (ops : list op) (force : list Z),
      (forall m k, 0 < k < m ->
         NoDup (choice m k) /\ Z.of_nat (length (choice m k)) = k /\
         Forall (fun i => 0 <= i < m) (choice m k)) ->
      let w := run hashf choice rows HEAD (init_world rows reg0 feats0) ops in
      let w' := update hashf choice rows HEAD w force in
      err w' = false ->
      enable (cfg w) = true -> 0 < limit (cfg w) ->
      count_true (a_all (flt w'))
      = Z.min (limit (cfg w)) (count_true (spec_qual rows w)) /\
      Forall2 (fun a q => a = true -> q = true)
              (a_all (flt w')) (spec_qual rows w).
Proof. exact history_limit. Qed.
Print Assumptions C03_limit_exact.

(* Without a limit the selection is exactly the set of qualifying events. *)
Theorem C03_no_limit_all_qualifying :
  forall (hashf : Z -> bool -> Z) (choice : Z -> Z -> list Z)
         (rows : list row),
    (forall v b v' b', hashf v b = hashf v' b' -> v = v' /\ b = b') ->
    forall (reg0 : registry) (feats0 : list Z) (ops : list op) (force : list Z),
      let w := run hashf choice rows HEAD (init_world rows reg0 feats0) ops in
      err (update hashf choice rows HEAD w force) = false ->
      enable (cfg w) = true -> limit (cfg w) <= 0 ->
      a_all (flt (update hashf choice rows HEAD w force))
      = spec_qual rows w.
Proof. exact history_no_limit. Qed.
Print Assumptions C03_no_limit_all_qualifying.

(* With filters disabled every event is selected. *)
Theorem C03_disabled_selects_all :
  forall (hashf : Z -> bool -> Z) (choice : Z -> Z -> list Z)
         (rows : list row),
    (forall v b v' b', hashf v b = hashf v' b' -> v = v' /\ b = b') ->
    forall (reg0 : registry) (feats0 : list Z) (ops : list op) (force : list Z),
      let w := run hashf choice rows HEAD (init_world rows reg0 feats0) ops in
      err (update hashf choice rows HEAD w force) = false ->
      enable (cfg w) = false ->
      a_all (flt (update hashf choice rows HEAD w force))
      = map (fun _ => true) rows.
Proof. exact history_disabled. Qed.
Print Assumptions C03_disabled_selects_all.

(* Reproducibility: two histories that end in the same settings select the
   same events, whatever happened before. *)
Theorem C03_selection_depends_on_settings_only :
  forall (hashf : Z -> bool -> Z) (choice : Z -> Z -> list Z)
         (rows : list row),
    (forall v b v' b', hashf v b = hashf v' b' -> v = v' /\ b = b') ->
    forall (reg1 : registry) (feats1 : list Z) (ops1 : list op) (force1 : list Z)
           (reg2 : registry) (feats2 : list Z) (ops2 : list op) (force2 : list Z),
      let w1 := run hashf choice rows HEAD (init_world rows reg1 feats1) ops1 in
      let w2 := run hashf choice rows HEAD (init_world rows reg2 feats2) ops2 in
      cfg w1 = cfg w2 -> reg w1 = reg w2 -> manual (flt w1) = manual (flt w2) ->
      feats w1 = feats w2 ->
      err (update hashf choice rows HEAD w1 force1) = false ->
      err (update hashf choice rows HEAD w2 force2) = false ->
      a_all (flt (update hashf choice rows HEAD w1 force1))
      = a_all (flt (update hashf choice rows HEAD w2 force2)).
Proof. exact history_reproducible. Qed.
Print Assumptions C03_selection_depends_on_settings_only.

(* The specification of one range is what the property text says: NaN is never
   inside, reversed bounds are swapped, bounds are inclusive. *)
Theorem C03_spec_range_semantics :
  (forall lo hi, in_range lo hi FNaN = false) /\
  (forall lo hi x, fisnan lo = false -> fisnan hi = false ->
                   in_range lo hi x = in_range hi lo x) /\
  (forall lo hi, fle lo hi = true ->
                 in_range lo hi lo = true /\ in_range lo hi hi = true).
Proof. exact (conj in_range_nan (conj in_range_swap in_range_inclusive)). Qed.
Print Assumptions C03_spec_range_semantics.

(* The three repaired defects: each earlier version of Filter.update does NOT
   satisfy the history theorem (vm_compute witnesses; the same histories are
   corpus cases of the harness).
   Before 1ad19c0: set a range, apply, delete the range; the next application
   keeps the old box filter. *)
Theorem C03_filter_history_unrepaired_refuted :
  forall (hashf : Z -> bool -> Z) (choice : Z -> Z -> list Z),
    let w := run hashf choice refute_rows V0
                 (init_world refute_rows [] [0]) refute_ops in
    let w' := update hashf choice refute_rows V0 w [] in
    err w' = false /\ a_all (flt w') <> spec_all choice refute_rows w.
Proof. exact unrepaired_refuted. Qed.
Print Assumptions C03_filter_history_unrepaired_refuted.

(* Before 2db14c2 (pairing check inside the loop): range [1,2] applied; range
   changed to [3,4] together with a lone "min" key of a later feature: the
   application raises after the first box filter was recomputed; [1,2] is
   restored and the lone key removed: the [3,4] mask stays. *)
Theorem C03_filter_history_sequential_raise_refuted :
  forall (hashf : Z -> bool -> Z) (choice : Z -> Z -> list Z),
    let w := run hashf choice exc_rows V1 (init_world exc_rows [] [0; 1]) exc_ops in
    let w' := update hashf choice exc_rows V1 w [] in
    err w' = false /\ a_all (flt w') <> spec_all choice exc_rows w.
Proof. exact sequential_raise_refuted. Qed.
Print Assumptions C03_filter_history_sequential_raise_refuted.

(* Without the late-feature repair: a range configured and applied before its
   (temporary) feature exists is not applied once the feature exists. *)
Theorem C03_filter_history_late_feature_refuted :
  forall (hashf : Z -> bool -> Z) (choice : Z -> Z -> list Z),
    let w := run hashf choice exc_rows V2 (init_world exc_rows [] [0]) late_ops in
    let w' := update hashf choice exc_rows V2 w [] in
    err w' = false /\ a_all (flt w') <> spec_all choice exc_rows w.
Proof. exact late_feature_refuted. Qed.
Print Assumptions C03_filter_history_late_feature_refuted.
