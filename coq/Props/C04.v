(* C04 -- a hierarchy child is exactly the filtered view of its parent.
   Property theorems only; each is closed by [exact] of a lemma proved in
   Proofs/C04.v and followed by Print Assumptions. *)
From Coq Require Import ZArith List Bool.
From Verif Require Import Model.C04 Proofs.C04.
Import ListNotations.
Open Scope Z_scope.

(* The lazy caches are model state: [l_cache] holds the ChildScalar arrays
   computed so far (filled by reads at arbitrary moments, emptied only by
   apply_filter), [read] is `ds[feat][:]`.  After rejuvenate() of the
   youngest member -- in ANY state of the chain and of its caches, i.e.
   after any interleaving of edits and reads -- a read of any scalar or
   temporary feature on any member c with parent p returns the parent's
   read restricted to the events the parent's filter selects, in order; and
   the chain stays coherent under further reads.  (False for a model that
   does not empty the cache: Example ex_stale_read.) *)
Theorem C04_read_after_rejuvenate_is_view :
  forall (st : state) k c p anc s,
    let ls := s_levels (fst (step st (3, 1, 0, 0, 0))) in
    skipn k ls = c :: p :: anc ->
    fst (read (c :: p :: anc) s)
    = option_map (select (f_all (l_filt p))) (fst (read (p :: anc) s))
    /\ coh (snd (read (c :: p :: anc) s)).
Proof. exact read_after_rejuvenate_is_view. Qed.
Print Assumptions C04_read_after_rejuvenate_is_view.

(* len(child) and the values the refresh itself worked with (what
   Filter.update read): after rejuvenate (with, op (3,0,..), or without,
   op (3,1,..), reading everything afterwards) every child has as many
   events as its parent's filter selects and its refresh-time columns are
   the parent's restricted to the selected events. *)
Theorem C04_rejuvenate_child_is_view :
  forall st : state,
    view_ok (s_levels (fst (step st (3, 0, 0, 0, 0))))
    /\ view_ok (s_levels (fst (step st (3, 1, 0, 0, 0)))).
Proof. exact rejuvenate_child_is_view. Qed.
Print Assumptions C04_rejuvenate_child_is_view.

(* The same holds for the chain right after a new youngest child was
   created (dclab.new_dataset(youngest)). *)
Theorem C04_new_child_is_view :
  forall ls : list level, view_ok (grow ls).
Proof. exact grow_view. Qed.
Print Assumptions C04_new_child_is_view.

(* At any nesting depth: the columns of a member are the root's columns
   restricted successively by the filters of all its ancestors. *)
Theorem C04_view_composes_to_root :
  forall (anc : list level) (c : level),
    view_ok (c :: anc) ->
    l_data c = map (option_map (compose_select anc)) (l_data (last anc c)).
Proof. exact view_composes_to_root. Qed.
Print Assumptions C04_view_composes_to_root.

(* Reading a column through the index map of mapper.py
   (map_indices_child2parent: np.where(mask)[0][child_indices]) is the same
   as boolean-mask selection; the non-scalar features (image, mask, contour,
   trace) are read that way. *)
Theorem C04_index_map_is_selection :
  forall (A : Type) (d : A) (m : list bool) (xs : list A),
    (length m <= length xs)%nat ->
    select m xs = map (fun i => nth (Z.to_nat i) xs d) (where_ m).
Proof. exact @select_as_where. Qed.
Print Assumptions C04_index_map_is_selection.

Theorem C04_child2parent_of_all_events :
  forall p : level,
    c2p p (iota 0 (count_true (f_all (l_filt p))))
    = Some (where_ (f_all (l_filt p))).
Proof. exact c2p_all. Qed.
Print Assumptions C04_child2parent_of_all_events.

(* Manual exclusions, one filter through its life.  [keeps E f]: every root
   event of the set E is excluded by f -- in filter.manual if it is visible,
   in the stored root ids if it is hidden.  A refresh keeps that, whatever
   the ancestors did: whether the filter is kept or re-created over an
   arbitrary new set of events rids'. *)
Theorem C04_exclusions_survive_refresh :
  forall (E : Z -> Prop) (f g : filt),
    refreshed f g -> keeps E f -> keeps E g.
Proof. exact keeps_refreshed. Qed.
Print Assumptions C04_exclusions_survive_refresh.

Theorem C04_exclusion_is_recorded :
  forall (E : Z -> Prop) (f g : filt) (i : nat),
    edited i false f g -> keeps E f ->
    keeps (fun r => E r \/ r = nth i (f_rids f) (-1)) g.
Proof. exact keeps_exclude. Qed.
Print Assumptions C04_exclusion_is_recorded.

Theorem C04_reinclusion_leaves_the_others :
  forall (E : Z -> Prop) (f g : filt) (i : nat),
    edited i true f g -> keeps E f ->
    keeps (fun r => E r /\ r <> nth i (f_rids f) (-1)) g.
Proof. exact keeps_include. Qed.
Print Assumptions C04_reinclusion_leaves_the_others.

(* The converse: [only V f]: f excludes and stores nothing outside V. *)
Theorem C04_refresh_excludes_nothing_new :
  forall (V : Z -> Prop) (f g : filt),
    refreshed f g -> only V f -> only V g.
Proof. exact only_refreshed. Qed.
Print Assumptions C04_refresh_excludes_nothing_new.

Theorem C04_edit_excludes_only_that_event :
  forall (V : Z -> Prop) (f g : filt) (i : nat) (v : bool),
    edited i v f g -> only V f ->
    only (fun r => V r \/ (v = false /\ r = nth i (f_rids f) (-1))) g.
Proof. exact only_edit. Qed.
Print Assumptions C04_edit_excludes_only_that_event.

(* The whole chain through a whole history.  spec_run executes the history
   on the model and tracks, beside it and per level, the user's intent: the
   root ids of the events excluded there by filter.manual[i] = False and not
   re-included since (g_excl), and of all events ever excluded there
   (g_ever).  For every root dataset, every history (any interleaving of
   range edits and deletions, manual edits, reset_filter(), temporary
   features, switches, growth, reads and rejuvenate on any level, depth up
   to 4; reset_filter() makes the intent of that level start over) and every level of the resulting
   chain:
     - an event of g_excl that is among the level's events is excluded in
       filter.manual;
     - an event of g_excl that is hidden is kept in the stored root ids;
     - an event excluded in filter.manual is in g_ever;
     - filter.manual has one entry per event. *)
Theorem C04_history_manual_exclusions :
  forall n cols ops st gs k l g,
    spec_run (init n cols) [mkghost [] []] ops = (st, gs) ->
    nth_error (s_levels st) k = Some l -> nth_error gs k = Some g ->
    let f := l_filt l in
    (forall j, (j < length (f_rids f))%nat ->
               In (nth j (f_rids f) (-1)) (g_excl g) ->
               nth j (f_manual f) true = false)
    /\ (forall r, In r (g_excl g) -> ~ In r (f_rids f) -> In r (f_mri f))
    /\ (forall j, (j < length (f_rids f))%nat ->
                  nth j (f_manual f) true = false ->
                  In (nth j (f_rids f) (-1)) (g_ever g))
    /\ length (f_manual f) = length (f_rids f).
Proof. exact history_manual_exclusions. Qed.
Print Assumptions C04_history_manual_exclusions.

(* ... where, after rejuvenate of the youngest at the end of any history,
   the root ids a filter works with (f_rids) are those of the level's
   events: the parent's root ids restricted to the parent's filter. *)
Theorem C04_history_root_ids_after_rejuvenate :
  forall n cols ops st gs,
    spec_run (init n cols) [mkghost [] []] ops = (st, gs) ->
    rids_ok (s_levels (fst (step st (3, 1, 0, 0, 0)))).
Proof. exact history_rids_after_rejuvenate. Qed.
Print Assumptions C04_history_root_ids_after_rejuvenate.

(* mapper.py over the depth: the root indices of all events of a child are
   the parent's root indices restricted to the parent's filter. *)
Theorem C04_child2root_composes :
  forall (p : level) (anc : list level) (Rp : list Z),
    c2r anc (iota 0 (length (f_all (l_filt p)))) = Some Rp ->
    c2r (p :: anc) (iota 0 (count_true (f_all (l_filt p))))
    = Some (select (f_all (l_filt p)) Rp).
Proof. exact c2r_child. Qed.
Print Assumptions C04_child2root_composes.

(* The non-scalar features (image; mask, contour and trace use the same
   code) are read event by event through these index maps up to the root:
   for a child that is a view of its parent (len) whose parent's filter has
   one entry per event and can itself be mapped to the root, the column is
   the parent's column restricted to the parent's filter. *)
Theorem C04_nonscalar_child_is_view :
  forall (img : list Z) (c p : level) (anc : list level) (Rp : list Z),
    view_of c p ->
    l_len p = Z.of_nat (length (f_all (l_filt p))) ->
    c2r anc (iota 0 (length (f_all (l_filt p)))) = Some Rp ->
    image_ids img (p :: anc) (l_len c)
    = select (f_all (l_filt p)) (image_ids img anc (l_len p)).
Proof. exact image_child_is_view. Qed.
Print Assumptions C04_nonscalar_child_is_view.

(* parent2child inverts child2parent on the events of the child. *)
Theorem C04_parent2child_inverts_child2parent :
  forall p : level,
    option_map (p2c p) (c2p p (iota 0 (count_true (f_all (l_filt p)))))
    = Some (iota 0 (count_true (f_all (l_filt p)))).
Proof. exact p2c_c2p_all. Qed.
Print Assumptions C04_parent2child_inverts_child2parent.

(* For every root dataset whose columns have one value per event and every
   history (any interleaving, depth up to 4): after rejuvenate of the
   youngest member the non-scalar column of every child -- read event by
   event through map_indices_child2parent up to the root -- is its parent's
   column restricted to the parent's filter, and on every level len, the
   filter arrays, the stored root ids and all columns have the same size. *)
Theorem C04_history_nonscalar_view :
  forall n cols ops,
    Forall (fun d : col => length d = n) (firstn 3 cols) ->
    let st := fst (step (fst (run (init n cols) ops)) (3, 0, 0, 0, 0)) in
    img_ok (s_img st) (s_levels st) /\ Forall lwf (s_levels st).
Proof. exact history_nonscalar_view. Qed.
Print Assumptions C04_history_nonscalar_view.

(* A child's events are exactly the root events selected by all ancestor
   masks: for every root dataset and every history, after rejuvenate of the
   youngest member, every member c of the chain (ancestors anc, nearest
   first; last anc c is the root) has the stored root ids
   [0..n-1] restricted successively by the ancestors' filters -- without
   duplicates and all below n -- and its columns are the root's columns
   restricted the same way. *)
Theorem C04_child_events_are_root_selection :
  forall n cols ops k c anc,
    let st := fst (step (fst (run (init n cols) ops)) (3, 0, 0, 0, 0)) in
    skipn k (s_levels st) = c :: anc ->
    f_rids (l_filt c) = compose_select anc (iota 0 n)
    /\ l_data c = map (option_map (compose_select anc)) (l_data (last anc c))
    /\ NoDup (f_rids (l_filt c))
    /\ (forall r, In r (f_rids (l_filt c)) -> 0 <= r < Z.of_nat n).
Proof. exact child_events_are_root_selection. Qed.
Print Assumptions C04_child_events_are_root_selection.

(* Along every history (not only after a refresh) the ids stored on every
   level are root indices below n and the root works with exactly 0..n-1. *)
Theorem C04_history_ids_are_root_indices :
  forall n ops st,
    ids_ok n (s_levels st) -> ids_ok n (s_levels (fst (run st ops))).
Proof. exact run_ids. Qed.
Print Assumptions C04_history_ids_are_root_indices.

(* set_temporary_feature: map_indices_child2parent of the indices 0..m-1
   raises IndexError exactly when m exceeds the number of events the
   parent's filter selects; on a chain refreshed in order it never does. *)
Theorem C04_child2parent_error_iff :
  forall (p : level) (m : nat),
    c2p p (iota 0 m) = None <-> (count_true (f_all (l_filt p)) < m)%nat.
Proof. exact c2p_error_iff. Qed.
Print Assumptions C04_child2parent_error_iff.

Theorem C04_set_temp_no_error_when_refreshed :
  forall ls pos slot seed,
    Forall lwf ls -> view_ok (skipn pos ls) ->
    snd (set_temp ls pos slot seed) = 0.
Proof. exact set_temp_no_error. Qed.
Print Assumptions C04_set_temp_no_error_when_refreshed.

(* Sibling children (two branches below shared ancestors, operations and
   refreshes through either branch in any order): a rejuvenate through a
   branch makes that chain a chain of views, and along every history the
   manual exclusions of both chains keep their meaning in root ids. *)
Theorem C04_siblings_rejuvenate_view :
  forall s : sib,
    (let s' := fst (sib_step s (3, 1, 0, 0, 0)) in
     view_ok (sb_a s' ++ sb_anc s'))
    /\ (let s' := fst (sib_step s (13, 1, 0, 0, 0)) in
        view_ok (sb_b s' ++ sb_anc s')).
Proof. exact sib_rejuvenate_view. Qed.
Print Assumptions C04_siblings_rejuvenate_view.

Theorem C04_siblings_history_manual_exclusions :
  forall n cols ops, sib_inv (fst (sib_run (sib_init n cols) ops)).
Proof. exact sib_history_inv. Qed.
Print Assumptions C04_siblings_history_manual_exclusions.
