(* C05 -- Young's modulus is the scaled linear interpolation of the look-up
   table.  Property theorems only; each is closed by [exact] of a lemma proved
   in Proofs/C05.v and followed by Print Assumptions.

   PARTIAL by design (DESIGN.md 5/C05, 8): the Delaunay triangulation [tri]
   (qhull), the pixelation offset [delta] (exp) and the viscosity model [eta]
   (exp/pow) are oracles: universally quantified functions.  Every theorem
   holds for all of them; "linear interpolation" is relative to the
   triangulation the oracle returns.  Results are compared up to equality of
   rational numbers ([oqeq]/[req]); binary64 rounding is not modelled. *)
From Coq Require Import ZArith NArith QArith List Bool Permutation.
From Verif Require Import Model.C05 Proofs.C05 Proofs.C05_load Proofs.C05_mem.
Import ListNotations.
Open Scope Q_scope.

(* The scale-the-LUT route (global viscosity) returns, for every event, the
   specification: the linear interpolation of the unscaled, normalised LUT at
   (abscissa scaled to the LUT's channel width, pixelation-corrected
   deformation), times flow-rate ratio x viscosity ratio x (width ratio)^3;
   NaN where no triangle contains the point. *)
Theorem C05_scalar_route_is_scaled_interpolation :
  forall (tri : list pt -> list triangle) (delta : feat -> Q -> Q -> Q)
         (L : lut) (S : setup) (v : Q) (evs : list event),
    lut_ok L -> setup_ok S ->
    Forall2 oqeq (route_scalar tri delta L S v evs)
            (map (spec_emod tri delta L S v) evs).
Proof. exact route_scalar_spec. Qed.
Print Assumptions C05_scalar_route_is_scaled_interpolation.

(* The scale-the-data route (per-event viscosity) returns the same
   specification with the viscosity of each event (numpy broadcasting of the
   viscosity array: equal length or length one; anything else is an error). *)
Theorem C05_array_route_is_scaled_interpolation :
  forall (tri : list pt -> list triangle) (delta : feat -> Q -> Q -> Q)
         (L : lut) (S : setup) (vs : list Q) (evs : list event) (vs' : list Q),
    lut_ok L -> setup_ok S ->
    broadcast vs (length evs) = Some vs' ->
    exists r, route_array tri delta L S vs evs = Some r /\
              Forall2 oqeq r
                      (map2 (fun ev v => spec_emod tri delta L S v ev) evs vs').
Proof. exact route_array_spec. Qed.
Print Assumptions C05_array_route_is_scaled_interpolation.

(* Both routes agree when all events have the same viscosity. *)
Theorem C05_routes_agree :
  forall (tri : list pt -> list triangle) (delta : feat -> Q -> Q -> Q)
         (L : lut) (S : setup) (v : Q) (evs : list event) (vs : list Q),
    lut_ok L -> setup_ok S ->
    vs = repeat v (length evs) \/ vs = [v] ->
    exists r, route_array tri delta L S vs evs = Some r /\
              Forall2 oqeq r (route_scalar tri delta L S v evs).
Proof. exact routes_agree. Qed.
Print Assumptions C05_routes_agree.

(* Temperature given per event (all equal) or globally: same result. *)
Theorem C05_scalar_vs_array_temperature :
  forall (tri : list pt -> list triangle) (delta : feat -> Q -> Q -> Q)
         (eta : Q -> Q) (L : lut) (S : setup) (t : Q) (evs : list event),
    lut_ok L -> setup_ok S -> evs <> [] ->
    req (get_emodulus tri delta eta L S (MTempArray (repeat t (length evs))) evs)
        (get_emodulus tri delta eta L S (MTempScalar t) evs).
Proof. exact scalar_vs_array_temperature. Qed.
Print Assumptions C05_scalar_vs_array_temperature.

(* The value of an event does not depend on the other events of the call:
   a call on a concatenated batch is the concatenation of the calls. *)
Theorem C05_per_event_scalar :
  forall (tri : list pt -> list triangle) (delta : feat -> Q -> Q -> Q)
         (eta : Q -> Q) (L : lut) (S : setup) (m : medium)
         (e1 e2 : list event),
    scalar_medium m = true ->
    get_emodulus tri delta eta L S m (e1 ++ e2)
    = rapp (get_emodulus tri delta eta L S m e1)
           (get_emodulus tri delta eta L S m e2).
Proof. exact per_event_scalar. Qed.
Print Assumptions C05_per_event_scalar.

Theorem C05_per_event_array :
  forall (tri : list pt -> list triangle) (delta : feat -> Q -> Q -> Q)
         (eta : Q -> Q) (L : lut) (S : setup) (t1 t2 : list Q)
         (e1 e2 : list event),
    t1 <> [] -> t2 <> [] -> length t1 = length e1 -> length t2 = length e2 ->
    get_emodulus tri delta eta L S (MTempArray (t1 ++ t2)) (e1 ++ e2)
    = rapp (get_emodulus tri delta eta L S (MTempArray t1) e1)
           (get_emodulus tri delta eta L S (MTempArray t2) e2).
Proof. exact per_event_array. Qed.
Print Assumptions C05_per_event_array.

(* Reordering the batch reorders the result. *)
Theorem C05_per_event_permutation :
  forall (tri : list pt -> list triangle) (delta : feat -> Q -> Q -> Q)
         (L : lut) (S : setup) (v : Q) (evs evs' : list event),
    Permutation evs evs' ->
    Permutation (route_scalar tri delta L S v evs)
                (route_scalar tri delta L S v evs').
Proof. exact per_event_permutation. Qed.
Print Assumptions C05_per_event_permutation.

(* The i-th result is what a call with that event alone returns. *)
Theorem C05_event_alone_scalar :
  forall (tri : list pt -> list triangle) (delta : feat -> Q -> Q -> Q)
         (L : lut) (S : setup) (v : Q) (evs : list event) (i : nat)
         (ev : event),
    nth_error evs i = Some ev ->
    nth_error (route_scalar tri delta L S v evs) i
    = hd_error (route_scalar tri delta L S v [ev]).
Proof. exact event_alone_scalar. Qed.
Print Assumptions C05_event_alone_scalar.

Theorem C05_event_alone_array :
  forall (tri : list pt -> list triangle) (delta : feat -> Q -> Q -> Q)
         (L : lut) (S : setup) (vs : list Q) (evs : list event) (i : nat)
         (ev : event) (v : Q),
    length vs = length evs ->
    nth_error evs i = Some ev -> nth_error vs i = Some v ->
    exists r x, route_array tri delta L S vs evs = Some r /\
                route_array tri delta L S [v] [ev] = Some [x] /\
                nth_error r i = Some x.
Proof. exact event_alone_array. Qed.
Print Assumptions C05_event_alone_array.

(* Proportional to the viscosity (global and per event) ... *)
Theorem C05_proportional_to_viscosity :
  forall (tri : list pt -> list triangle) (delta : feat -> Q -> Q -> Q)
         (L : lut) (S : setup) (v k : Q) (evs : list event),
    lut_ok L -> setup_ok S ->
    Forall2 oqeq (route_scalar tri delta L S (v * k) evs)
            (map (omul k) (route_scalar tri delta L S v evs)).
Proof. exact prop_viscosity. Qed.
Print Assumptions C05_proportional_to_viscosity.

Theorem C05_proportional_to_viscosity_array :
  forall (tri : list pt -> list triangle) (delta : feat -> Q -> Q -> Q)
         (L : lut) (S : setup) (vs : list Q) (k : Q) (evs : list event)
         (r : list (option Q)),
    lut_ok L -> setup_ok S ->
    route_array tri delta L S vs evs = Some r ->
    exists r', route_array tri delta L S (map (fun v => v * k) vs) evs = Some r'
               /\ Forall2 oqeq r' (map (omul k) r).
Proof. exact prop_viscosity_array. Qed.
Print Assumptions C05_proportional_to_viscosity_array.

(* ... and to the flow rate (at a given numeric viscosity). *)
Theorem C05_proportional_to_flow_rate :
  forall (tri : list pt -> list triangle) (delta : feat -> Q -> Q -> Q)
         (L : lut) (S : setup) (v k : Q) (evs : list event),
    lut_ok L -> setup_ok S ->
    Forall2 oqeq (route_scalar tri delta L (with_flow S k) v evs)
            (map (omul k) (route_scalar tri delta L S v evs)).
Proof. exact prop_flow_rate. Qed.
Print Assumptions C05_proportional_to_flow_rate.

(* Joint geometric rescaling: channel width and pixel size x lam, area x
   lam^2 (volume x lam^3), flow rate x lam^3 leave the modulus unchanged,
   provided the pixelation offset depends on the abscissa in pixels only. *)
Theorem C05_geometric_rescale_invariant :
  forall (tri : list pt -> list triangle) (delta : feat -> Q -> Q -> Q)
         (L : lut) (S : setup) (v lam : Q) (evs : list event),
    lut_ok L -> setup_ok S -> 0 < lam -> delta_rescale delta lam ->
    Forall2 oqeq
            (route_scalar tri delta L (rescale_setup S lam) v
                          (map (rescale_event (l_feat L) lam) evs))
            (route_scalar tri delta L S v evs).
Proof. exact geometric_rescale_invariant. Qed.
Print Assumptions C05_geometric_rescale_invariant.

(* NaN exactly for events whose normalised point lies in no triangle of the
   triangulation of the LUT (both routes); independent of viscosity. *)
Theorem C05_nan_iff_outside :
  forall (tri : list pt -> list triangle) (delta : feat -> Q -> Q -> Q)
         (L : lut) (S : setup) (v : Q) (ev : event),
    lut_ok L -> setup_ok S ->
    (route_scalar tri delta L S v [ev] = [None]) <->
    (forall t, In t (spec_tris tri L) ->
               contains (spec_point delta L S ev) (spec_nn L) t = false).
Proof. exact nan_iff_outside. Qed.
Print Assumptions C05_nan_iff_outside.

Theorem C05_nan_iff_outside_array :
  forall (tri : list pt -> list triangle) (delta : feat -> Q -> Q -> Q)
         (L : lut) (S : setup) (v : Q) (ev : event),
    lut_ok L -> setup_ok S ->
    (route_array tri delta L S [v] [ev] = Some [None]) <->
    (forall t, In t (spec_tris tri L) ->
               contains (spec_point delta L S ev) (spec_nn L) t = false).
Proof. exact nan_iff_outside_array. Qed.
Print Assumptions C05_nan_iff_outside_array.

(* A finite result is the barycentric interpolation in a triangle containing
   the normalised event, times the scaling factor. *)
Theorem C05_finite_is_scaled_interpolation :
  forall (tri : list pt -> list triangle) (delta : feat -> Q -> Q -> Q)
         (L : lut) (S : setup) (v : Q) (ev : event) (e : Q),
    lut_ok L -> setup_ok S ->
    route_scalar tri delta L S v [ev] = [Some e] ->
    exists t, In t (spec_tris tri L) /\
              contains (spec_point delta L S ev) (spec_nn L) t = true /\
              e == value_in (spec_point delta L S ev) (spec_nn L) t
                   * emod_factor (l_cw L) (s_cw S) (l_fr L) (s_fr S)
                                 (l_visc L) v.
Proof. exact finite_is_scaled_interpolation. Qed.
Print Assumptions C05_finite_is_scaled_interpolation.

(* Linear interpolation: in a triangle containing the point the value lies
   between the smallest and largest node value ... *)
Theorem C05_interpolation_between_node_values :
  forall (p : pt) (nn : list nnode) (ts : list triangle) (e : Q),
    find_tri p nn ts = Some e ->
    exists a b c, In a nn /\ In b nn /\ In c nn /\
                  inside p (fst a) (fst b) (fst c) = true /\
                  forall lo hi,
                    lo <= snd a -> lo <= snd b -> lo <= snd c ->
                    snd a <= hi -> snd b <= hi -> snd c <= hi ->
                    lo <= e <= hi.
Proof. exact find_tri_between. Qed.
Print Assumptions C05_interpolation_between_node_values.

(* ... at a node it is the node's value (for a triangulation with the vertex
   property) ... *)
Theorem C05_interpolation_at_node :
  forall (p : pt) (va : Q) (nn : list nnode) (ts : list triangle) (e : Q),
    vertex_property p va nn ts ->
    find_tri p nn ts = Some e -> e == va.
Proof. exact find_tri_at_node. Qed.
Print Assumptions C05_interpolation_at_node.

Theorem C05_interpolation_at_vertex :
  forall (a b c : pt) (va vb vc : Q),
    ~ cross a b c == 0 ->
    inside a a b c = true /\ interp3 a a b c va vb vc == va.
Proof. exact interp_at_node_a. Qed.
Print Assumptions C05_interpolation_at_vertex.

(* ... and on an edge shared by two triangles it does not depend on the
   triangle (the interpolant is continuous, so the choice among several
   containing triangles is immaterial). *)
Theorem C05_interpolation_on_shared_edge :
  forall (p a b c c' : pt) (va vb vc vc' : Q),
    ~ cross a b c == 0 -> ~ cross a b c' == 0 -> cross a b p == 0 ->
    interp3 p a b c va vb vc == interp3 p a b c' va vb vc'.
Proof. exact interp_on_edge. Qed.
Print Assumptions C05_interpolation_on_shared_edge.

(* NaN iff no triangle contains the point; a finite value comes from a
   containing triangle. *)
Theorem C05_find_tri_none_iff :
  forall (p : pt) (nn : list nnode) (ts : list triangle),
    find_tri p nn ts = None <->
    (forall t, In t ts -> contains p nn t = false).
Proof. exact find_tri_none. Qed.
Print Assumptions C05_find_tri_none_iff.

(* A finite result lies within the range of the table's moduli times the
   scaling factor: interpolation never over- or undershoots the table. *)
Theorem C05_result_within_lut_range :
  forall (tri : list pt -> list triangle) (delta : feat -> Q -> Q -> Q)
         (L : lut) (S : setup) (v : Q) (ev : event) (e lo hi : Q),
    lut_ok L -> setup_ok S -> 0 <= v ->
    0 <= s_fr S ->
    (forall n, In n (l_nodes L) -> lo <= ne n <= hi) ->
    route_scalar tri delta L S v [ev] = [Some e] ->
    lo * emod_factor (l_cw L) (s_cw S) (l_fr L) (s_fr S) (l_visc L) v <= e
    /\ e <= hi * emod_factor (l_cw L) (s_cw S) (l_fr L) (s_fr S) (l_visc L) v.
Proof. exact result_within_lut_range. Qed.
Print Assumptions C05_result_within_lut_range.

(* The specification is a function of the numbers, not of their
   representation as fractions. *)
Theorem C05_spec_depends_on_values_only :
  forall (tri : list pt -> list triangle) (delta : feat -> Q -> Q -> Q)
         (L : lut) (S : setup) (v : Q) (ev ev' : event),
    (forall f px x x', x == x' -> delta f px x == delta f px x') ->
    fst ev == fst ev' -> snd ev == snd ev' ->
    spec_emod tri delta L S v ev = spec_emod tri delta L S v ev'.
Proof. exact spec_emod_compat. Qed.
Print Assumptions C05_spec_depends_on_values_only.

(* The documented pixelation offset (offset + three exponential decays in
   the abscissa measured in pixels) satisfies the hypothesis of the
   rescaling theorem; all that is assumed of exp is that it is a function of
   the number.  Hence the rescaling invariance for the real formula: *)
Theorem C05_pixelation_offset_rescale :
  forall (expo : Q -> Q) (lam : Q),
    (forall a b, a == b -> expo a == expo b) ->
    ~ lam == 0 -> delta_rescale (pxdelta expo) lam.
Proof. exact pxdelta_rescale. Qed.
Print Assumptions C05_pixelation_offset_rescale.

Theorem C05_geometric_rescale_invariant_documented_offset :
  forall (tri : list pt -> list triangle) (expo : Q -> Q)
         (L : lut) (S : setup) (v lam : Q) (evs : list event),
    (forall a b, a == b -> expo a == expo b) ->
    lut_ok L -> setup_ok S -> 0 < lam ->
    Forall2 oqeq
            (route_scalar tri (pxdelta expo) L (rescale_setup S lam) v
                          (map (rescale_event (l_feat L) lam) evs))
            (route_scalar tri (pxdelta expo) L S v evs).
Proof. exact geometric_rescale_invariant_pxdelta. Qed.
Print Assumptions C05_geometric_rescale_invariant_documented_offset.

(* ---- the laws for the per-event (array) route ---------------------------- *)
Theorem C05_proportional_to_flow_rate_array :
  forall (tri : list pt -> list triangle) (delta : feat -> Q -> Q -> Q)
         (L : lut) (S : setup) (vs : list Q) (k : Q) (evs : list event)
         (r : list (option Q)),
    lut_ok L -> setup_ok S ->
    route_array tri delta L S vs evs = Some r ->
    exists r', route_array tri delta L (with_flow S k) vs evs = Some r' /\
               Forall2 oqeq r' (map (omul k) r).
Proof. exact prop_flow_rate_array. Qed.
Print Assumptions C05_proportional_to_flow_rate_array.

Theorem C05_geometric_rescale_invariant_array :
  forall (tri : list pt -> list triangle) (delta : feat -> Q -> Q -> Q)
         (L : lut) (S : setup) (vs : list Q) (lam : Q) (evs : list event)
         (r : list (option Q)),
    lut_ok L -> setup_ok S -> 0 < lam -> delta_rescale delta lam ->
    route_array tri delta L S vs evs = Some r ->
    exists r', route_array tri delta L (rescale_setup S lam) vs
                           (map (rescale_event (l_feat L) lam) evs) = Some r' /\
               Forall2 oqeq r' r.
Proof. exact geometric_rescale_invariant_array. Qed.
Print Assumptions C05_geometric_rescale_invariant_array.

Theorem C05_geometric_rescale_invariant_array_documented_offset :
  forall (tri : list pt -> list triangle) (expo : Q -> Q)
         (L : lut) (S : setup) (vs : list Q) (lam : Q) (evs : list event)
         (r : list (option Q)),
    (forall a b, a == b -> expo a == expo b) ->
    lut_ok L -> setup_ok S -> 0 < lam ->
    route_array tri (pxdelta expo) L S vs evs = Some r ->
    exists r', route_array tri (pxdelta expo) L (rescale_setup S lam) vs
                           (map (rescale_event (l_feat L) lam) evs) = Some r' /\
               Forall2 oqeq r' r.
Proof. exact geometric_rescale_invariant_array_pxdelta. Qed.
Print Assumptions C05_geometric_rescale_invariant_array_documented_offset.

(* ---- load.py: files, EXTERNAL_LUTS, arrays in memory --------------------- *)
(* Any sequence of get_emodulus calls and register_lut calls (quiet: the user
   does not rewrite files or modify arrays himself) leaves the files,
   the built-in tables and every array that existed before (the caller's
   (array, meta) tables) unchanged; registry entries are only added, never
   changed.  (get_emodulus scales and normalises IN PLACE, but only the array
   load_lut allocated for that call.) *)
Theorem C05_tables_not_modified :
  forall (tri : list pt -> list triangle) (delta : feat -> Q -> Q -> Q)
         (eta : Q -> Q) (ops : list op),
    forallb quiet ops = true ->
    forall w : world, pres w (fst (run_ops tri delta eta w ops)).
Proof. exact run_ops_pres. Qed.
Print Assumptions C05_tables_not_modified.

(* get_emodulus calls alone do not touch the registry at all *)
Theorem C05_calls_leave_registry :
  forall (tri : list pt -> list triangle) (delta : feat -> Q -> Q -> Q)
         (eta : Q -> Q) (ops : list op),
    only_calls ops = true ->
    forall w, agree w (fst (run_ops tri delta eta w ops)).
Proof. exact run_calls_agree. Qed.
Print Assumptions C05_calls_leave_registry.

(* a registered / built-in / path name keeps loading the same table *)
Theorem C05_registered_lut_stable :
  forall (w w' : world) (x p : name),
    pres w w' -> get_lut_path w x = Ok p ->
    loaded w' (DName x) = loaded w (DName x).
Proof. exact loaded_name_stable. Qed.
Print Assumptions C05_registered_lut_stable.

(* the value of a call does not depend on earlier calls / registrations *)
Theorem C05_call_after_history :
  forall (tri : list pt -> list triangle) (delta : feat -> Q -> Q -> Q)
         (eta : Q -> Q) (w : world) (ops : list op) (d : lutdata)
         (S : setup) (m : medium) (evs : list event),
    forallb quiet ops = true ->
    data_valid w d ->
    snd (get_emodulus_w tri delta eta (fst (run_ops tri delta eta w ops)) d S m evs)
    = snd (get_emodulus_w tri delta eta w d S m evs).
Proof. exact call_after_history. Qed.
Print Assumptions C05_call_after_history.

Theorem C05_call_after_calls :
  forall (tri : list pt -> list triangle) (delta : feat -> Q -> Q -> Q)
         (eta : Q -> Q) (w : world) (ops : list op) (d : lutdata)
         (S : setup) (m : medium) (evs : list event),
    only_calls ops = true ->
    match d with DTuple a _ => (a < w_next w)%N | DName _ => True end ->
    snd (get_emodulus_w tri delta eta (fst (run_ops tri delta eta w ops)) d S m evs)
    = snd (get_emodulus_w tri delta eta w d S m evs).
Proof. exact call_after_calls. Qed.
Print Assumptions C05_call_after_calls.

(* the result of a call with memory effects is the pure get_emodulus of the
   loaded table (column selection by feature name included) *)
Theorem C05_call_result_is_pure :
  forall (tri : list pt -> list triangle) (delta : feat -> Q -> Q -> Q)
         (eta : Q -> Q) (w : world) (d : lutdata) (S : setup) (m : medium)
         (evs : list event),
    snd (get_emodulus_w tri delta eta w d S m evs)
    = pure_result tri delta eta (loaded w d) S m evs.
Proof. exact get_emodulus_w_result. Qed.
Print Assumptions C05_call_result_is_pure.

Theorem C05_register_then_resolve :
  forall (w : world) (p i : name) (w' : world),
    register_lut w p (Some i) = (w', Ok tt) ->
    zlookup i (w_files w) = None ->
    get_lut_path w' i = Ok p.
Proof. exact register_then_resolve. Qed.
Print Assumptions C05_register_then_resolve.

(* The file system is part of the state: between calls the user may rewrite a
   LUT file at the same path (OWriteFile) and modify his own (array, meta)
   table in place (OMutate).  get_emodulus calls in the history never matter:
   erasing them all from the history gives the same result, i.e. every call
   sees the CURRENT files, registry and arrays (no caching across calls). *)
Theorem C05_calls_never_matter :
  forall (tri : list pt -> list triangle) (delta : feat -> Q -> Q -> Q)
         (eta : Q -> Q) (w : world) (ops : list op) (d : lutdata)
         (S : setup) (m : medium) (evs : list event),
    forallb (user_op (w_next w)) ops = true ->
    match d with DTuple a _ => (a < w_next w)%N | DName _ => True end ->
    snd (get_emodulus_w tri delta eta (fst (run_ops tri delta eta w ops)) d S m evs)
    = snd (get_emodulus_w tri delta eta
                          (fst (run_ops tri delta eta w (erase_calls ops)))
                          d S m evs).
Proof. exact calls_never_matter. Qed.
Print Assumptions C05_calls_never_matter.

Theorem C05_call_sees_rewritten_file :
  forall (w : world) (p : name) (f : lutfile),
    zlookup p (w_files w) <> None ->
    loaded (write_file w p f) (DName p) = load_mtext f.
Proof. exact call_sees_rewritten_file. Qed.
Print Assumptions C05_call_sees_rewritten_file.

(* ---- audit round --------------------------------------------------------- *)
(* NaN exactly outside the SUPPORT of the table (the convex hull of its
   nodes: the union of the closed triangles spanned by three nodes), for any
   triangulation oracle whose triangles cover the support.  The hypothesis is
   false for tri = [] (ex_not_covers) and true for a real triangulation
   (ex_tri_covers); the harness checks per run that qhull's simplices tile
   the hull. *)
Theorem C05_nan_iff_outside_support :
  forall (tri : list pt -> list triangle) (delta : feat -> Q -> Q -> Q)
         (L : lut) (S : setup) (v : Q) (ev : event),
    lut_ok L -> setup_ok S ->
    tri_covers (spec_nn L) (spec_tris tri L) ->
    (route_scalar tri delta L S v [ev] = [None]) <->
    ~ in_support (spec_point delta L S ev) (spec_nn L).
Proof. exact nan_iff_outside_support. Qed.
Print Assumptions C05_nan_iff_outside_support.

Theorem C05_nan_iff_outside_support_array :
  forall (tri : list pt -> list triangle) (delta : feat -> Q -> Q -> Q)
         (L : lut) (S : setup) (v : Q) (ev : event),
    lut_ok L -> setup_ok S ->
    tri_covers (spec_nn L) (spec_tris tri L) ->
    (route_array tri delta L S [v] [ev] = Some [None]) <->
    ~ in_support (spec_point delta L S ev) (spec_nn L).
Proof. exact nan_iff_outside_support_array. Qed.
Print Assumptions C05_nan_iff_outside_support_array.

(* DOCUMENTS A REPAIRED DEFECT (C05-routes-disagree-grid-lut, fix 566665b):
   the removed route that scaled the LUT instead of the data computes the
   same numbers; the defect was that qhull saw differently ROUNDED
   coordinates.  route_scale_lut is tied to nothing. *)
Theorem C05_removed_scale_lut_route_agrees :
  forall (tri : list pt -> list triangle) (delta : feat -> Q -> Q -> Q)
         (L : lut) (S : setup) (v : Q) (evs : list event),
    lut_ok L -> setup_ok S ->
    Forall2 oqeq (route_scale_lut tri delta L S v evs)
            (route_scalar tri delta L S v evs).
Proof. exact route_scale_lut_agrees. Qed.
Print Assumptions C05_removed_scale_lut_route_agrees.

(* The caller's arrays (abscissa, deform AND the temperature array) live in
   a heap; get_emodulus_mem follows np.array(copy=copy), the in-place
   pixelation correction and normalisation, reads the temperature array when
   get_viscosity is called and computes the result FROM THE ARRAYS AS THEY
   ARE when griddata is called.  copy=True (default): no array that existed
   before the call is modified, ... *)
Theorem C05_callers_arrays_not_modified :
  forall (tri : list pt -> list triangle) (delta : feat -> Q -> Q -> Q)
         (eta : Q -> Q) (m0 : mem) (L : lut) (S : setup) (md : mmedium)
         (ax ad a : N),
    (a < h_next m0)%N ->
    mread (fst (get_emodulus_mem tri delta eta true m0 L S md ax ad)) a
    = mread m0 a.
Proof. exact mem_copy_preserves. Qed.
Print Assumptions C05_callers_arrays_not_modified.

(* ... and the returned values are the pure get_emodulus of the values the
   arrays held, whatever the addresses (also the same array passed twice). *)
Theorem C05_mem_result_is_pure_copy :
  forall (tri : list pt -> list triangle) (delta : feat -> Q -> Q -> Q)
         (eta : Q -> Q) (m0 : mem) (L : lut) (S : setup) (md : mmedium)
         (ax ad : N),
    (ax < h_next m0)%N -> (ad < h_next m0)%N ->
    (forall a, md = MMArray a -> (a < h_next m0)%N) ->
    snd (get_emodulus_mem tri delta eta true m0 L S md ax ad)
    = get_emodulus tri delta eta L S (medium_of m0 md)
                   (combine (mread m0 ax) (mread m0 ad)).
Proof. exact mem_result_is_pure_copy. Qed.
Print Assumptions C05_mem_result_is_pure_copy.

(* copy=False (documented: inputs are overridden): the result is still the
   pure one PROVIDED the arrays are distinct (ex_alias_nocopy_differs shows
   the hypothesis is needed); exactly the deform array is overwritten. *)
Theorem C05_mem_result_is_pure_nocopy :
  forall (tri : list pt -> list triangle) (delta : feat -> Q -> Q -> Q)
         (eta : Q -> Q) (m0 : mem) (L : lut) (S : setup) (md : mmedium)
         (ax ad : N),
    (ax < h_next m0)%N -> (ad < h_next m0)%N -> ax <> ad ->
    (forall a, md = MMArray a -> (a < h_next m0)%N /\ a <> ad) ->
    snd (get_emodulus_mem tri delta eta false m0 L S md ax ad)
    = get_emodulus tri delta eta L S (medium_of m0 md)
                   (combine (mread m0 ax) (mread m0 ad)).
Proof. exact mem_result_is_pure_nocopy. Qed.
Print Assumptions C05_mem_result_is_pure_nocopy.

Theorem C05_nocopy_only_deform_overwritten :
  forall (tri : list pt -> list triangle) (delta : feat -> Q -> Q -> Q)
         (eta : Q -> Q) (m0 : mem) (L : lut) (S : setup) (md : mmedium)
         (ax ad a : N),
    (a < h_next m0)%N -> a <> ad ->
    mread (fst (get_emodulus_mem tri delta eta false m0 L S md ax ad)) a
    = mread m0 a.
Proof. exact mem_nocopy_others. Qed.
Print Assumptions C05_nocopy_only_deform_overwritten.

Theorem C05_nocopy_deform_contents :
  forall (tri : list pt -> list triangle) (delta : feat -> Q -> Q -> Q)
         (eta : Q -> Q) (m0 : mem) (L : lut) (S : setup) (md : mmedium)
         (ax ad : N),
    (ad < h_next m0)%N -> ax <> ad ->
    mread (fst (get_emodulus_mem tri delta eta false m0 L S md ax ad)) ad
    = map (fun d => normq d (lmax (map nd (l_nodes L))))
          (if Qeq_bool (s_px S) 0 then mread m0 ad
           else map2 (fun x d => d - delta (l_feat L) (s_px S) x)
                     (mread m0 ax) (mread m0 ad)).
Proof. exact mem_nocopy_deform. Qed.
Print Assumptions C05_nocopy_deform_contents.

(* Re-binding an identifier (remove it from EXTERNAL_LUTS, register it again
   with another file): the identifier then resolves to the NEW file; together
   with C05_calls_never_matter (histories with OUnregister) a call by
   identifier interpolates the table CURRENTLY registered. *)
Theorem C05_rebind_resolves_new :
  forall (w : world) (i p q : name) (w1 w2 : world),
    zlookup i (w_files w) = None -> zlookup i (w_internal w) = None ->
    register_lut w p (Some i) = (w1, Ok tt) ->
    register_lut (unregister w1 i) q (Some i) = (w2, Ok tt) ->
    get_lut_path w2 i = Ok q.
Proof. exact rebind_resolves_new. Qed.
Print Assumptions C05_rebind_resolves_new.
