(* C06 -- computed (ancillary) features reflect the current data and settings.
   Property theorems only; each is closed by [exact] of a lemma proved in
   Proofs/C06*.v and followed by Print Assumptions.
   [registry] is GENERATED from the dclab tree under test
   (harness/translators/anc_trace.py -> Gen/AncRegistry.v). *)
From Coq Require Import ZArith List Bool.
From Verif Require Import Model.C06 Proofs.C06 Gen.AncRegistry Proofs.C06_registry.
Import ListNotations.
Open Scope Z_scope.

(* Cache invariant, for EVERY registry and every history of SetCfg / DelCfg /
   SetTemp / Read / Contains / Features from a freshly opened dataset: each
   cache slot was filled by a recipe of the registry, has the shape of that
   recipe's hash and (generic methods) holds that recipe's method applied to
   the hashed ingredients. *)
Theorem C06_cache_invariant :
  forall reg b ops, Inv reg (run_state reg (fresh b) ops).
Proof. exact (fun reg b ops => run_inv reg ops (fresh b) (fresh_inv reg b)). Qed.
Print Assumptions C06_cache_invariant.

(* Cache coherence including chains of length 2, for EVERY registry whose
   colliding instances are interchangeable and every history: a read returns
   exactly what a dataset with the same data/configuration and an empty cache
   returns, provided (guard 1) the cache did not change which recipe is
   selected and (guard 2, [chain_recipe]) the selected recipe reads only
   ingredients that are in its cache key, its method cannot reject its inputs,
   and every required feature is stored or is itself computed from stored
   features by such a recipe whose selection cannot depend on the cache
   ([stable]). Not covered: chains of length >= 3, compute_emodulus, the
   2-channel crosstalk correction. *)
Theorem C06_read_coherent_chain_partial :
  forall reg b ops f,
    collide_ok reg = true ->
    let st := run_state reg (fresh b) ops in
    select SF reg st f = select SF reg (clear st) f ->
    (forall r, select SF reg st f = Some r ->
       chain_recipe reg (s_base st) r = true) ->
    snd (read RF reg st f) = snd (read RF reg (clear st) f).
Proof. exact history_read_coherent_chain2. Qed.
Print Assumptions C06_read_coherent_chain_partial.

(* ... instantiated with the generated table *)
Theorem C06_read_coherent_chain_registry_partial :
  forall b ops f,
    let st := run_state registry (fresh b) ops in
    select SF registry st f = select SF registry (clear st) f ->
    (forall r, select SF registry st f = Some r ->
       forallb (chain_feat_reg (s_base st)) (r_feats r) = true
       /\ known_incomplete r = false) ->
    snd (read RF registry st f) = snd (read RF registry (clear st) f).
Proof. exact registry_read_coherent_chain. Qed.
Print Assumptions C06_read_coherent_chain_registry_partial.

(* Cache coherence, for EVERY registry whose colliding instances are
   interchangeable and every history: a read returns exactly what a dataset
   with the same data/configuration and an empty cache returns, provided
   (guard 1) the cache did not change which recipe is selected (excludes
   finding C06-cached-stays-listed) and (guard 2, [coherent_recipe]) the
   selected recipe has stored required features, reads only ingredients that
   are in its cache key (required features/keys or the hashed req_func
   result), and its method is generic or the full 3-channel crosstalk
   correction. md5 is modelled as injective. Not covered: required features
   that are themselves computed (chains), compute_emodulus. *)
Theorem C06_read_coherent_flat_partial :
  forall reg b ops f,
    collide_ok reg = true ->
    let st := run_state reg (fresh b) ops in
    select SF reg st f = select SF reg (clear st) f ->
    (forall r, select SF reg st f = Some r ->
       coherent_recipe (s_base st) r = true) ->
    snd (read RF reg st f) = snd (read RF reg (clear st) f).
Proof. exact history_read_coherent. Qed.
Print Assumptions C06_read_coherent_flat_partial.

(* ... instantiated with the generated table: every recipe except the five
   emodulus and the six 2-channel crosstalk instances (the listed findings)
   satisfies guard 2 as soon as its required features are stored; this
   includes ml_class and bright_bc_*/bright_perc_* (hashed req_func result)
   since their repair. *)
Theorem C06_read_coherent_registry_partial :
  forall b ops f,
    let st := run_state registry (fresh b) ops in
    select SF registry st f = select SF registry (clear st) f ->
    (forall r, select SF registry st f = Some r ->
       forallb (in_base (s_base st)) (r_feats r) = true
       /\ known_incomplete r = false) ->
    snd (read RF registry st f) = snd (read RF registry (clear st) f).
Proof. exact registry_read_coherent. Qed.
Print Assumptions C06_read_coherent_registry_partial.

(* What the fresh dataset returns is the specification: the recipe's method
   applied to the CURRENT value of every ingredient the method reads. *)
Theorem C06_fresh_read_is_method_on_current_inputs :
  forall reg b f r,
    feat_raw b f = None -> select SF reg (fresh b) f = Some r ->
    forallb (in_base b) (r_feats r) = true -> plain_method r = true ->
    snd (read RF reg (fresh b) f) = Ok (spec_value reg b r f).
Proof. exact read_fresh_is_spec. Qed.
Print Assumptions C06_fresh_read_is_method_on_current_inputs.

(* "Reported as available exactly when reading succeeds", positive part: on
   ANY state, for any registry, `feat in ds` is True iff ds[feat] returns a
   value, provided a cached feature is still selectable (excludes finding
   C06-cached-stays-listed) and the selected recipe has stored required
   features and a method that cannot reject its inputs (excludes
   compute_emodulus and the 2-channel crosstalk correction, see the
   refutations below). *)
Theorem C06_available_iff_readable_partial :
  forall reg st f,
    (has f (s_cache st) = true ->
     in_base (s_base st) f = true \/ select SF reg st f <> None) ->
    (forall r, select SF reg st f = Some r ->
       forallb (in_base (s_base st)) (r_feats r) = true
       /\ plain_method r = true) ->
    (contains AF reg st f = true <-> exists v, snd (read RF reg st f) = Ok v).
Proof. exact available_iff_readable. Qed.
Print Assumptions C06_available_iff_readable_partial.

Theorem C06_available_iff_readable_registry_partial :
  forall st f,
    (has f (s_cache st) = true ->
     in_base (s_base st) f = true \/ select SF registry st f <> None) ->
    (forall r, select SF registry st f = Some r ->
       forallb (in_base (s_base st)) (r_feats r) = true
       /\ known_incomplete r = false) ->
    (contains AF registry st f = true
     <-> exists v, snd (read RF registry st f) = Ok v).
Proof. exact registry_available_iff_readable. Qed.
Print Assumptions C06_available_iff_readable_registry_partial.

(* Pinned declarations: the emodulus, crosstalk and time recipes of the tree
   under test declare at least the required features/keys (same name and
   priority) that the reviewed tree declared -- dropping a declared key from
   a cache key breaks this theorem. *)
Theorem C06_registry_declares_baseline :
  forall b, In b baseline ->
    exists r, In r registry /\ declares_at_least b r = true.
Proof. exact registry_declares_baseline. Qed.
Print Assumptions C06_registry_declares_baseline.

(* Registry completeness (bound: the generated table; ingredients observed in
   the traced environments): every recipe not named by a known finding reads
   only ingredients that its cache key covers. *)
Theorem C06_registry_complete_partial :
  forall r, In r registry -> known_incomplete r = false ->
            uses_declared r = true.
Proof. exact registry_complete_partial. Qed.
Print Assumptions C06_registry_complete_partial.


(* Instances whose cache keys can coincide have the same required features,
   method and ingredients (so a slot filled by one may be used by the other). *)
Theorem C06_registry_collisions_harmless : collide_ok registry = true.
Proof. exact registry_collide_ok. Qed.
Print Assumptions C06_registry_collisions_harmless.

(* Emodulus: for all 2^6 present/absent combinations of {lut, medium,
   temperature, viscosity, viscosity model, temp feature} (medium known or
   "other") the recipe chosen is the one of the documented precedence
   C > B > A. *)
Theorem C06_emodulus_precedence :
  forall (lut med tmp visc vm ht : bool) (medv : Z),
    medv = 1 \/ medv = 4 ->
    sel_scenario registry (emod_base lut med tmp visc vm ht medv)
    = spec_scenario lut med tmp visc ht.
Proof. exact emodulus_precedence. Qed.
Print Assumptions C06_emodulus_precedence.

(* ... and compute_emodulus uses the inputs of that scenario, unless a
   viscosity is configured next to a medium (listed finding). *)
Theorem C06_emodulus_inputs_partial :
  forall (lut med tmp visc vm ht : bool),
    visc && med = false ->
    spec_scenario lut med tmp visc ht <> 0 ->
    taken lut med tmp visc vm ht 1 = spec_scenario lut med tmp visc ht.
Proof. exact emodulus_inputs_partial. Qed.
Print Assumptions C06_emodulus_inputs_partial.

(* The listed findings (emodulus available-but-unreadable, stale values of
   the 2-channel crosstalk correction and of emodulus next to a viscosity,
   cached features that stay listed) are witnessed by the booleans
   [finding_witnesses] of Proofs/C06_registry.v, evaluated by the harness;
   they are not theorems, so repairing a recorded defect does not break the
   build. *)
