(* C06 -- placeholder, replaced below *)
From Coq Require Import ZArith List Bool.
From Verif Require Import Model.C06.
Theorem C06_stub : True.
Proof. exact I. Qed.
Print Assumptions C06_stub.
