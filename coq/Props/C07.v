(* C07 — basin-provided features equal the origin's data for the mapped
   events.  Property theorems only; each is closed by [exact] of a lemma
   proved in Proofs/C07.v and followed by Print Assumptions. *)
From Coq Require Import ZArith List Bool.
From Verif Require Import Model.C07 Proofs.C07.
Import ListNotations.
Open Scope Z_scope.

(* All access routes of the mapping proxy (uncached integer index, per-index
   loop for images/masks/..., cached array for scalars) return exactly what
   numpy indexing of origin[basinmap] returns, for every map that can be read
   (repeats, permutations, supersets included), every index (integer, slice
   with step, boolean array, integer array, [:]) and every cache state
   reachable; the cache stays correct. *)
Theorem C07_proxy_routes_agree :
  forall (A : Type) (feat : list A) (bmap : list Z) (is_scalar : bool)
         (mapped : list A),
    gather feat bmap = Some mapped ->
    forall (cache : option (list A)) (ix : index),
      (cache = None \/ (is_scalar = true /\ cache = Some mapped)) ->
      snd (proxy_getitem A feat bmap is_scalar cache ix) = np_index mapped ix
      /\ (fst (proxy_getitem A feat bmap is_scalar cache ix) = None \/
          (is_scalar = true /\
           fst (proxy_getitem A feat bmap is_scalar cache ix) = Some mapped)).
Proof. exact @proxy_routes_agree. Qed.
Print Assumptions C07_proxy_routes_agree.

(* Every map whose entries are events of the basin can be read. *)
Theorem C07_in_range_maps_readable :
  forall (A : Type) (l : list A) (m : list Z),
    in_range (zlen l) m = true -> exists d, gather l m = Some d.
Proof. exact @gather_in_range. Qed.
Print Assumptions C07_in_range_maps_readable.

(* One filtered export: for a basin of the source with any mapping ("same" or
   mapped) through which the source shows src_data, the basin definition
   written to the exported file shows exactly the filtered events. *)
Theorem C07_export_map_compose :
  forall (basin_data : list Z) (m : option (list Z)) (src_data : list Z)
         (filt : list bool),
    view_through basin_data m = Some src_data ->
    zlen src_data = zlen filt ->
    exists m', export_map filt m = Some m' /\
               gather basin_data m' = Some (mask filt src_data).
Proof. exact export_map_sound. Qed.
Print Assumptions C07_export_map_compose.

(* Export of a hierarchy child: upstream maps of the root are translated to
   the child's events. *)
Theorem C07_hierarchy_map_compose :
  forall (basin_data : list Z) (m : option (list Z))
         (root_data idx_root child_data : list Z),
    view_through basin_data m = Some root_data ->
    gather root_data idx_root = Some child_data ->
    exists m', hier_map idx_root m = Some m' /\
               gather basin_data m' = Some child_data.
Proof. exact hier_map_sound. Qed.
Print Assumptions C07_hierarchy_map_compose.

(* Chains of filtered exports of any depth >= 1: the map stored at the end of
   the chain reads from the origin exactly the events that survive all the
   filters, in order. *)
Theorem C07_chain_feature :
  forall (origin : list Z) (f0 : list bool) (filts : list (list bool)),
    zlen f0 = zlen origin ->
    chain_ok (count_true f0) filts = true ->
    exists m', chain_map None (f0 :: filts) = Some m' /\
               gather origin m' = Some (chain_data origin (f0 :: filts)).
Proof. exact chain_feature. Qed.
Print Assumptions C07_chain_feature.

(* Features stored in the file itself take precedence over all basins. *)
Theorem C07_innate_precedence :
  forall (st : store) (fid : nat) (fl : file) (f : Z) (d : list Z),
    get_file st fid = Some fl ->
    assoc f (f_innate fl) = Some d ->
    resolve st fid f = Some d.
Proof. exact innate_precedence_resolve. Qed.
Print Assumptions C07_innate_precedence.

(* store_basin: the basinmap feature that is reused or written holds the
   requested map, is one of basinmap0..9, and earlier maps are unchanged. *)
Theorem C07_basinmap_alloc_sound :
  forall (slots : list (option (list Z))) (m : list Z) (k : nat)
         (slots' : list (option (list Z))),
    length slots = 10%nat ->
    alloc slots m = Some (k, slots') ->
    (k < 10)%nat /\ slot slots' k = Some m /\ length slots' = 10%nat /\
    (forall j m0, slot slots j = Some m0 -> slot slots' j = Some m0).
Proof. exact alloc_sound. Qed.
Print Assumptions C07_basinmap_alloc_sound.

(* ... and it only fails when all ten features hold different maps. *)
Theorem C07_basinmap_alloc_complete :
  forall (slots : list (option (list Z))) (m : list Z),
    alloc slots m = None ->
    forall c, (c < 10)%nat -> exists m', slot slots c = Some m' /\ m' <> m.
Proof. exact alloc_fails. Qed.
Print Assumptions C07_basinmap_alloc_complete.

(* Any sequence of store_basin calls (reuse by equality, explicit names):
   afterwards every basin definition written refers to a basinmap feature
   holding exactly the map requested for it, and maps present before are
   unchanged. *)
Theorem C07_store_basins_sound :
  forall (sbs : list sbasin) (fl fl' : file),
    length (f_slots fl) = 10%nat ->
    Forall (fun sb => match sb with
                      | SBFile _ (Some _) (Some k) _ => 0 <= k < 10
                      | _ => True
                      end) sbs ->
    store_basins fl sbs = Some fl' ->
    length (f_slots fl') = 10%nat /\
    f_innate fl' = f_innate fl /\
    (forall j m0, slot (f_slots fl) j = Some m0 ->
                  slot (f_slots fl') j = Some m0) /\
    exists bs, f_basins fl' = f_basins fl ++ bs /\
               Forall2 (fun sb b => slot_holds (f_slots fl') b (sb_map sb))
                       sbs bs.
Proof. exact store_basins_sound. Qed.
Print Assumptions C07_store_basins_sound.

(* Export of a filtered hierarchy child: translation to child events followed
   by the filter, for any upstream mapping. *)
Theorem C07_export_child_map_compose :
  forall (basin_data : list Z) (m : option (list Z))
         (root_data idx_root child_data : list Z) (filt : list bool),
    view_through basin_data m = Some root_data ->
    gather root_data idx_root = Some child_data ->
    zlen child_data = zlen filt ->
    exists m1 m', hier_map idx_root m = Some m1 /\
                  export_map filt (Some m1) = Some m' /\
                  gather basin_data m' = Some (mask filt child_data).
Proof. exact export_child_map_compose. Qed.
Print Assumptions C07_export_child_map_compose.

(* In any store of files whose stored features and basin definitions are
   consistent with the measurement (store_sound), the complete lookup of
   RTDCBase.__getitem__ (innate, internal, file basins in priority order,
   basins of basins to any depth) returns, for every feature it can read, the
   origin's feature at the origin events of the file. *)
Theorem C07_lookup_sound :
  forall (truth : Z -> list Z) (omap : nat -> list Z) (st : store)
         (fid : nat) (f : Z) (d : list Z),
    store_sound truth omap st ->
    resolve st fid f = Some d ->
    gather (truth f) (omap fid) = Some d.
Proof. exact resolve_sound. Qed.
Print Assumptions C07_lookup_sound.

(* ... and every access pattern on the object handed out (direct data or
   mapping proxy in any reachable cache state) equals numpy indexing of the
   origin's feature at the file's origin events. *)
Theorem C07_query_sound :
  forall (truth : Z -> list Z) (omap : nat -> list Z) (st : store)
         (fid : nat) (f : Z) (o : obj) (mapped : list Z)
         (cache : option (list Z)) (ix : index),
    store_sound truth omap st ->
    lookup (fuel_of st) st fid f = Some o ->
    gather (truth f) (omap fid) = Some mapped ->
    match o with
    | ODirect d => np_index d ix = np_index mapped ix
    | OProxy d m =>
        forall dm, gather d m = Some dm ->
        (cache = None \/
         (is_scalar_feat f = true /\ cache = Some dm)) ->
        snd (proxy_getitem Z d m (is_scalar_feat f) cache ix)
        = np_index mapped ix
    end.
Proof. exact query_sound. Qed.
Print Assumptions C07_query_sound.

(* Indexing, iteration, np.array() (also with a dtype), max() and min() of
   a mapped feature (scalar, image,
   ragged contour with the fixed __array__) all show origin[basinmap], in
   every reachable cache state. *)
Theorem C07_proxy_access_agree :
  forall (A : Type) (feat : list A) (bmap : list Z) (is_scalar : bool)
         (cast : A -> A) (amax amin : list A -> option A) (mapped : list A),
    gather feat bmap = Some mapped ->
    forall (cache : option (list A)) (ac : access),
      (cache = None \/ (is_scalar = true /\ cache = Some mapped)) ->
      snd (proxy_access A feat bmap is_scalar cast amax amin cache ac)
      = direct_access cast amax amin mapped ac /\
      (fst (proxy_access A feat bmap is_scalar cast amax amin cache ac)
       = None \/
       (is_scalar = true /\
        fst (proxy_access A feat bmap is_scalar cast amax amin cache ac)
        = Some mapped)).
Proof. exact @proxy_access_agree. Qed.
Print Assumptions C07_proxy_access_agree.

(* The whole export step (Export.hdf5 with basins=True; filtered with any
   filter incl. an empty selection, or filtered=False; from a file or from a
   hierarchy child of any depth; any feature list): in a consistent, acyclic
   store the exported file is consistent for the selected origin events of
   its source: its stored features are the origin's, and every basin
   definition written refers to a basinmap feature that holds exactly the
   composed map ("same" basins are only kept when nothing is filtered). *)
Theorem C07_export_file_sound :
  forall (truth : Z -> list Z) (omap : nat -> list Z) (st : store)
         (src : nat) (root : file) (pfilts : list (list bool))
         (filt : option (list bool)) (feats : option (list Z)) (fl' : file)
         (cv : list Z),
    store_sound truth omap st ->
    scoped st ->
    get_file st src = Some root ->
    length (f_slots root) = 10%nat ->
    match pfilts with
    | [] => f_n root = zlen (omap src) /\ cv = omap src
    | _ => exists idx, child2root pfilts = Some idx /\
                       gather (omap src) idx = Some cv
    end ->
    export st src pfilts filt feats = Some fl' ->
    file_sound truth (omap_ext omap (length st) (fmask filt cv))
               (st ++ [Some fl']) (length st) fl' /\
    f_n fl' = zlen (fmask filt cv) /\ length (f_slots fl') = 10%nat /\
    match filt with Some f => zlen cv = zlen f | None => True end /\
    (forall b, In b (f_basins fl') -> (b_target b < length st)%nat) /\
    (forall b, In b (f_basins fl') -> b_internal b = false).
Proof. exact export_sound. Qed.
Print Assumptions C07_export_file_sound.

(* ... hence export maps a consistent acyclic store to a consistent acyclic
   store (the inductive step for pipelines of any length and shape). *)
Theorem C07_export_store_sound :
  forall (truth : Z -> list Z) (omap : nat -> list Z) (st : store)
         (src : nat) (root : file) (pfilts : list (list bool))
         (filt : option (list bool)) (feats : option (list Z)) (fl' : file)
         (cv : list Z),
    store_sound truth omap st ->
    scoped st ->
    get_file st src = Some root ->
    length (f_slots root) = 10%nat ->
    match pfilts with
    | [] => f_n root = zlen (omap src) /\ cv = omap src
    | _ => exists idx, child2root pfilts = Some idx /\
                       gather (omap src) idx = Some cv
    end ->
    export st src pfilts filt feats = Some fl' ->
    store_sound truth (omap_ext omap (length st) (fmask filt cv))
                (st ++ [Some fl']) /\
    scoped (st ++ [Some fl']).
Proof. exact export_store_sound. Qed.
Print Assumptions C07_export_store_sound.

(* Base case: the empty store is consistent, and a file written by hand
   (stored features = the origin's at the events [new]; any sequence of
   store_basin calls whose maps are correct: unmapped, mapped subsets /
   supersets with repeats / permutations, internal basins) keeps the store
   consistent and acyclic. *)
Theorem C07_empty_store_sound :
  forall (truth : Z -> list Z) (omap : nat -> list Z),
    store_sound truth omap [] /\ scoped [].
Proof. exact store_sound_nil. Qed.
Print Assumptions C07_empty_store_sound.

Theorem C07_written_file_store_sound :
  forall (truth : Z -> list Z) (omap : nat -> list Z) (st : store) (n : Z)
         (innate : fdata) (sbs : list sbasin) (fl' : file) (new : list Z),
    store_sound truth omap st ->
    scoped st ->
    (forall f d, assoc f innate = Some d ->
                 gather (truth f) new = Some d) ->
    Forall (request_ok truth omap st new) sbs ->
    store_basins {| f_n := n; f_innate := innate; f_slots := empty_slots;
                    f_basins := [] |} sbs = Some fl' ->
    store_sound truth (omap_ext omap (length st) new) (st ++ [Some fl']) /\
    scoped (st ++ [Some fl']).
Proof. exact write_store_sound. Qed.
Print Assumptions C07_written_file_store_sound.

(* The fuel of lookup is never exhausted: on acyclic stores any two amounts
   of fuel above the file's position give the same answer (fuel_of st is
   above every position). *)
Theorem C07_fuel_irrelevant :
  forall (st : store),
    scoped st -> internal_listed st ->
    forall (fid : nat) (f : Z) (fu1 fu2 : nat),
      (fid < fu1)%nat -> (fid < fu2)%nat ->
      lookup fu1 st fid f = lookup fu2 st fid f /\
      has_feat fu1 st fid f = has_feat fu2 st fid f.
Proof. exact fuel_irrelevant. Qed.
Print Assumptions C07_fuel_irrelevant.

(* Completeness: a feature that a file basin offers (listed, or everything
   when nothing is listed) and that the basin's file can read IS returned by
   the referrer, and it is the origin's feature at the referrer's events. *)
Theorem C07_provided_feature_is_returned :
  forall (truth : Z -> list Z) (omap : nat -> list Z) (st : store)
         (fid : nat) (fl : file) (b : bdef) (f : Z) (dt : list Z),
    store_sound truth omap st ->
    scoped st -> internal_listed st ->
    get_file st fid = Some fl ->
    In b (f_basins fl) ->
    b_internal b = false ->
    match b_feats b with Some l => zmem f l = true | None => True end ->
    resolve st (b_target b) f = Some dt ->
    exists d, resolve st fid f = Some d /\
              gather (truth f) (omap fid) = Some d.
Proof. exact resolve_complete_file. Qed.
Print Assumptions C07_provided_feature_is_returned.

(* ... likewise for a feature stored in an internal basin. *)
Theorem C07_internal_feature_is_returned :
  forall (truth : Z -> list Z) (omap : nat -> list Z) (st : store)
         (fid : nat) (fl : file) (b : bdef) (f : Z) (l di : list Z),
    store_sound truth omap st ->
    get_file st fid = Some fl ->
    In b (f_basins fl) ->
    b_internal b = true ->
    b_feats b = Some l -> zmem f l = true ->
    assoc f (b_int b) = Some di ->
    exists d, resolve st fid f = Some d /\
              gather (truth f) (omap fid) = Some d.
Proof. exact resolve_complete_internal. Qed.
Print Assumptions C07_internal_feature_is_returned.

(* Referrer and origin moved together: with the absolute and the relative
   location stored by the writer, the lookup of basins_retrieve finds the
   same dataset before (absolute entry) and after the move (relative entry,
   the old absolute location being gone). *)
Theorem C07_moved_together :
  forall (fs fs' : fsys) (ok : Z -> bool) (dir dir' rel : list Z) (id : Z),
    fs (dir ++ rel) = Some id -> ok id = true ->
    fs' (dir' ++ rel) = fs (dir ++ rel) ->
    fs' (dir ++ rel) = None ->
    find_basin fs ok dir [LAbs (dir ++ rel); LRel rel]
    = Some (0, dir ++ rel) /\
    find_basin fs' ok dir' [LAbs (dir ++ rel); LRel rel]
    = Some (1, dir' ++ rel) /\
    fs' (dir' ++ rel) = Some id.
Proof. exact moved_together. Qed.
Print Assumptions C07_moved_together.

(* A copy of a file (compress, repack, rtdc_copy with a feature selection;
   basin_definition_copy rewrites internal basins to the copied features)
   answers the lookup of every feature that is still present exactly like
   the original: same data, same basin, same map. *)
Theorem C07_copy_keeps_lookup :
  forall (st : store) (fid : nat) (fl : file) (keep : list Z),
    scoped st -> internal_listed st ->
    get_file st fid = Some fl ->
    forall (fu : nat) (f : Z), zmem f keep = true ->
      lookup fu (st ++ [Some (copy_file fl keep)]) (length st) f
      = lookup fu st fid f.
Proof. exact copy_keeps_lookup. Qed.
Print Assumptions C07_copy_keeps_lookup.

(* The copy step keeps the whole invariant (consistency, acyclicity, listed
   internal features, ten map features, event counts): the copy stands for
   the same origin events as its source. *)
Theorem C07_copy_step_sound :
  forall (truth : Z -> list Z) (oms : list (list Z)) (st : store)
         (src : nat) (fl : file) (keep : list Z),
    pipe_inv truth oms st ->
    get_file st src = Some fl ->
    pipe_inv truth (oms ++ [omf oms src]) (st ++ [Some (copy_file fl keep)]).
Proof. exact copy_file_sound. Qed.
Print Assumptions C07_copy_step_sound.

(* Pipelines: for every list of steps (hand-written files with same /
   mapped / internal basins, filtered / unfiltered / empty exports from files
   and hierarchy children, copies; failed steps leave holes) whose steps meet
   their preconditions in the store built so far, the store computed by
   run_steps - the function the correspondence runs against the real code -
   satisfies the invariant: consistent with the measurement for the origin
   events [news], acyclic, internal features listed, ten map features, event
   counts.  By induction over the steps. *)
Theorem C07_pipeline_sound :
  forall (truth : Z -> list Z) (steps : list step) (news : list (list Z)),
    steps_ok truth [] [] steps news ->
    pipe_inv truth news (run_steps steps).
Proof. exact pipeline_sound. Qed.
Print Assumptions C07_pipeline_sound.

Theorem C07_pipeline_resolve :
  forall (truth : Z -> list Z) (steps : list step) (news : list (list Z))
         (fid : nat) (f : Z) (d : list Z),
    steps_ok truth [] [] steps news ->
    resolve (run_steps steps) fid f = Some d ->
    gather (truth f) (nth fid news []) = Some d.
Proof. exact pipeline_resolve. Qed.
Print Assumptions C07_pipeline_resolve.

(* Every access (index, iteration, np.array, cast) to what lookup hands out
   shows the origin's feature at the file's events. *)
Theorem C07_access_sound :
  forall (truth : Z -> list Z) (omap : nat -> list Z) (st : store)
         (fid : nat) (f : Z) (o : obj) (mapped : list Z) (cast : Z -> Z)
         (amax amin : list Z -> option Z)
         (cache : option (list Z)) (ac : access),
    store_sound truth omap st ->
    lookup (fuel_of st) st fid f = Some o ->
    gather (truth f) (omap fid) = Some mapped ->
    match o with
    | ODirect d => direct_access cast amax amin d ac
                   = direct_access cast amax amin mapped ac
    | OProxy d m =>
        forall dm, gather d m = Some dm ->
        (cache = None \/ (is_scalar_feat f = true /\ cache = Some dm)) ->
        snd (proxy_access Z d m (is_scalar_feat f) cast amax amin cache ac)
        = direct_access cast amax amin mapped ac
    end.
Proof. exact access_sound. Qed.
Print Assumptions C07_access_sound.

(* Moved together, another dataset at the old absolute path: it does not
   pass the identifier check and the relative entry is used. *)
Theorem C07_moved_together_foreign_file :
  forall (fs' : fsys) (ok : Z -> bool) (dir dir' rel : list Z) (id other : Z),
    fs' (dir ++ rel) = Some other -> ok other = false ->
    fs' (dir' ++ rel) = Some id -> ok id = true ->
    find_basin fs' ok dir' [LAbs (dir ++ rel); LRel rel]
    = Some (1, dir' ++ rel).
Proof. exact moved_together_other_file. Qed.
Print Assumptions C07_moved_together_foreign_file.
