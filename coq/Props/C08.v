(* C08 — compress, repack, condense and tdms2rtdc preserve dataset content.
   Property theorems only; each is closed by [exact] of a lemma proved in
   Proofs/C08.v or Proofs/C08_file.v and followed by Print Assumptions.

   The model (Model/C08.v) follows copier.py with the repairs of
   fixes_proposed/C08-*.diff.  Oracles (feature_exists, scalar_feature_exists,
   the basinmap pattern, DEFECTIVE_FEATURES on the source, the md5 name of a
   rewritten basin, ds.features_scalar and ds[feat]) are universally
   quantified function arguments. *)
From Coq Require Import ZArith List Bool.
From Verif Require Import Model.C08 Proofs.C08 Proofs.C08_file Proofs.C08_basins
  Proofs.C08_more.
Import ListNotations.
Open Scope Z_scope.

(* h5py's chunk iteration visits every element of the dataspace exactly once,
   for every shape and every chunk shape of the same rank. *)
Theorem C08_iter_chunks_cover :
  forall (shape chunks idx : list Z),
    shape <> [] -> length shape = length chunks ->
    Forall (fun c => 0 < c) chunks -> in_range idx shape ->
    countb (in_box idx) (boxes shape chunks) = 1.
Proof. exact iter_chunks_cover. Qed.
Print Assumptions C08_iter_chunks_cover.

(* The cartesian enumeration [boxes] is what the odometer of
   ChunkIterator.__next__ produces — swept completely for rank 1 (shape <= 12,
   chunks <= 13), rank 2 (<= 5, <= 6) and rank 3 (<= 4, <= 4). *)
Theorem C08_odometer_is_boxes_bounded :
  sweep_rank 1 12 13 = true /\ sweep_rank 2 5 6 = true /\ sweep_rank 3 4 4 = true.
Proof. exact odometer_sweep. Qed.
Print Assumptions C08_odometer_is_boxes_bounded.

(* The loop "for chunk in src.iter_chunks(): dst[chunk] = src[chunk]" leaves
   exactly the source elements in the destination. *)
Theorem C08_chunk_copy_preserves_values :
  forall (shape chunks : list Z) (data : list elem),
    shape <> [] -> length shape = length chunks ->
    Forall (fun c => 0 < c) chunks -> Forall (fun n => 0 <= n) shape ->
    Z.of_nat (length data) = zprod shape ->
    chunk_copy shape chunks data = data.
Proof. exact chunk_copy_id. Qed.
Print Assumptions C08_chunk_copy_preserves_values.

(* Variable-length strings converted to width max(100, longest) lose nothing. *)
Theorem C08_string_conversion_lossless :
  forall data : list elem,
    map (to_fixed (Z.max (longest data) 100)) data = data.
Proof. exact string_conversion_lossless. Qed.
Print Assumptions C08_string_conversion_lossless.

(* h5ds_copy keeps shape, elements and attributes of every well-formed
   dataset, whatever its layout (contiguous, chunked, chunks larger than the
   data, any filter, empty, variable-length strings). *)
Theorem C08_h5ds_copy_preserves_content :
  forall (ensure : bool) (d : dset),
    wf_dset d -> content (h5ds_copy ensure d) = content d.
Proof. exact h5ds_copy_content. Qed.
Print Assumptions C08_h5ds_copy_preserves_content.

(* Copying a copy is the identity, layout included. *)
Theorem C08_h5ds_copy_idempotent :
  forall (ensure : bool) (d : dset),
    h5ds_copy ensure (h5ds_copy ensure d) = h5ds_copy ensure d.
Proof. exact h5ds_copy_idempotent. Qed.
Print Assumptions C08_h5ds_copy_idempotent.

(* compress / repack / rtdc_copy("all") with basins: every recognised,
   non-defective feature of the input is in the output with the same shape
   and elements; its attributes are kept (statistics may be appended). *)
Theorem C08_copy_all_preserves_features :
  forall (fexists fscalar fbmap defective : Z -> bool)
         (rekey : Z -> list Z -> Z) (inc_logs inc_tables : bool)
         (f : h5file) (name : Z) (n : node),
    assoc name (f_events f) = Some n ->
    fexists name = true -> defective name = false -> node_wf n ->
    exists n',
      assoc name (f_events (rtdc_copy fexists fscalar fbmap defective rekey
                                      FAll true inc_logs inc_tables f))
      = Some n'
      /\ node_same n n'.
Proof. exact copy_all_preserves_feature. Qed.
Print Assumptions C08_copy_all_preserves_features.

(* repack --strip-basins: the same for everything but basinmap features. *)
Theorem C08_strip_basins_preserves_features :
  forall (fexists fscalar fbmap defective : Z -> bool)
         (rekey : Z -> list Z -> Z) (inc_logs inc_tables : bool)
         (f : h5file) (name : Z) (n : node),
    NoDup (map fst (f_events f)) ->
    assoc name (f_events f) = Some n ->
    fexists name = true -> defective name = false -> fbmap name = false ->
    node_wf n ->
    exists n',
      assoc name (f_events (rtdc_copy fexists fscalar fbmap defective rekey
                                      FAll false inc_logs inc_tables f))
      = Some n'
      /\ node_same n n'.
Proof. exact copy_all_strip_basins_preserves_feature. Qed.
Print Assumptions C08_strip_basins_preserves_features.

(* The same for every selection (condense uses "scalar", rtdc_copy accepts a
   list): what is selected is preserved; [node_same] includes the dtype. *)
Theorem C08_copy_preserves_selected_features :
  forall (fexists fscalar fbmap defective : Z -> bool)
         (rekey : Z -> list Z -> Z) (sel : fsel)
         (inc_basins inc_logs inc_tables : bool)
         (f : h5file) (name : Z) (n : node),
    In name (feature_iter fscalar fbmap sel inc_basins f) ->
    assoc name (f_events f) = Some n ->
    fexists name = true -> defective name = false -> node_wf n ->
    exists n',
      assoc name (f_events (rtdc_copy fexists fscalar fbmap defective rekey
                                      sel inc_basins inc_logs inc_tables f))
      = Some n'
      /\ node_same n n'.
Proof. exact copy_preserves_selected_feature. Qed.
Print Assumptions C08_copy_preserves_selected_features.

Theorem C08_copy_scalar_preserves_features :
  forall (fexists fscalar fbmap defective : Z -> bool)
         (rekey : Z -> list Z -> Z) (inc_logs inc_tables : bool)
         (f : h5file) (name : Z) (n : node),
    assoc name (f_events f) = Some n -> fscalar name = true ->
    fexists name = true -> defective name = false -> node_wf n ->
    exists n',
      assoc name (f_events (rtdc_copy fexists fscalar fbmap defective rekey
                                      FScalar true inc_logs inc_tables f))
      = Some n'
      /\ node_same n n'.
Proof. exact copy_scalar_preserves_feature. Qed.
Print Assumptions C08_copy_scalar_preserves_features.

Theorem C08_copy_list_preserves_features :
  forall (fexists fscalar fbmap defective : Z -> bool)
         (rekey : Z -> list Z -> Z) (l : list Z) (inc_logs inc_tables : bool)
         (f : h5file) (name : Z) (n : node),
    In name l -> assoc name (f_events f) = Some n ->
    fexists name = true -> defective name = false -> node_wf n ->
    exists n',
      assoc name (f_events (rtdc_copy fexists fscalar fbmap defective rekey
                                      (FList l) true inc_logs inc_tables f))
      = Some n'
      /\ node_same n n'.
Proof. exact copy_list_preserves_feature. Qed.
Print Assumptions C08_copy_list_preserves_features.

(* No selection invents a feature: whatever is in the output is the finished
   copy of a recognised, non-defective feature of the input. *)
Theorem C08_copy_invents_no_feature :
  forall (fexists fscalar fbmap defective : Z -> bool)
         (rekey : Z -> list Z -> Z) (sel : fsel)
         (inc_basins inc_logs inc_tables : bool) (f : h5file)
         (name : Z) (n' : node),
    In (name, n') (f_events (rtdc_copy fexists fscalar fbmap defective rekey
                                       sel inc_basins inc_logs inc_tables f)) ->
    exists n, assoc name (f_events f) = Some n /\ fexists name = true
              /\ defective name = false /\ n' = finish fscalar name n.
Proof. exact copy_invents_no_feature. Qed.
Print Assumptions C08_copy_invents_no_feature.

(* Internal basin data selected for the copy are preserved. *)
Theorem C08_copy_preserves_internal_basin_data :
  forall (fexists fscalar fbmap defective : Z -> bool)
         (rekey : Z -> list Z -> Z) (sel : fsel) (inc_logs inc_tables : bool)
         (f : h5file) (name : Z) (d : dset),
    In name (feature_iter fscalar fbmap sel true f) ->
    assoc name (f_bevents f) = Some d ->
    fexists name = true -> wf_dset d ->
    exists d',
      assoc name (f_bevents (rtdc_copy fexists fscalar fbmap defective rekey
                                       sel true inc_logs inc_tables f))
      = Some d'
      /\ content d' = content d /\ same_dtype d d'.
Proof. exact copy_preserves_basin_feature. Qed.
Print Assumptions C08_copy_preserves_internal_basin_data.

(* Metadata, logs and tables (elements AND attributes) are preserved. *)
Theorem C08_copy_preserves_metadata :
  forall (fexists fscalar fbmap defective : Z -> bool)
         (rekey : Z -> list Z -> Z) (sel : fsel)
         (inc_basins inc_logs inc_tables : bool) (f : h5file),
    f_attrs (rtdc_copy fexists fscalar fbmap defective rekey sel inc_basins
                       inc_logs inc_tables f) = f_attrs f.
Proof. exact copy_preserves_metadata. Qed.
Print Assumptions C08_copy_preserves_metadata.

Theorem C08_copy_preserves_logs :
  forall (fexists fscalar fbmap defective : Z -> bool)
         (rekey : Z -> list Z -> Z) (sel : fsel)
         (inc_basins inc_tables : bool) (f : h5file),
    Forall (fun kd => wf_dset (snd kd)) (f_logs f) ->
    named_content (f_logs (rtdc_copy fexists fscalar fbmap defective rekey sel
                                     inc_basins true inc_tables f))
    = named_content (f_logs f).
Proof. exact copy_preserves_logs. Qed.
Print Assumptions C08_copy_preserves_logs.

Theorem C08_tables_preserve_data_and_attrs :
  forall (fexists fscalar fbmap defective : Z -> bool)
         (rekey : Z -> list Z -> Z) (sel : fsel)
         (inc_basins inc_logs : bool) (f : h5file),
    named_content (f_tables (rtdc_copy fexists fscalar fbmap defective rekey sel
                                       inc_basins inc_logs true f))
    = named_content (f_tables f).
Proof. exact copy_preserves_tables. Qed.
Print Assumptions C08_tables_preserve_data_and_attrs.

(* Every dataset written by a copy is a fixed point of the dataset copy: the
   task applied to its own output re-encodes nothing. *)
Theorem C08_second_pass_is_verbatim :
  forall (fexists fscalar fbmap defective : Z -> bool)
         (rekey : Z -> list Z -> Z) (sel : fsel)
         (inc_basins inc_logs inc_tables : bool) (f : h5file),
    let g := rtdc_copy fexists fscalar fbmap defective rekey sel inc_basins
                       inc_logs inc_tables f in
    Forall (fun kn => node_stable (snd kn)) (f_events g)
    /\ Forall (fun kd => stable (snd kd)) (f_bevents g)
    /\ Forall (fun kd => stable (snd kd)) (f_logs g)
    /\ Forall (fun kd => table_copy (snd kd) = snd kd) (f_tables g).
Proof. exact copy_output_stable. Qed.
Print Assumptions C08_second_pass_is_verbatim.

(* rtdc_copy (so: repack) leaves the software version chain alone, unless it
   rewrites an internal basin definition (that goes through RTDCWriter, which
   brands the destination file). *)
Theorem C08_copy_version :
  forall (fexists fscalar fbmap defective : Z -> bool)
         (rekey : Z -> list Z -> Z) (sel : fsel)
         (inc_basins inc_logs inc_tables : bool) (f : h5file),
    f_soft (rtdc_copy fexists fscalar fbmap defective rekey sel inc_basins
                      inc_logs inc_tables f)
    = if inc_basins
         && basin_rewrites (feature_iter fscalar fbmap sel inc_basins f) f
      then bump_version (f_soft f) else f_soft f.
Proof. exact copy_version. Qed.
Print Assumptions C08_copy_version.

(* RTDCWriter.version_brand (compress, condense, tdms2rtdc open their output
   with the writer): the chain "a | b | c" of setup:software version gets
   exactly one more segment, "dclab <current version>", unless it already
   ends with it.  This is the only metadata key a task may change. *)
Theorem C08_version_chain_extended_by_one_segment :
  forall segs : list Z,
    bump_version segs = segs ++ [SEG_CUR]
    \/ (bump_version segs = segs /\ segs <> [] /\ last segs 0 = SEG_CUR).
Proof. exact bump_spec. Qed.
Print Assumptions C08_version_chain_extended_by_one_segment.

(* compress: all logs other than its own command logs survive ([kold],
   [kwold]: the md5 names the previous command logs are renamed to). *)
Theorem C08_compress_keeps_logs :
  forall (fexists fscalar fbmap defective : Z -> bool)
         (rekey : Z -> list Z -> Z) (warned : bool) (kold kwold : Z)
         (f : h5file) (k : Z) (d : dset),
    k <> L_CMD -> k <> L_WARN -> k <> kold -> k <> kwold ->
    assoc k (f_logs f) = Some d ->
    assoc k (f_logs (compress fexists fscalar fbmap defective rekey warned
                              kold kwold f))
    = Some (h5ds_copy true d).
Proof. exact compress_keeps_logs. Qed.
Print Assumptions C08_compress_keeps_logs.

(* compress as a whole: it is the copy plus log bookkeeping; all metadata
   are those of the input except the software version, which is extended as
   stated above. *)
Theorem C08_compress_is_copy_plus_logs :
  forall (fexists fscalar fbmap defective : Z -> bool)
         (rekey : Z -> list Z -> Z) (warned : bool) (kold kwold : Z)
         (f : h5file),
    let c := compress fexists fscalar fbmap defective rekey warned kold kwold
                      f in
    let g := rtdc_copy fexists fscalar fbmap defective rekey FAll true true
                       true f in
    f_events c = f_events g /\ f_bevents c = f_bevents g
    /\ f_tables c = f_tables g /\ f_basins c = f_basins g
    /\ f_attrs c = f_attrs f
    /\ f_soft c = bump_version (f_soft f).
Proof. exact compress_events. Qed.
Print Assumptions C08_compress_is_copy_plus_logs.

Theorem C08_compress_preserves_features :
  forall (fexists fscalar fbmap defective : Z -> bool)
         (rekey : Z -> list Z -> Z) (warned : bool) (kold kwold : Z)
         (f : h5file) (name : Z) (n : node),
    assoc name (f_events f) = Some n ->
    fexists name = true -> defective name = false -> node_wf n ->
    exists n',
      assoc name (f_events (compress fexists fscalar fbmap defective rekey
                                     warned kold kwold f)) = Some n'
      /\ node_same n n'.
Proof. exact compress_preserves_feature. Qed.
Print Assumptions C08_compress_preserves_features.

(* the previous command log survives under its new name (the md5 of the input
   file: not yet used, and none of the reserved names) *)
Theorem C08_compress_renames_old_log :
  forall (fexists fscalar fbmap defective : Z -> bool)
         (rekey : Z -> list Z -> Z) (warned : bool) (kold kwold : Z)
         (f : h5file) (d : dset),
    kold <> L_CMD -> kold <> L_WARN -> kold <> kwold ->
    assoc L_CMD (f_logs f) = Some d -> assoc kold (f_logs f) = None ->
    assoc kold (f_logs (compress fexists fscalar fbmap defective rekey
                                 warned kold kwold f))
    = Some (h5ds_copy true d).
Proof. exact compress_renames_old_log. Qed.
Print Assumptions C08_compress_renames_old_log.

(* compress applied to its own output (other md5 names, other warnings):
   the same features, internal basin data, tables and metadata; the version
   chain is not extended again. *)
Theorem C08_compress_twice_same_data :
  forall (fexists fscalar fbmap defective defective2 : Z -> bool)
         (rekey : Z -> list Z -> Z) (w1 w2 : bool) (k1 kw1 k2 kw2 : Z)
         (f : h5file),
    let c1 := compress fexists fscalar fbmap defective rekey w1 k1 kw1 f in
    let c2 := compress fexists fscalar fbmap defective2 rekey w2 k2 kw2 c1 in
    (forall name, In name (map fst (f_events c1)) -> defective2 name = false) ->
    (forall name, assoc name (f_events c2) = assoc name (f_events c1))
    /\ (forall name, assoc name (f_bevents c2) = assoc name (f_bevents c1))
    /\ f_tables c2 = f_tables c1 /\ f_attrs c2 = f_attrs c1
    /\ f_soft c2 = f_soft c1.
Proof. exact compress_twice_same_data. Qed.
Print Assumptions C08_compress_twice_same_data.

(* repack --strip-basins [--strip-logs] applied to its own output. *)
Theorem C08_second_copy_strip_basins :
  forall (fexists fscalar fbmap defective defective2 : Z -> bool)
         (rekey : Z -> list Z -> Z) (inc_logs inc_tables : bool) (f : h5file),
    let g := rtdc_copy fexists fscalar fbmap defective rekey FAll false
                       inc_logs inc_tables f in
    let h := rtdc_copy fexists fscalar fbmap defective2 rekey FAll false
                       inc_logs inc_tables g in
    NoDup (map fst (f_events f)) ->
    (forall name, In name (map fst (f_events g)) -> defective2 name = false) ->
    (forall name, assoc name (f_events h) = assoc name (f_events g))
    /\ f_bevents h = [] /\ f_bevents g = [] /\ f_basins h = [] /\ f_basins g = []
    /\ f_logs h = f_logs g /\ f_tables h = f_tables g /\ f_attrs h = f_attrs g
    /\ f_soft h = f_soft g.
Proof. exact second_copy_strip_basins. Qed.
Print Assumptions C08_second_copy_strip_basins.

(* The copy applied to its own output changes no data: same features, same
   internal basin data, same logs, tables and metadata (exact equality, layout
   included).  [defective2] is the marker evaluation on the first output; the
   hypothesis (no feature of the output is marked) is checked by the harness
   on every case. *)
Theorem C08_second_copy_changes_no_data :
  forall (fexists fscalar fbmap defective defective2 : Z -> bool)
         (rekey : Z -> list Z -> Z) (inc_logs inc_tables : bool) (f : h5file),
    let g := rtdc_copy fexists fscalar fbmap defective rekey FAll true
                       inc_logs inc_tables f in
    let h := rtdc_copy fexists fscalar fbmap defective2 rekey FAll true
                       inc_logs inc_tables g in
    (forall name, In name (map fst (f_events g)) -> defective2 name = false) ->
    (forall name, assoc name (f_events h) = assoc name (f_events g))
    /\ (forall name, assoc name (f_bevents h) = assoc name (f_bevents g))
    /\ f_logs h = f_logs g /\ f_tables h = f_tables g /\ f_attrs h = f_attrs g.
Proof. exact second_copy_changes_no_data. Qed.
Print Assumptions C08_second_copy_changes_no_data.

(* tdms2rtdc: which events are exported.  Only the first/last event can be
   left out, and only if its image is empty and the option asks for it; the
   exported values are the source values of the kept events, in order; with
   nothing to skip every feature is exported unchanged (integer peak maxima
   additionally go through the uint32 store, see the finding below). *)
Theorem C08_tdms_drops_only_empty_boundary :
  forall (n : Z) (si sf fe le : bool) (i : Z),
    0 <= i < n -> ~ In i (tdms_kept n si sf fe le) ->
    (i = 0 /\ si = true /\ fe = true) \/ (i = n - 1 /\ sf = true /\ le = true).
Proof. exact tdms_drops_only_empty_boundary. Qed.
Print Assumptions C08_tdms_drops_only_empty_boundary.

Theorem C08_tdms_export_all :
  forall (n : Z) (si sf fe le : bool) (vals : list elem),
    Z.of_nat (length vals) = n -> si && fe = false -> sf && le = false ->
    tdms_export (tdms_kept n si sf fe le) vals = vals.
Proof. exact tdms_export_all. Qed.
Print Assumptions C08_tdms_export_all.

(* (definitional: unfolds the export of a list) *)
Theorem C08_tdms_export_values :
  forall (kept : list Z) (vals : list elem) (j : nat),
    (j < length kept)%nat ->
    nth j (tdms_export kept vals) [] = nth (Z.to_nat (nth j kept 0)) vals [].
Proof. exact tdms_export_values. Qed.
Print Assumptions C08_tdms_export_values.

(* condense: the selected feature set, and where each selected scalar feature
   ends up (the rtdc_copy copy, or ds[feat] stored by the writer). *)
Theorem C08_condense_feature_set :
  forall (fsc : Z -> bool) (sa sb : bool) (loaded basin anc : list Z)
         (g : h5file) (x : Z),
    In x (condense_features fsc sa sb loaded basin anc g) <->
    fsc x = true /\
    (In x loaded
     \/ (sb = true /\ In x basin /\ ~ In x (map fst (f_bevents g)))
     \/ (sa = true /\ In x anc /\ ~ In x (map fst (f_bevents g)))).
Proof. exact condense_feature_set. Qed.
Print Assumptions C08_condense_feature_set.

Theorem C08_condense_selected_features_stored :
  forall (fexists fscalar fbmap defective : Z -> bool)
         (rekey : Z -> list Z -> Z) (fsc : Z -> bool)
         (dsval : Z -> list elem) (sa sb w h5 : bool) (kold kwold : Z)
         (loaded basin anc : list Z) (f : h5file) (x : Z),
    let g := condense_base fexists fscalar fbmap defective rekey h5 f in
    let out := condense fexists fscalar fbmap defective rekey fsc dsval
                        sa sb w h5 kold kwold loaded basin anc f in
    In x (condense_features fsc sa sb loaded basin anc g) ->
    match assoc x (f_events g) with
    | Some n => assoc x (f_events out) = Some n
    | None => assoc x (f_events out) = Some (stored_feature dsval x)
    end.
Proof. exact condense_scalar_features. Qed.
Print Assumptions C08_condense_selected_features_stored.

(* condense of an .rtdc file: every stored, recognised, unmarked scalar
   feature keeps shape, elements, dtype and attributes (copy theorem composed
   with: the writer loop never replaces an existing feature). *)
Theorem C08_condense_scalar_equal :
  forall (fexists fscalar fbmap defective : Z -> bool)
         (rekey : Z -> list Z -> Z) (fsc : Z -> bool)
         (dsval : Z -> list elem) (sa sb w : bool) (kold kwold : Z)
         (loaded basin anc : list Z) (f : h5file) (name : Z) (n : node),
    assoc name (f_events f) = Some n -> fscalar name = true ->
    fexists name = true -> defective name = false -> node_wf n ->
    exists n',
      assoc name (f_events (condense fexists fscalar fbmap defective rekey fsc
                                     dsval sa sb w true kold kwold loaded
                                     basin anc f)) = Some n'
      /\ node_same n n'.
Proof. exact condense_preserves_stored_scalar. Qed.
Print Assumptions C08_condense_scalar_equal.

(* condense of a .tdms file: exactly the selected scalar features, each as
   handed to the writer (ds[feat] of the tdms reader: oracle), nothing else. *)
Theorem C08_condense_tdms_features :
  forall (fexists fscalar fbmap defective : Z -> bool)
         (rekey : Z -> list Z -> Z) (fsc : Z -> bool)
         (dsval : Z -> list elem) (sa sb w : bool) (kold kwold : Z)
         (loaded basin anc : list Z) (f : h5file) (x : Z),
    let out := condense fexists fscalar fbmap defective rekey fsc dsval
                        sa sb w false kold kwold loaded basin anc f in
    assoc x (f_events out)
    = (if memZ x (condense_features fsc sa sb loaded basin anc empty_file)
       then Some (stored_feature dsval x) else None)
    /\ f_bevents out = [] /\ f_tables out = [] /\ f_basins out = [].
Proof. exact condense_tdms_features. Qed.
Print Assumptions C08_condense_tdms_features.

(* condense keeps what the copy wrote; metadata as in the input, version
   chain extended by one segment. *)
Theorem C08_condense_keeps_copy_and_metadata :
  forall (fexists fscalar fbmap defective : Z -> bool)
         (rekey : Z -> list Z -> Z) (fsc : Z -> bool)
         (dsval : Z -> list elem) (sa sb w : bool) (kold kwold : Z)
         (loaded basin anc : list Z) (f : h5file),
    let g := rtdc_copy fexists fscalar fbmap defective rekey FScalar true true
                       true f in
    let out := condense fexists fscalar fbmap defective rekey fsc dsval
                        sa sb w true kold kwold loaded basin anc f in
    f_bevents out = f_bevents g /\ f_tables out = f_tables g
    /\ f_basins out = f_basins g /\ f_attrs out = f_attrs f
    /\ f_soft out = bump_version (f_soft f).
Proof. exact condense_keeps_copy. Qed.
Print Assumptions C08_condense_keeps_copy_and_metadata.

(* Basin definitions (compress, repack without --strip-basins, condense: any
   feature selection).  Hypotheses about the md5 names: injective, and never
   the name of a definition of the source (oracle).  Every definition of the
   input is in the output: unchanged (same parsed dictionary, same text) for
   file/remote basins and for internal basins all of whose features are
   copied; under a new name with "features" = exactly the copied ones when
   only some are copied; left out when none is. *)
Theorem C08_copy_preserves_basin_definitions :
  forall (fexists fscalar fbmap defective : Z -> bool)
         (rekey : Z -> list Z -> Z) (sel : fsel) (inc_logs inc_tables : bool)
         (f : h5file) (key : Z) (bn : bdef),
    rekey_inj rekey -> NoDup (map fst (f_basins f)) ->
    rekey_fresh rekey (f_basins f) ->
    In (key, bn) (f_basins f) -> wf_dset (b_ds bn) ->
    let fit := feature_iter fscalar fbmap sel true f in
    let out := f_basins (rtdc_copy fexists fscalar fbmap defective rekey sel
                                   true inc_logs inc_tables f) in
    let kept := filter (fun x => memZ x fit) (b_feats bn) in
    if negb (b_internal bn) || idx_eqb kept (b_feats bn) && negb (idx_eqb kept [])
    then exists b', assoc key out = Some b'
                    /\ b_internal b' = b_internal bn
                    /\ b_feats b' = b_feats bn /\ b_rest b' = b_rest bn
                    /\ content (b_ds b') = content (b_ds bn)
    else if idx_eqb kept [] then assoc key out = None
    else exists b', assoc (rekey key kept) out = Some b'
                    /\ assoc key out = None
                    /\ b_internal b' = true
                    /\ b_feats b' = kept /\ b_rest b' = b_rest bn.
Proof. exact copy_preserves_basin_definitions. Qed.
Print Assumptions C08_copy_preserves_basin_definitions.

(* ... and every definition of the output stems from one of the input. *)
Theorem C08_copy_invents_no_basin :
  forall (fexists fscalar fbmap defective : Z -> bool)
         (rekey : Z -> list Z -> Z) (sel : fsel) (inc_logs inc_tables : bool)
         (f : h5file) (k' : Z) (b' : bdef),
    rekey_inj rekey -> NoDup (map fst (f_basins f)) ->
    rekey_fresh rekey (f_basins f) ->
    In (k', b') (f_basins (rtdc_copy fexists fscalar fbmap defective rekey sel
                                     true inc_logs inc_tables f)) ->
    exists key bn, In (key, bn) (f_basins f)
                   /\ (k' = key \/ k' = rekey key (b_feats b'))
                   /\ b_rest b' = b_rest bn /\ b_internal b' = b_internal bn
                   /\ b_feats b'
                      = (if b_internal bn
                         then filter (fun x => memZ x (feature_iter fscalar fbmap
                                                                     sel true f))
                                     (b_feats bn)
                         else b_feats bn).
Proof. exact copy_invents_no_basin. Qed.
Print Assumptions C08_copy_invents_no_basin.

(* The defective-feature markers (fmt_hdf5/feat_defect.py), the [defective]
   argument of the theorems above instantiated by the model [defective_code]:
   a file never written by dclab, not from Shape-In 2.0.6/7 and without a
   float32 time has no marker (so compress/repack/condense keep every
   recognised feature of it); a file last written by dclab >= 0.48.3 has at
   most the aspect and float32-time markers; the aspect marker is an exact
   match of the software string. *)
Theorem C08_unmarked_file_has_no_defective_feature :
  forall (x : dfacts) (c : Z),
    df_exact_aspect x = false -> df_last_dclab x = None ->
    df_time_f32 x && df_has_frame x = false ->
    defective_code x c = false.
Proof. exact unmarked_file_has_no_defective_feature. Qed.
Print Assumptions C08_unmarked_file_has_no_defective_feature.

Theorem C08_recent_dclab_marks_only_aspect_and_f32_time :
  forall (x : dfacts) (c : Z) (w : ver),
    df_last_dclab x = Some w -> ver_ltb w (0, 48, 3, 0) = false ->
    defective_code x c = true ->
    (c = D_ASPECT /\ df_exact_aspect x = true)
    \/ (c = D_TIME /\ df_time_f32 x = true /\ df_has_frame x = true).
Proof. exact recent_dclab_marks_only_aspect_and_f32_time. Qed.
Print Assumptions C08_recent_dclab_marks_only_aspect_and_f32_time.

(* (definitional: restates the model; the string tests are input facts) *)
Theorem C08_aspect_marker_is_exact :
  forall x : dfacts, defective_code x D_ASPECT = df_exact_aspect x.
Proof. exact aspect_marker_is_exact. Qed.
Print Assumptions C08_aspect_marker_is_exact.

(* ---- known findings ---------------------------------------------------- *)
(* tdms2rtdc: fl?_max are stored as uint32, negative peak maxima of the .tdms
   source become 0 (finding C08-tdms-negative-flmax). *)
Theorem C08_tdms_uint32_store_refuted : exists v, h5_to_uint32 v <> v.
Proof. exact uint32_store_refuted. Qed.
Print Assumptions C08_tdms_uint32_store_refuted.

Theorem C08_tdms_uint32_store_partial :
  forall v, 0 <= v <= 4294967295 -> h5_to_uint32 v = v.
Proof. exact uint32_store_partial. Qed.
Print Assumptions C08_tdms_uint32_store_partial.

(* condense of a file without events fails in RTDCWriter.store_feature
   (finding C08-condense-empty); it cannot fail that way when every feature
   to store has events. *)
Theorem C08_condense_total_refuted :
  exists dsval feats ev, condense_crashes dsval feats ev = true.
Proof. exact condense_total_refuted. Qed.
Print Assumptions C08_condense_total_refuted.

Theorem C08_condense_total_partial :
  forall (dsval : Z -> list elem) (feats : list Z) (ev : list (Z * node)),
    (forall x, In x feats -> dsval x <> []) ->
    condense_crashes dsval feats ev = false.
Proof. exact condense_total_partial. Qed.
Print Assumptions C08_condense_total_partial.
