(* C09 — split partitions and join concatenates events without loss or
   reordering.  Property theorems only; each is closed by [exact] of a lemma
   proved in Proofs/C09_split.v, Proofs/C09_join.v, Proofs/C09_joinsplit.v,
   Proofs/C09_more.v or Common/PyList.v and followed by Print Assumptions.

   [join_fixed] is the join of dclab after fixes_proposed/C09-join-sort-and-
   prune.diff, [join_orig] the code before it (kept executable so that its
   defects stay replayable witnesses). *)
From Coq Require Import ZArith List Bool Permutation Sorted.
From Verif Require Import Common.ListIdx Common.PyList Model.C09.
From Verif Require Import Proofs.C09_split Proofs.C09_join Proofs.C09_joinsplit
  Proofs.C09_more.
Import ListNotations.
Open Scope Z_scope.

(* ---- split --------------------------------------------------------------- *)

(* For every measurement (any event type, any N) and every split size k > 0:
   the parts one after the other are the measurement, no part is empty or
   holds more than k events, there are ceil(N/k) parts. *)
Theorem C09_split_partition :
  forall (A : Type) (l : list A) (k : Z),
    0 < k ->
    concat (split_parts l k false false) = l
    /\ Forall (fun p => 0 < Z.of_nat (length p) <= k) (split_parts l k false false)
    /\ Z.of_nat (length (split_parts l k false false))
       = (Z.of_nat (length l) + k - 1) / k.
Proof. exact @split_partition. Qed.
Print Assumptions C09_split_partition.

(* With the skip flags: when split() succeeds, the parts hold exactly the
   events other than the skipped all-zero boundary images, in order. *)
Theorem C09_split_with_boundary_skipping :
  forall (A : Type) (empty_img : A -> bool) (l : list A) (k : Z)
         (initial final : bool) (parts : list (list A)),
    0 < k ->
    split empty_img l k initial final = Some parts ->
    concat parts
    = slice l (b2z (initial && first_empty empty_img l))
            (Z.of_nat (length l) - b2z (final && last_empty empty_img l))
    /\ Forall (fun p => 0 < Z.of_nat (length p) <= k) parts.
Proof. exact @split_ok. Qed.
Print Assumptions C09_split_with_boundary_skipping.

(* split() succeeds on every non-empty measurement where no boundary event is
   skipped ... *)
Theorem C09_split_total_partial :
  forall (A : Type) (empty_img : A -> bool) (l : list A) (k : Z)
         (initial final : bool),
    0 < k -> l <> [] ->
    initial && first_empty empty_img l = false ->
    final && last_empty empty_img l = false ->
    exists parts, split empty_img l k initial final = Some parts
                  /\ concat parts = l.
Proof. exact @split_total_partial. Qed.
Print Assumptions C09_split_total_partial.

(* ... but not in general: finding C09-split-empty-part (a part that only
   holds a skipped boundary event makes the export raise ValueError). *)
Theorem C09_split_total_refuted :
  exists (l : list (Z * bool)) (k : Z),
    0 < k /\ l <> [] /\ split snd l k true true = None.
Proof. exact split_total_refuted. Qed.
Print Assumptions C09_split_total_refuted.

(* ---- join: order ------------------------------------------------------------ *)

(* The processing order is a permutation of the inputs, ascending in
   (acquisition time, run index); inputs with the same key stay in the given
   order.  For any number of inputs in any order. *)
Theorem C09_join_order_chronological :
  forall inputs : list meas,
    Permutation (sorted_gen leb_num inputs) (tag_from 0 inputs)
    /\ StronglySorted (fun a b => leb_num (snd a) (snd b) = true)
                      (sorted_gen leb_num inputs)
    /\ forall t r, filter (same_key t r) (sorted_gen leb_num inputs)
                   = filter (same_key t r) (tag_from 0 inputs).
Proof. exact join_order_chronological. Qed.
Print Assumptions C09_join_order_chronological.

Theorem C09_join_uses_that_order :
  forall (inputs : list meas) (j : joined),
    join_fixed inputs = Ok j -> j_order j = map fst (sorted_gen leb_num inputs).
Proof. exact join_order_is_sorted. Qed.
Print Assumptions C09_join_uses_that_order.

(* ---- join: features ----------------------------------------------------------- *)

(* The exported features are the innate features of the earliest input that
   every other input has or can compute. *)
Theorem C09_join_features_common :
  forall (inputs : list meas) (j : joined),
    join_fixed inputs = Ok j ->
    exists m0 rest,
      map snd (sorted_gen leb_num inputs) = m0 :: rest
      /\ (NoDup (m_innate m0) -> j_feats j = spec_features m0 rest).
Proof. exact join_features_common. Qed.
Print Assumptions C09_join_features_common.

(* Python's `for x in l: if not keep(x): l.remove(x)` computes [skip_filter]
   (the element after a removed one is never tested) ... *)
Theorem C09_prune_mutating_loop_char :
  forall (keep : Z -> bool) (l : list Z),
    NoDup l -> py_prune Z.eqb keep l = skip_filter keep l.
Proof. exact (py_prune_char Z Z.eqb Z.eqb_eq). Qed.
Print Assumptions C09_prune_mutating_loop_char.

(* ... which is the intended filter only if no two neighbours are removed ... *)
Theorem C09_prune_is_filter_partial :
  forall (keep : Z -> bool) (l : list Z),
    NoDup l -> no_adjacent_removed keep l = true ->
    py_prune Z.eqb keep l = filter keep l.
Proof. exact (py_prune_partial Z Z.eqb Z.eqb_eq). Qed.
Print Assumptions C09_prune_is_filter_partial.

(* ... and not in general (witness [1;2;3;4] with 2 and 3 missing). *)
Theorem C09_prune_is_filter_refuted :
  exists (keep : Z -> bool) (l : list Z),
    NoDup l /\ py_prune Z.eqb keep l <> filter keep l.
Proof. exact py_prune_refuted. Qed.
Print Assumptions C09_prune_is_filter_refuted.

(* Iterating over a copy (the fix) is the filter, for every list. *)
Theorem C09_prune_copy_is_filter :
  forall (keep : Z -> bool) (l : list Z),
    NoDup l -> py_prune_copy Z.eqb keep l = filter keep l.
Proof. exact (py_prune_copy_is_filter Z Z.eqb Z.eqb_eq). Qed.
Print Assumptions C09_prune_copy_is_filter.

(* ---- join: data ----------------------------------------------------------------- *)

(* Every exported column is the concatenation of the inputs' columns in
   processing order: time shifted by the acquisition offset, frame by
   round(offset * frame rate), index = 1..N, everything else unchanged. *)
Theorem C09_join_columns :
  forall (inputs : list meas) (j : joined),
    join_fixed inputs = Ok j ->
    exists m0 rest,
      map snd (sorted_gen leb_num inputs) = m0 :: rest
      /\ forall f, In f (j_feats j) ->
           (kind f = 1 -> lookup_col f (j_cols j)
                          = Some (spec_time (acq_time8 m0) f (m0 :: rest)))
           /\ (kind f = 2 -> lookup_col f (j_cols j)
                             = Some (spec_frame (acq_time8 m0) f (m0 :: rest)))
           /\ (kind f = 4 -> lookup_col f (j_cols j)
                             = Some (spec_index f (m0 :: rest)))
           /\ (kind f = 0 \/ 4 < kind f -> lookup_col f (j_cols j)
                             = Some (spec_plain f (m0 :: rest))).
Proof. exact join_columns. Qed.
Print Assumptions C09_join_columns.

(* The fixed join never fails on well-formed inputs: no KeyError (every
   exported feature is available in every input), no OverflowError (offsets
   are never negative because the order is chronological). *)
Theorem C09_join_total :
  forall inputs : list meas,
    inputs <> [] -> Forall wf_meas inputs ->
    exists j, join_fixed inputs = Ok j.
Proof. exact join_fixed_total. Qed.
Print Assumptions C09_join_total.

(* Acquisition times never decrease along the processing order: the time and
   frame offsets are never negative and never decrease from one input to the
   next (time and frame are made continuous). *)
Theorem C09_join_offsets_monotone :
  forall inputs : list meas,
    StronglySorted (fun a b => acq_time8 a <= acq_time8 b)
                   (map snd (sorted_gen leb_num inputs)).
Proof. exact join_offsets_monotone. Qed.
Print Assumptions C09_join_offsets_monotone.

(* index_online (non-negative, strictly increasing in every input) is
   non-negative and strictly increasing in the joined file. *)
Theorem C09_join_index_online_increasing :
  forall (inputs : list meas) (j : joined) (f : Z) (c : list Z),
    join_fixed inputs = Ok j ->
    In f (j_feats j) -> kind f = 3 ->
    (forall m, In m inputs -> incr_from (-1) (getcol f m) = true) ->
    lookup_col f (j_cols j) = Some c ->
    incr_from (-1) c = true.
Proof. exact join_index_online_increasing. Qed.
Print Assumptions C09_join_index_online_increasing.

(* The metadata of the joined file: date, time and sample of the earliest
   input, the run index given to join (default 1), event count = number of
   events of all inputs together. *)
Theorem C09_join_meta_from_earliest :
  forall (inputs : list meas) (j : joined),
    join_fixed inputs = Ok j ->
    exists m0 rest,
      map snd (sorted_gen leb_num inputs) = m0 :: rest
      /\ j_date j = m_date m0 /\ j_time j = m_time m0
      /\ j_sample j = m_sample m0 /\ j_run j = 1
      /\ Forall (fun m => acq_time8 m0 <= acq_time8 m) (m0 :: rest)
      /\ forall f fs, j_feats j = f :: fs ->
           j_count j
           = fold_right Z.add 0
               (map (fun m => Z.of_nat (length (getcol f m))) (m0 :: rest)).
Proof. exact join_meta_from_earliest. Qed.
Print Assumptions C09_join_meta_from_earliest.

(* export.hdf5's sorted(set(features)): the unique strictly ascending list
   with the same elements -- for any list, also unsorted or with duplicates;
   the identity on the list join passes (already strictly ascending). *)
Theorem C09_sort_dedup_spec :
  forall l r : list Z,
    (StronglySorted Z.lt r /\ forall x, In x r <-> In x l) <-> r = sort_dedup l.
Proof. exact sort_dedup_spec. Qed.
Print Assumptions C09_sort_dedup_spec.

Theorem C09_sort_dedup_identity :
  forall l : list Z, StronglySorted Z.lt l -> sort_dedup l = l.
Proof. exact sort_dedup_id. Qed.
Print Assumptions C09_sort_dedup_identity.

(* The logs and the configuration of every source are retained. *)
Theorem C09_join_logs_retained :
  forall (inputs : list meas) (j : joined),
    join_fixed inputs = Ok j ->
    forall (i : nat) (m : meas) (lg : Z),
      nth_error (map snd (sorted_gen leb_num inputs)) i = Some m ->
      In lg (m_logs m) \/ lg = LOG_CFG ->
      In (1 + Z.of_nat i, lg) (j_logs j).
Proof. exact join_logs_retained. Qed.
Print Assumptions C09_join_logs_retained.

(* ---- join of split ---------------------------------------------------------------- *)

(* Joining the parts of a split (any N > 0, any k > 0), given in order,
   succeeds, exports the innate features and reproduces every column other
   than index_online (index: 1..N). *)
Theorem C09_join_of_split :
  forall (m : meas) (n k : Z),
    0 < k -> 0 < n -> wf_meas m ->
    (forall f c, lookup_col f (m_cols m) = Some c -> Z.of_nat (length c) = n) ->
    exists j,
      join_fixed (split_meas m n k) = Ok j
      /\ j_feats j = py_sorted Z.leb (m_innate m)
      /\ forall f, In f (m_innate m) ->
           (kind f <> 3 -> kind f <> 4 ->
            lookup_col f (j_cols j) = lookup_col f (m_cols m))
           /\ (kind f = 4 ->
               lookup_col f (j_cols j)
               = Some (map (fun i => 1 + Z.of_nat i) (seq 0 (Z.to_nat n)))).
Proof. exact join_of_split. Qed.
Print Assumptions C09_join_of_split.

(* ---- the code before the fix ----------------------------------------------------- *)

(* two neighbouring features missing in a later input: KeyError *)
Theorem C09_join_orig_prune_refuted :
  exists ms, Forall wf_meas ms /\ join_orig ms = Err EKey
             /\ exists j, join_fixed ms = Ok j /\ j_feats j = [10; 40].
Proof. exact join_orig_prune_refuted. Qed.
Print Assumptions C09_join_orig_prune_refuted.

(* "12:00:00.50" sorts before "12:00:00": negative offset, OverflowError *)
Theorem C09_join_orig_sort_refuted :
  exists ms, Forall wf_meas ms /\ join_orig ms = Err EOverflow
             /\ exists j, join_fixed ms = Ok j /\ j_order j = [0; 1].
Proof. exact join_orig_sort_refuted. Qed.
Print Assumptions C09_join_orig_sort_refuted.

(* run index "10" sorts before "9" *)
Theorem C09_join_orig_run_order_refuted :
  exists ms j, join_orig ms = Ok j /\ j_order j = [1; 0]
               /\ exists j', join_fixed ms = Ok j' /\ j_order j' = [0; 1].
Proof. exact join_orig_run_order_refuted. Qed.
Print Assumptions C09_join_orig_run_order_refuted.
