(* C09 — split partitions and join concatenates events without loss or
   reordering.  Property theorems only; each is closed by [exact] of a lemma
   proved in Proofs/C09_split.v, Proofs/C09_join.v, Proofs/C09_joinsplit.v,
   Proofs/C09_more.v or Common/PyList.v and followed by Print Assumptions.

   [join_fixed] is the join of /repo (numeric sort key bb0c30e, pruning over a
   copy 72ba70a).  The theorems named C09_prune_* are about Python's list
   semantics (Common/PyList.v, tied to the interpreter by the pysem cases):
   they document why the loop had to iterate over a copy. *)
From Coq Require Import ZArith List Bool Permutation Sorted.
From Verif Require Import Common.ListIdx Common.PyList Model.C09.
From Verif Require Import Proofs.C09_split Proofs.C09_join Proofs.C09_joinsplit
  Proofs.C09_more Proofs.C09_trace.
Import ListNotations.
Open Scope Z_scope.

(* ---- split --------------------------------------------------------------- *)

(* For every measurement (any event type, any N) and every split size k > 0:
   the parts one after the other are the measurement, no part is empty or
   holds more than k events, there are ceil(N/k) parts. *)
Theorem C09_split_partition :
  forall (A : Type) (l : list A) (k : Z),
    0 < k ->
    concat (split_parts l k false false) = l
    /\ Forall (fun p => 0 < Z.of_nat (length p) <= k) (split_parts l k false false)
    /\ Z.of_nat (length (split_parts l k false false))
       = (Z.of_nat (length l) + k - 1) / k.
Proof. exact @split_partition. Qed.
Print Assumptions C09_split_partition.

(* With the skip flags: the parts hold exactly the events other than the
   skipped all-zero boundary images, in order, none more than k. *)
Theorem C09_split_with_boundary_skipping :
  forall (A : Type) (empty_first empty_last : A -> bool) (l : list A) (k : Z)
         (initial final : bool),
    0 < k ->
    concat (split empty_first empty_last l k initial final)
    = slice l (b2z (initial && first_empty empty_first l))
            (Z.of_nat (length l) - b2z (final && last_empty empty_last l))
    /\ Forall (fun p => Z.of_nat (length p) <= k)
              (split empty_first empty_last l k initial final).
Proof. exact @split_ok. Qed.
Print Assumptions C09_split_with_boundary_skipping.

(* No part is empty when no boundary event is skipped ... *)
Theorem C09_split_total_partial :
  forall (A : Type) (empty_first empty_last : A -> bool) (l : list A) (k : Z)
         (initial final : bool),
    0 < k -> l <> [] ->
    initial && first_empty empty_first l = false ->
    final && last_empty empty_last l = false ->
    has_empty_part (split empty_first empty_last l k initial final) = false
    /\ concat (split empty_first empty_last l k initial final) = l.
Proof. exact @split_total_partial. Qed.
Print Assumptions C09_split_total_partial.

(* ... but not in general: finding C09-split-empty-part (a part that only
   holds a skipped boundary event becomes a file without events, which join
   cannot process). *)
Theorem C09_split_total_refuted :
  exists (l : list (Z * bool)) (k : Z),
    0 < k /\ l <> [] /\ has_empty_part (split snd snd l k true true) = true.
Proof. exact split_total_refuted. Qed.
Print Assumptions C09_split_total_refuted.

(* What "empty boundary image" means (cli/common.py:skip_empty_image_events):
   the first event is dropped iff all coordinates of its contour are 0 or all
   pixels of its image are 0; the last one iff all pixels of its image are 0. *)
Theorem C09_split_first_empty_spec :
  forall e : sev,
    sev_first_empty e = true <->
    (exists c, se_cnt e = Some c /\ forall x, In x c -> x = 0)
    \/ (exists p, se_img e = Some p /\ forall x, In x p -> x = 0).
Proof. exact sev_first_empty_spec. Qed.
Print Assumptions C09_split_first_empty_spec.

Theorem C09_split_last_empty_spec :
  forall e : sev,
    sev_last_empty e = true <->
    exists p, se_img e = Some p /\ forall x, In x p -> x = 0.
Proof. exact sev_last_empty_spec. Qed.
Print Assumptions C09_split_last_empty_spec.

(* A measurement whose boundary events are not empty in that sense (one
   non-zero pixel / coordinate suffices) is split without loss under any
   flags. *)
Theorem C09_split_events_lossless :
  forall (l : list sev) (k : Z) (initial final : bool),
    0 < k -> l <> [] ->
    sev_first_empty (hd (mk_sev 0 None None) l) = false ->
    sev_last_empty (last l (mk_sev 0 None None)) = false ->
    has_empty_part (split_events l k initial final) = false
    /\ concat (split_events l k initial final) = l.
Proof. exact split_events_lossless. Qed.
Print Assumptions C09_split_events_lossless.

(* ---- join: order ------------------------------------------------------------ *)

(* The processing order is a permutation of the inputs, ascending in
   (acquisition time, run index); inputs with the same key stay in the given
   order.  For any number of inputs in any order. *)
Theorem C09_join_order_chronological :
  forall inputs : list meas,
    Permutation (sorted_gen leb_num inputs) (tag_from 0 inputs)
    /\ StronglySorted (fun a b => leb_num (snd a) (snd b) = true)
                      (sorted_gen leb_num inputs)
    /\ forall t r, filter (same_key t r) (sorted_gen leb_num inputs)
                   = filter (same_key t r) (tag_from 0 inputs).
Proof. exact join_order_chronological. Qed.
Print Assumptions C09_join_order_chronological.

Theorem C09_join_uses_that_order :
  forall (inputs : list meas) (j : joined),
    join_fixed inputs = Ok j -> j_order j = map fst (sorted_gen leb_num inputs).
Proof. exact join_order_is_sorted. Qed.
Print Assumptions C09_join_uses_that_order.

(* ---- join: features ----------------------------------------------------------- *)

(* The exported features are the innate features of the earliest input that
   every other input has or can compute. *)
Theorem C09_join_features_common :
  forall (inputs : list meas) (j : joined),
    join_fixed inputs = Ok j ->
    exists m0 rest,
      map snd (sorted_gen leb_num inputs) = m0 :: rest
      /\ (NoDup (m_innate m0) -> j_feats j = spec_features m0 rest).
Proof. exact join_features_common. Qed.
Print Assumptions C09_join_features_common.

(* Python's `for x in l: if not keep(x): l.remove(x)` computes [skip_filter]
   (the element after a removed one is never tested) ... *)
Theorem C09_prune_mutating_loop_char :
  forall (keep : Z -> bool) (l : list Z),
    NoDup l -> py_prune Z.eqb keep l = skip_filter keep l.
Proof. exact (py_prune_char Z Z.eqb Z.eqb_eq). Qed.
Print Assumptions C09_prune_mutating_loop_char.

(* ... which is the intended filter only if no two neighbours are removed ... *)
Theorem C09_prune_is_filter_partial :
  forall (keep : Z -> bool) (l : list Z),
    NoDup l -> no_adjacent_removed keep l = true ->
    py_prune Z.eqb keep l = filter keep l.
Proof. exact (py_prune_partial Z Z.eqb Z.eqb_eq). Qed.
Print Assumptions C09_prune_is_filter_partial.

(* ... and not in general (witness [1;2;3;4] with 2 and 3 missing). *)
Theorem C09_prune_is_filter_refuted :
  exists (keep : Z -> bool) (l : list Z),
    NoDup l /\ py_prune Z.eqb keep l <> filter keep l.
Proof. exact py_prune_refuted. Qed.
Print Assumptions C09_prune_is_filter_refuted.

(* Iterating over a copy (the fix) is the filter, for every list. *)
Theorem C09_prune_copy_is_filter :
  forall (keep : Z -> bool) (l : list Z),
    NoDup l -> py_prune_copy Z.eqb keep l = filter keep l.
Proof. exact (py_prune_copy_is_filter Z Z.eqb Z.eqb_eq). Qed.
Print Assumptions C09_prune_copy_is_filter.

(* ---- join: data ----------------------------------------------------------------- *)

(* Every exported column is the concatenation of the inputs' columns in
   processing order: time shifted by the acquisition offset, frame by
   round(offset * frame rate), index = 1..N, everything else unchanged. *)
Theorem C09_join_columns :
  forall (inputs : list meas) (j : joined),
    join_fixed inputs = Ok j ->
    exists m0 rest,
      map snd (sorted_gen leb_num inputs) = m0 :: rest
      /\ forall f, In f (j_feats j) ->
           (kind f = 1 -> lookup_col f (j_cols j)
                          = Some (spec_time (acq_time8 m0) f (m0 :: rest)))
           /\ (kind f = 2 -> lookup_col f (j_cols j)
                             = Some (spec_frame (acq_time8 m0) f (m0 :: rest)))
           /\ (kind f = 4 -> lookup_col f (j_cols j)
                             = Some (spec_index f (m0 :: rest)))
           /\ (kind f = 0 \/ 4 < kind f -> lookup_col f (j_cols j)
                             = Some (spec_plain f (m0 :: rest))).
Proof. exact join_columns. Qed.
Print Assumptions C09_join_columns.

(* join never fails on two or more well-formed inputs (date/time strings
   that strptime/float accept included): no KeyError (every exported feature
   is available in every input), no OverflowError (offsets are never negative
   because the order is chronological), no ValueError. *)
Theorem C09_join_total :
  forall inputs : list meas,
    (2 <= length inputs)%nat -> Forall wf_meas inputs ->
    exists j, join_fixed inputs = Ok j.
Proof. exact join_fixed_total. Qed.
Print Assumptions C09_join_total.

(* It raises ValueError for fewer than two inputs or a date/time that is not
   a real date/time.  Stated on the domain where the model of strptime/float
   is exact ([dt_shape_strict]: two-digit fields, ".digits" fractions); Python
   accepts further spellings ("2024-3-5", "1:02:03", ".5e1", "inf"), about
   which nothing is claimed. *)
Theorem C09_join_rejects_malformed :
  forall inputs : list meas,
    (forall m, In m inputs -> dt_shape_strict m = true) ->
    (length inputs < 2)%nat \/ (exists m, In m inputs /\ wf_datetime m = false) ->
    join_fixed inputs = Err EValue.
Proof. exact join_rejects_strict. Qed.
Print Assumptions C09_join_rejects_malformed.

(* "restricted to the features available in every input": every exported
   feature is stored or computable in every input, the earliest included. *)
Theorem C09_join_features_available_everywhere :
  forall (inputs : list meas) (j : joined),
    join_fixed inputs = Ok j -> Forall wf_meas inputs ->
    forall f m, In f (j_feats j) -> In m inputs -> In f (m_avail m).
Proof. exact join_features_available_everywhere. Qed.
Print Assumptions C09_join_features_available_everywhere.

(* index_online: the inputs' columns in processing order, every later one
   shifted by (last value written so far) + 1. *)
Theorem C09_join_index_online_column :
  forall (inputs : list meas) (j : joined) (f : Z),
    join_fixed inputs = Ok j -> In f (j_feats j) -> kind f = 3 ->
    exists m0 rest,
      map snd (sorted_gen leb_num inputs) = m0 :: rest
      /\ lookup_col f (j_cols j) = Some (spec_ido f (m0 :: rest)).
Proof. exact join_index_online_column. Qed.
Print Assumptions C09_join_index_online_column.

(* Acquisition times never decrease along the processing order: the time and
   frame offsets are never negative and never decrease from one input to the
   next (time and frame are made continuous). *)
Theorem C09_join_offsets_monotone :
  forall inputs : list meas,
    StronglySorted (fun a b => acq_time8 a <= acq_time8 b)
                   (map snd (sorted_gen leb_num inputs)).
Proof. exact join_offsets_monotone. Qed.
Print Assumptions C09_join_offsets_monotone.

(* index_online (non-negative, strictly increasing in every input) is
   non-negative and strictly increasing in the joined file. *)
Theorem C09_join_index_online_increasing :
  forall (inputs : list meas) (j : joined) (f : Z) (c : list Z),
    join_fixed inputs = Ok j ->
    In f (j_feats j) -> kind f = 3 ->
    (forall m, In m inputs -> incr_from (-1) (getcol f m) = true) ->
    lookup_col f (j_cols j) = Some c ->
    incr_from (-1) c = true.
Proof. exact join_index_online_increasing. Qed.
Print Assumptions C09_join_index_online_increasing.

(* The metadata of the joined file: date, time and sample of the earliest
   input, the run index given to join (default 1), event count = number of
   events of all inputs together. *)
Theorem C09_join_meta_from_earliest :
  forall (inputs : list meas) (j : joined),
    join_fixed inputs = Ok j ->
    exists m0 rest,
      map snd (sorted_gen leb_num inputs) = m0 :: rest
      /\ j_date j = m_date m0 /\ j_time j = m_time m0
      /\ j_sample j = m_sample m0 /\ j_run j = 1
      /\ Forall (fun m => acq_time8 m0 <= acq_time8 m) (m0 :: rest)
      /\ forall f fs, j_feats j = f :: fs ->
           j_count j
           = fold_right Z.add 0
               (map (fun m => Z.of_nat (length (getcol f m))) (m0 :: rest)).
Proof. exact join_meta_from_earliest. Qed.
Print Assumptions C09_join_meta_from_earliest.

(* export.hdf5's sorted(set(features)): the unique strictly ascending list
   with the same elements -- for any list, also unsorted or with duplicates;
   the identity on the list join passes (already strictly ascending). *)
Theorem C09_sort_dedup_spec :
  forall l r : list Z,
    (StronglySorted Z.lt r /\ forall x, In x r <-> In x l) <-> r = sort_dedup l.
Proof. exact sort_dedup_spec. Qed.
Print Assumptions C09_sort_dedup_spec.

Theorem C09_sort_dedup_identity :
  forall l : list Z, StronglySorted Z.lt l -> sort_dedup l = l.
Proof. exact sort_dedup_id. Qed.
Print Assumptions C09_sort_dedup_identity.

(* The logs and the configuration of every source are retained. *)
Theorem C09_join_logs_retained :
  forall (inputs : list meas) (j : joined),
    join_fixed inputs = Ok j ->
    forall (i : nat) (m : meas) (lg : Z),
      nth_error (map snd (sorted_gen leb_num inputs)) i = Some m ->
      In lg (m_logs m) \/ lg = LOG_CFG ->
      In (1 + Z.of_nat i, lg) (j_logs j).
Proof. exact join_logs_retained. Qed.
Print Assumptions C09_join_logs_retained.

(* ---- trace channels ---------------------------------------------------------------- *)

(* When all inputs record the same trace channels, every channel of the joined
   file holds every event (rows per channel = sum of the inputs' events) ... *)
Theorem C09_join_trace_consistent_partial :
  forall (ks ns : list Z),
    NoDup ks -> ns <> [] ->
    trace_lengths (map (fun n => (n, ks)) ns)
    = map (fun k => (k, fold_right Z.add 0 ns)) ks.
Proof. exact trace_consistent_partial. Qed.
Print Assumptions C09_join_trace_consistent_partial.

(* ... not in general: finding C09-join-trace-channels-differ (a channel that
   is not in every input receives the events of some inputs only, the trace
   datasets of the output have different lengths). *)
Theorem C09_join_trace_consistent_refuted :
  exists inputs, tl_consistent inputs = false
                 /\ trace_lengths inputs = [(1, 5); (2, 3)].
Proof. exact trace_consistent_refuted. Qed.
Print Assumptions C09_join_trace_consistent_refuted.

(* ---- join of split ---------------------------------------------------------------- *)

(* Joining the parts of a split, given in order (any N, any 0 < k < N, i.e. at
   least two parts; s0/s1: the first/last event was skipped as an empty
   boundary image; no part consists of skipped events only): succeeds, exports
   the innate features, and every column is the original one without the
   skipped boundary events; index is 1..N', index_online follows its block
   rule over the same windows. *)
Theorem C09_join_of_split_partial :
  forall (m : meas) (n k : Z) (s0 s1 : bool),
    0 < k -> k < n -> wf_meas m ->
    (forall f c, lookup_col f (m_cols m) = Some c -> Z.of_nat (length c) = n) ->
    no_empty_part n k s0 s1 = true ->
    exists j,
      join_fixed (split_meas m n k s0 s1) = Ok j
      /\ j_feats j = py_sorted Z.leb (m_innate m)
      /\ forall f c, In f (m_innate m) -> lookup_col f (m_cols m) = Some c ->
           let kept := slice c (b2z s0) (n - b2z s1) in
           (kind f <> 3 -> kind f <> 4 -> lookup_col f (j_cols j) = Some kept)
           /\ (kind f = 4 ->
               lookup_col f (j_cols j)
               = Some (map (fun i => 1 + Z.of_nat i) (seq 0 (length kept))))
           /\ (kind f = 3 ->
               lookup_col f (j_cols j)
               = Some (spec_ido_blocks (split_parts c k s0 s1))).
Proof. exact join_of_split. Qed.
Print Assumptions C09_join_of_split_partial.

(* Without that guard it is false (finding C09-split-empty-part): an
   event-less first part is the earliest input and has no features, so the
   joined file has none and counts 0 events ... *)
Theorem C09_join_of_split_refuted :
  exists m n k s0 s1,
    0 < k /\ k < n /\ wf_meas m
    /\ (forall f c, lookup_col f (m_cols m) = Some c -> Z.of_nat (length c) = n)
    /\ no_empty_part n k s0 s1 = false
    /\ exists j, join_fixed (split_meas m n k s0 s1) = Ok j
                 /\ j_feats j = [] /\ j_count j = 0.
Proof. exact join_of_split_refuted. Qed.
Print Assumptions C09_join_of_split_refuted.

(* ... and an event-less last part makes join raise ValueError when "index"
   is stored. *)
Theorem C09_join_of_split_refuted_error :
  join_fixed (split_meas m_ex 5 2 false true) = Err EValue
  /\ no_empty_part 5 2 false true = false.
Proof. exact join_of_split_refuted_error. Qed.
Print Assumptions C09_join_of_split_refuted_error.
