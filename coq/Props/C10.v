(* C10 — command line tasks never leave a partial file at the output path.
   Property theorems only; each is closed by [exact] of a lemma proved in
   Proofs/C10.v and followed by Print Assumptions.

   [accepts c n t]: t is a word of the protocol of task [c_task c] with n
   output files (Model/C10.v; the operation traces of the real tasks are
   checked to be such words by the correspondence run).
   [init_ok c s0]: before the run output i exists (complete) iff [c_so c i],
   the temporary name i is absent unless [c_st c i], inputs are complete. *)
From Coq Require Import List Bool Arith NArith ZArith.
From Verif Require Import Model.C10 Proofs.C10 Model.C10_paths Proofs.C10_paths.
Import ListNotations.

(* For every task, every protocol word t (any number of writes, append
   rounds, output files), every position k and both fault kinds (killed
   before operation k; operation k raises, with or without a partial effect
   on the file it works on, and the exception unwinds through the with
   blocks, whose exit code may write more or fail again):
   every output path is absent, or still the complete file it was before
   the run, or exactly the closed result of the fault-free run holding all
   of its writes; every input is untouched; no path other than a temporary
   name shows partial content. *)
Theorem C10_no_partial_output :
  forall (c : cfg) (n : nat) (t : list op) (s0 : fs) (k : nat) (f : fault),
    accepts c n t = true -> init_ok c s0 ->
    let s := exec_fault s0 t k f in
    let sF := exec s0 t in
    (forall i, s (POut i) = Absent \/ s (POut i) = s0 (POut i)
               \/ (s (POut i) = sF (POut i)
                   /\ sF (POut i) = Fresh (wcount i t) false))
    /\ (forall i, view (wcount i t) (s (POut i)) = VAbsent
                  \/ view (wcount i t) (s (POut i)) = VComplete)
    /\ (forall j, s (PIn j) = s0 (PIn j))
    /\ (forall p, is_tmp p = false -> view (total_of t p) (s p) <> VPartial).
Proof. exact no_partial_output. Qed.
Print Assumptions C10_no_partial_output.

(* The fault-free run ends with every requested output complete (closed,
   holding every write applied to its temporary file), every temporary name
   gone and the inputs untouched. *)
Theorem C10_success_complete :
  forall (c : cfg) (n : nat) (t : list op) (s0 : fs),
    accepts c n t = true -> init_ok c s0 ->
    let sF := exec s0 t in
    (forall i, i < n ->
               sF (POut i) = Fresh (wcount i t) false
               /\ sF (PTmp i) = Absent
               /\ view (wcount i t) (sF (POut i)) = VComplete)
    /\ (forall j, sF (PIn j) = s0 (PIn j)).
Proof. exact success_complete. Qed.
Print Assumptions C10_success_complete.

(* The protocol as a grammar with arbitrary repetition: for every task, all
   stale-file situations, both ways of creating the temporary file, every
   number w0 of writes and every list of append rounds (each with its own
   number of writes), the word
     Unlink out? ; Unlink tmp? ; create ; Write^w0 ; Close ;
     (OpenAppend ; Write^w ; Close)* ; Rename
   is accepted by the protocol automaton ... *)
Theorem C10_grammar_words_accepted :
  forall (tk : task) (so st trunc : bool) (w0 : nat) (rounds : list nat),
    accepts (cfg1 tk so st) 1 (file_word so st trunc w0 rounds) = true.
Proof. exact file_word_accepted. Qed.
Print Assumptions C10_grammar_words_accepted.

(* ... and therefore a fault of either kind at any position k of such a run
   leaves the output path absent or complete, starting from the file system
   the stale-file flags describe. *)
Theorem C10_grammar_words_safe :
  forall (tk : task) (so st trunc : bool) (w0 : nat) (rounds : list nat)
         (k : nat) (f : fault),
    let c := cfg1 tk so st in
    let t := file_word so st trunc w0 rounds in
    let s := exec_fault (init_fs c) t k f in
    view (wcount 0 t) (s (POut 0)) = VAbsent
    \/ view (wcount 0 t) (s (POut 0)) = VComplete.
Proof. exact file_word_safe. Qed.
Print Assumptions C10_grammar_words_safe.

(* Names (dclab/cli/common.py:setup_task_paths, pathlib semantics; a name is
   the list of its character codes): the temporary name computed for any
   non-empty requested output name is the (suffix-normalised) output name
   followed by "~". *)
Theorem C10_temp_name_is_output_tilde :
  forall name : list Z,
    name <> [] ->
    temp_of (normalize_out name) = normalize_out name ++ [tilde].
Proof. exact temp_is_out_tilde. Qed.
Print Assumptions C10_temp_name_is_output_tilde.

(* Hence different outputs get different temporary names, and a temporary
   name never coincides with a requested output name ... *)
Theorem C10_temp_names_distinct :
  forall n1 n2 : list Z,
    n1 <> [] -> n2 <> [] ->
    (temp_of (normalize_out n1) = temp_of (normalize_out n2) ->
     normalize_out n1 = normalize_out n2)
    /\ temp_of (normalize_out n1) <> normalize_out n2.
Proof. exact temp_names_distinct. Qed.
Print Assumptions C10_temp_names_distinct.

(* ... nor with an input file name the tasks accept (suffix .rtdc or .tdms):
   the paths PIn / POut / PTmp of the protocol model are distinct files. *)
Theorem C10_temp_name_not_an_input :
  forall name inp : list Z,
    name <> [] -> allowed_input inp = true ->
    temp_of (normalize_out name) <> inp.
Proof. exact temp_not_an_input. Qed.
Print Assumptions C10_temp_name_not_an_input.

(* Restart: whatever a fault of either kind at any position leaves behind is
   a legal starting state for the next run of any task (with the stale-file
   flags read off that state): outputs absent or complete, inputs intact,
   leftovers only at temporary names - so the theorems above apply again to
   the next run (for split the next run additionally needs the temporary
   names to be absent, see ASSUMPTIONS in harness/c10.py). *)
Theorem C10_state_after_fault_is_restartable :
  forall (c : cfg) (n : nat) (t : list op) (s0 : fs) (k : nat) (f : fault)
         (tk' : task),
    accepts c n t = true -> init_ok c s0 ->
    let s' := age t (exec_fault s0 t k f) in
    init_ok (flags_of tk' s') s'.
Proof. exact rerun_ready. Qed.
Print Assumptions C10_state_after_fault_is_restartable.

(* One strict protocol per task (compress, condense, repack, join, split,
   tdms2rtdc: which stale files are removed, how the temporary file is
   created, exactly how many append rounds follow - Model/C10.v) is a
   sub-language of the union automaton, so all theorems above hold for the
   runs of each task. *)
Theorem C10_task_protocols_are_sublanguages :
  forall (c : cfg) (n : nat) (t : list op),
    accepts_task c n t = true -> accepts c n t = true.
Proof. exact accepts_task_sub. Qed.
Print Assumptions C10_task_protocols_are_sublanguages.

(* After a fault of either kind at position k, output i holds the complete
   result iff its rename is among the first k operations; if the rename was
   still to come the output path is absent or still the old complete file. *)
Theorem C10_outputs_present_iff_renamed :
  forall (c : cfg) (n : nat) (t : list op) (s0 : fs) (k : nat) (f : fault)
         (i : nat),
    accepts c n t = true -> init_ok c s0 ->
    let s := exec_fault s0 t k f in
    (In (ren i) (firstn k t) -> s (POut i) = Fresh (wcount i t) false)
    /\ (In (ren i) (skipn k t) ->
        s (POut i) = Absent \/ s (POut i) = s0 (POut i)).
Proof. exact outputs_by_rename. Qed.
Print Assumptions C10_outputs_present_iff_renamed.

(* split with n parts (renames last, part by part): a fault at the j-th
   rename leaves parts < j complete and parts >= j absent (or the old
   complete file): their new data exist under temporary names only. *)
Theorem C10_split_parts :
  forall (c : cfg) (n j : nat) (body : list op) (s0 : fs) (f : fault),
    j <= n ->
    let t := body ++ map ren (seq 0 j) ++ map ren (seq j (n - j)) in
    accepts c n t = true -> init_ok c s0 ->
    let s := exec_fault s0 t (length (body ++ map ren (seq 0 j))) f in
    (forall i, i < j -> s (POut i) = Fresh (wcount i t) false)
    /\ (forall i, j <= i < n ->
                  s (POut i) = Absent \/ s (POut i) = s0 (POut i)).
Proof. exact split_parts. Qed.
Print Assumptions C10_split_parts.

(* setup_task_paths with its refusal.  Paths are (resolved directory, file
   name) pairs, names lists of character codes; inputs arbitrary (also with
   check_suffix=False).  The task refuses to run exactly when the
   suffix-corrected output path or its temporary path is one of the input
   paths (e.g. output "data" for input "data.rtdc"; output "x.rtdc" for
   input "x.rtdc~") ... *)
Theorem C10_setup_refuses_iff_output_or_temp_is_input :
  forall (inputs : list fpath) (d : Z) (name : list Z),
    setup_paths_at inputs d name = None
    <-> In (d, normalize_out name) inputs
        \/ In (d, temp_of (normalize_out name)) inputs.
Proof. exact setup_refuses_iff. Qed.
Print Assumptions C10_setup_refuses_iff_output_or_temp_is_input.

(* ... and when it does run, the only two paths it unlinks - the output and
   the temporary path, which is the output name plus "~" in the same
   directory - are not among the inputs, whatever their names: setup never
   removes an input. *)
Theorem C10_setup_unlinks_no_input :
  forall (inputs : list fpath) (d : Z) (name : list Z) (o t : fpath),
    name <> [] ->
    setup_paths_at inputs d name = Some (o, t) ->
    o = (d, normalize_out name) /\ t = (d, snd o ++ [tilde])
    /\ ~ In o inputs /\ ~ In t inputs.
Proof. exact setup_unlinks_no_input. Qed.
Print Assumptions C10_setup_unlinks_no_input.

(* With the suffix check in force (inputs .rtdc/.tdms) the temporary path
   cannot be an input, so the refusal happens exactly when the output is. *)
Theorem C10_setup_refusal_with_suffix_check :
  forall (inputs : list fpath) (d : Z) (name : list Z),
    name <> [] ->
    (forall inp, In inp inputs -> allowed_input (snd inp) = true) ->
    (setup_paths_at inputs d name = None
     <-> In (d, normalize_out name) inputs).
Proof. exact setup_refuses_allowed. Qed.
Print Assumptions C10_setup_refusal_with_suffix_check.

(* Lists of requested outputs (tdms2rtdc on a folder; any caller with
   lists): [unlink_set] is everything setup may remove - every corrected
   output and every temporary path.  Setup refuses exactly when one of them
   is an input ... *)
Theorem C10_setup_list_refuses_iff :
  forall (inputs reqs : list fpath),
    setup_paths_list inputs reqs = None
    <-> exists p, In p (unlink_set reqs) /\ In p inputs.
Proof. exact setup_list_refuses_iff. Qed.
Print Assumptions C10_setup_list_refuses_iff.

(* ... and when it runs, no path of its unlink set is an input; an output is
   never the temporary path of another request. *)
Theorem C10_setup_list_unlinks_no_input :
  forall (inputs reqs : list fpath) (ots : list (fpath * fpath)),
    setup_paths_list inputs reqs = Some ots ->
    ots = map out_tmp reqs
    /\ forall p, In p (unlink_set reqs) -> ~ In p inputs.
Proof. exact setup_list_unlinks_no_input. Qed.
Print Assumptions C10_setup_list_unlinks_no_input.

Theorem C10_output_never_another_temp :
  forall r1 r2 : fpath,
    snd r1 <> [] -> snd r2 <> [] ->
    fst (out_tmp r1) <> snd (out_tmp r2).
Proof. exact out_never_a_temp. Qed.
Print Assumptions C10_output_never_another_temp.

(* split (no setup_task_paths): for an input named <stem><suffix> (a pathlib
   suffix is empty or starts with a dot) neither a part <stem>_<digits>.rtdc
   nor its temporary name <stem>_<digits>.rtdc~ is the input. *)
Theorem C10_split_names_not_input :
  forall stem digits sfx : list Z,
    (sfx = [] \/ exists r, sfx = dot :: r) ->
    split_out stem digits <> stem ++ sfx
    /\ temp_of (split_out stem digits) = split_out stem digits ++ [tilde]
    /\ temp_of (split_out stem digits) <> stem ++ sfx.
Proof. exact split_names_not_input. Qed.
Print Assumptions C10_split_names_not_input.

(* The executable test [split_shape] (evaluated on every recorded split
   trace) delivers the word shape that C10_split_parts assumes. *)
Theorem C10_split_shape_gives_parts_form :
  forall (n : nat) (t : list op) (j : nat),
    split_shape n t = true -> j <= n ->
    t = firstn (length t - n) t
        ++ map ren (seq 0 j) ++ map ren (seq j (n - j)).
Proof. exact split_shape_form. Qed.
Print Assumptions C10_split_shape_gives_parts_form.
