(* C11 — metadata values are type-normalised and survive storage unchanged.
   Property theorems only; each is closed by [exact] of a lemma proved in
   Proofs/C11.v or Proofs/C11_table.v and followed by Print Assumptions.
   [table], [feats], [meta_sections] and [probes] are generated from the tree
   under test (Gen/MetaTable.v). *)
From Coq Require Import ZArith List Bool Permutation.
From Verif Require Import Model.C11 Proofs.C11 Gen.MetaTable Proofs.C11_table.
Import ListNotations.
Open Scope Z_scope.

(* Every converter function of the tables (and "no converter") is idempotent
   on every value: converting a converted value changes nothing. *)
Theorem C11_converter_idempotent :
  forall (c : conv) (v w : value), apply c v = Ok w -> apply c w = Ok w.
Proof. exact apply_idempotent. Qed.
Print Assumptions C11_converter_idempotent.

(* For every section and key (table keys, pattern keys, user keys), every
   value and every dictionary content: if an assignment stores something
   without a warning, assigning the stored value again leaves the dictionary
   as it is. *)
Theorem C11_assignment_idempotent :
  forall (sec key : str) (v : value) (d d' : dict),
    setitem table feats sec key v d = Done d' [] ->
    exists w, dget d' (lower key) = Some w /\
              setitem table feats sec key w d' = Done d' [].
Proof. exact table_assignment_idempotent. Qed.
Print Assumptions C11_assignment_idempotent.

(* Keys are case-insensitive: two spellings with the same lower-case form
   behave identically (result, warnings, errors). *)
Theorem C11_case_insensitive :
  forall (sec key key' : str) (v : value) (d : dict),
    lower key = lower key' ->
    setitem table feats sec key v d = setitem table feats sec key' v d.
Proof. exact (setitem_case_insensitive table feats). Qed.
Print Assumptions C11_case_insensitive.

(* Unknown keys, empty strings (also as bytes) and None are rejected: at
   least one warning, the dictionary is unchanged, no exception. *)
Theorem C11_rejects_unknown_empty_none :
  forall (sec key : str) (v v1 : value) (d : dict),
    decode v = Ok v1 ->
    verify table feats sec (lower key) <> None \/ v1 = VS (SStr []) \/
    v1 = VS SNone ->
    exists w ws, setitem table feats sec key v d = Done d (w :: ws).
Proof. exact (setitem_rejects table feats). Qed.
Print Assumptions C11_rejects_unknown_empty_none.

(* The assignment implements the specification [spec_store]: nothing for a
   rejected entry, otherwise the value converted exactly once, stored under
   the lower-case key; converter errors propagate. *)
Theorem C11_assignment_meets_spec :
  forall (sec key : str) (v : value) (d : dict),
    match spec_store table feats sec key v with
    | Ok (Some w) =>
        setitem table feats sec key v d = Done (dset d (lower key) w) []
    | Ok None => exists w ws, setitem table feats sec key v d = Done d (w :: ws)
    | Raise e => setitem table feats sec key v d = Exc e
    | Unmod => setitem table feats sec key v d = OUnmod
    end.
Proof. exact (setitem_meets_spec table feats). Qed.
Print Assumptions C11_assignment_meets_spec.

(* Routes: ConfigurationDict.update / Configuration.update / the constructor
   assign key by key.  Frame: entries whose (lower-case) key is not assigned
   keep their value ... *)
Theorem C11_update_frame :
  forall (sec : str) (items : list (str * value)) (d d' : dict)
         (ws : list warning) (k0 : str),
    update table feats sec items d = Done d' ws ->
    (forall k v, In (k, v) items -> lower k <> k0) ->
    dget d' k0 = dget d k0.
Proof. exact (update_frame table feats). Qed.
Print Assumptions C11_update_frame.

(* ... the last assignment of a key decides: it stores what the
   specification says ... *)
Theorem C11_update_last_wins :
  forall (sec : str) (items : list (str * value)) (k : str) (v : value)
         (d d' : dict) (ws : list warning) (w : value),
    update table feats sec (items ++ [(k, v)]) d = Done d' ws ->
    spec_store table feats sec k v = Ok (Some w) ->
    dget d' (lower k) = Some w.
Proof. exact (update_last_wins table feats). Qed.
Print Assumptions C11_update_last_wins.

(* ... and a rejected assignment (unknown key, "", None) changes nothing. *)
Theorem C11_update_rejected_keeps :
  forall (sec : str) (items : list (str * value)) (k : str) (v : value)
         (d d' : dict) (ws : list warning),
    update table feats sec (items ++ [(k, v)]) d = Done d' ws ->
    spec_store table feats sec k v = Ok None ->
    exists d1 ws1, update table feats sec items d = Done d1 ws1 /\ d' = d1.
Proof. exact (update_rejected_keeps table feats). Qed.
Print Assumptions C11_update_rejected_keeps.

(* Configuration level (cfg[sec][key] = v, Configuration.update, constructor):
   section names and keys are case-insensitive, and the item route is the
   dictionary-level assignment on the lower-case section. *)
Theorem C11_section_and_key_case_insensitive :
  forall (sec sec' key key' : str) (v : value) (c : config),
    lower sec = lower sec' -> lower key = lower key' ->
    cfg_item table feats sections sec key v c
    = cfg_item table feats sections sec' key' v c
    /\ forall items, cfg_update table feats sec items c
                     = cfg_update table feats sec' items c.
Proof.
  exact (fun sec sec' key key' v c Hs Hk =>
           conj (cfg_item_case_insensitive table feats sections
                   sec sec' key key' v c Hs Hk)
                (fun items => cfg_update_case_insensitive table feats
                                sec sec' items c Hs)).
Qed.
Print Assumptions C11_section_and_key_case_insensitive.

Theorem C11_item_route_is_assignment :
  forall (sec key : str) (v : value) (c : config),
    (cget c (lower sec) <> None \/
     mem_str (lower sec) sections || str_eqb (lower sec) s_user = true) ->
    cfg_item table feats sections sec key v c =
    match setitem table feats (lower sec) key v
                  (match cget c (lower sec) with Some d => d | None => [] end)
    with
    | Done d' ws => CDone (cset c (lower sec) d') (ws ++ [])
    | Exc e => CExc e
    | OUnmod => CUnmod
    end.
Proof. exact (cfg_item_is_setitem table feats sections). Qed.
Print Assumptions C11_item_route_is_assignment.

(* ... and a line of a configuration file (comment removed, not a header)
   is split at its FIRST "=" -- further "=" belong to the value -- and gives
   the same result as assigning the stripped text right of it to the
   stripped, lower-cased name left of it (converted once by load_from_file
   and once more by Configuration.update), for every known key. *)
Theorem C11_file_line_agrees :
  forall (sec line rawvar rawval : str) (d : dict),
    let l := strip (before_hash line) in
    (starts_with [91] l && ends_with [93] l) = false ->
    count_c 61 rawvar = 0 ->
    l = rawvar ++ 61 :: rawval ->
    lower (strip rawvar) <> [] ->
    key_exists table feats sec (lower (strip rawvar)) = true ->
    file_text rawval <> [] ->
    line_route table feats sec line d
    = setitem table feats sec (lower (strip rawvar))
              (VS (SStr (file_text rawval))) d.
Proof. exact (line_route_agrees table feats). Qed.
Print Assumptions C11_file_line_agrees.

(* A section of a configuration file consisting of well-formed entries for
   known keys (any number, repeated keys allowed) is the update with the
   (name, text) pairs in file order. *)
Theorem C11_file_section_agrees :
  forall (sec : str) (es : list (str * str * str)) (d : dict),
    Forall (good_entry table feats sec) es ->
    load_section table feats sec (map (fun e => fst (fst e)) es) d
    = update table feats sec
             (map (fun e => (lower (strip (snd (fst e))),
                             VS (SStr (file_text (snd e))))) es) d.
Proof. exact (load_section_agrees table feats). Qed.
Print Assumptions C11_file_section_agrees.

(* Whole files: an entry before any section header is an error ... *)
Theorem C11_file_entry_before_header_fails :
  forall (line : str) (rest : list str) (c : config) (a b : str),
    not_header line ->
    strip (before_hash line) <> [] ->
    split_first 61 (strip (before_hash line)) = Some (a, b) ->
    load_lines table feats None (line :: rest) c = CExc EOther.
Proof. exact (load_lines_entry_before_header table feats). Qed.
Print Assumptions C11_file_entry_before_header_fails.

(* ... and below a header the lines up to the next header (comments, blank
   and invalid lines included, repeated keys in file order) are exactly the
   dictionary-level fold of the section, to which C11_file_section_agrees
   applies. *)
Theorem C11_file_lines_are_section_fold :
  forall (lines : list str) (s : str) (c : config),
    Forall not_header lines ->
    match load_section table feats s lines (dof c s) with
    | Done d' ws =>
        exists c', load_lines table feats (Some s) lines c = CDone c' ws /\
                   dof c' s = d'
    | Exc e => load_lines table feats (Some s) lines c = CExc e
    | OUnmod => load_lines table feats (Some s) lines c = CUnmod
    end.
Proof. exact (load_lines_section table feats). Qed.
Print Assumptions C11_file_lines_are_section_fold.

(* cfg[sec] = {...} (section assignment): the section is replaced; the last
   entry is stored as the specification says, unassigned keys are gone. *)
Theorem C11_section_assignment :
  forall (sec : str) (items : list (str * value)) (c c' : config)
         (ws : list warning),
    (forall k v w,
        cfg_setsection table feats sec (items ++ [(k, v)]) c = CDone c' ws ->
        spec_store table feats (lower sec) k v = Ok (Some w) ->
        dget (dof c' (lower sec)) (lower k) = Some w) /\
    (forall k0,
        cfg_setsection table feats sec items c = CDone c' ws ->
        (forall k v, In (k, v) items -> lower k <> k0) ->
        dget (dof c' (lower sec)) k0 = None).
Proof.
  exact (fun sec items c c' ws =>
           conj (fun k v w => cfg_setsection_last_wins table feats
                                sec items k v c c' ws w)
                (fun k0 => cfg_setsection_replaces table feats
                             sec items c c' ws k0)).
Qed.
Print Assumptions C11_section_assignment.

(* ConfigurationDict.items() lists every stored entry exactly once. *)
Theorem C11_items_permutation :
  forall d : dict, Permutation (items d) d.
Proof. exact items_perm. Qed.
Print Assumptions C11_items_permutation.

(* Every key of the generated table is found under its own lower-case name
   with the converter the table gives. *)
Theorem C11_table_keys_resolve :
  forall r, In r table ->
    key_exists table feats (r_sec r) (r_key r) = true /\
    func_of table (r_sec r) (r_key r) = r_conv r /\
    lower (r_key r) = r_key r.
Proof. exact table_key_conv. Qed.
Print Assumptions C11_table_keys_resolve.

(* For every key of the generated table the converted value has one of the
   types documented for the key (meta_const.config_types). *)
Theorem C11_documented_type :
  forall r, In r table ->
    forall v w, not_bytes v = true -> apply (r_conv r) v = Ok w ->
                has_some_type (r_types r) w = true.
Proof. exact table_type_ok. Qed.
Print Assumptions C11_documented_type.

(* The same for every key that has a documented type, i.e. also the
   online_filter pattern keys "<feat> soft limit" (bool), "<f1>,<f2> polygon
   points" (array) and "<feat> min/max" (number). *)
Theorem C11_documented_type_all_keys :
  forall (sec key : str) (v w : value),
    types_of table sec key <> [] -> not_bytes v = true ->
    apply (func_of table sec key) v = Ok w ->
    has_some_type (types_of table sec key) w = true.
Proof. exact all_keys_type_ok. Qed.
Print Assumptions C11_documented_type_all_keys.

(* HDF5 attribute round trip, for every table key of a section that is
   written to .rtdc files: what the attribute layer returns for a converted
   value converts back to exactly that value. *)
Theorem C11_attr_roundtrip :
  forall r, In r table -> r_meta r = true ->
    forall v w x, apply (r_conv r) v = Ok w -> h5 w = Ok x ->
                  apply (r_conv r) x = Ok w.
Proof. exact table_attr_roundtrip. Qed.
Print Assumptions C11_attr_roundtrip.

(* The same for the pattern keys (soft limit: fbool, polygon points:
   f2dfloatarray): every converter except fintlist (analysis section only). *)
Theorem C11_attr_roundtrip_converters :
  forall c v w x, roundtrippable c = true ->
    apply c v = Ok w -> h5 w = Ok x -> apply c x = Ok w.
Proof. exact attr_roundtrip. Qed.
Print Assumptions C11_attr_roundtrip_converters.

(* online_filter "<feat> min/max" (converter fnumber, partial: equality of
   the value, not of the Python type -- a bool comes back as float, an int as
   numpy integer). *)
Theorem C11_attr_roundtrip_number_partial :
  forall v w x, apply CFnumber v = Ok w -> h5 w = Ok x ->
    exists y, apply CFnumber x = Ok y /\ nf y = nf w.
Proof. exact attr_roundtrip_number. Qed.
Print Assumptions C11_attr_roundtrip_number_partial.

(* Keys without a converter (user section): the attribute
   layer changes the Python type into a numpy type, the value compares
   equal. *)
Theorem C11_attr_preserves_unconverted_values :
  forall w x, wf_arr0 w = true -> h5 w = Ok x -> nf x = nf w.
Proof. exact h5_preserves_value. Qed.
Print Assumptions C11_attr_preserves_unconverted_values.

(* Whole route: RTDCWriter.store_metadata of an entry of a metadata section,
   then re-opening the file (parse_config), stores exactly what the
   assignment stores. *)
Theorem C11_file_storage_agrees_with_assignment :
  forall (sec key : str) (v v1 w x : value) (d : dict),
    lower key = key ->
    str_eqb sec s_user = false ->
    mem_str sec meta_sections = true ->
    key_exists table feats sec key = true ->
    roundtrippable (func_of table sec key) = true ->
    decode v = Ok v1 -> clean v1 = true ->
    apply (func_of table sec key) v1 = Ok w -> h5 w = Ok x ->
    h5_route table feats meta_sections sec key v d
    = setitem table feats sec key v d
    /\ setitem table feats sec key v d = Done (dset d key w) [].
Proof. exact (h5_route_agrees table feats meta_sections). Qed.
Print Assumptions C11_file_storage_agrees_with_assignment.

(* Carried over by export.hdf5 and the command-line tools (every tool hop
   hands the entry of the source configuration to RTDCWriter.store_metadata
   of the new file, or copies the attribute): after ANY number of hops the
   file holds exactly the normalised original ... *)
Theorem C11_carry_over_stable :
  forall (sec key : str) (v v1 w x : value),
    lower key = key ->
    str_eqb sec s_user = false ->
    mem_str sec meta_sections = true ->
    key_exists table feats sec key = true ->
    roundtrippable (func_of table sec key) = true ->
    decode v = Ok v1 -> clean v1 = true ->
    apply (func_of table sec key) v1 = Ok w -> h5 w = Ok x ->
    forall n, carry_hops table feats meta_sections n sec key v
              = Done [(key, w)] [].
Proof. exact (carry_hops_stable table feats meta_sections). Qed.
Print Assumptions C11_carry_over_stable.

(* ... and user-defined entries (any non-blank key, any case, colons) reach a
   fixed point with the first file, which compares equal to the original. *)
Theorem C11_carry_over_user_entries :
  forall (key : str) (v v1 x : value),
    decode v = Ok v1 -> clean v1 = true -> h5 v1 = Ok x ->
    strip (lower key) <> [] ->
    (forall n, carry_hops table feats meta_sections n s_user key v
               = Done [(lower key, x)] []) /\
    (wf_arr0 v1 = true -> nf x = nf v1).
Proof. exact (carry_hops_user_stable table feats meta_sections). Qed.
Print Assumptions C11_carry_over_user_entries.

(* The model's key validation / converter lookup / documented types agree
   with the answers of the real meta_logic functions on the probe keys
   recorded by the translator (bridge obligation). *)
Theorem C11_probes_agree : forallb probe_ok probes = true.
Proof. exact probes_agree. Qed.
Print Assumptions C11_probes_agree.
