From Coq Require Import ZArith List Bool.
From Verif Require Import Model.C11 Proofs.C11.
Import ListNotations.
Open Scope Z_scope.

Theorem C11_lower_idem : forall s, lower (lower s) = lower s.
Proof. exact lower_idem. Qed.
Print Assumptions C11_lower_idem.
