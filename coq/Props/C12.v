(* C12 - statistics and density estimates are computed from exactly the
   filtered events.  Property theorems only; each is closed by [exact] of a
   lemma proved in Proofs/C12.v and followed by Print Assumptions.

   PARTIAL by design (DESIGN.md 5/C12, 8): the estimators (histogram spline,
   gaussian_kde, product kernel, Doane spacing, grid construction, grid
   interpolation, downsample_grid, np.log/np.exp) are universally quantified
   functions; no theorem says that dclab's KDE equals a reference estimator -
   that part is differential testing in harness/c12.py. *)
From Coq Require Import ZArith List Bool.
From Verif Require Import Model.C12 Proofs.C12 Gen.StatMethods
     Proofs.C12_inventory.
Import ListNotations.
Open Scope Z_scope.

(* ---- selection core ---------------------------------------------------- *)

(* x[mask] does not depend on the values of excluded events (columns of any
   lengths: nth_error also compares presence) *)
Theorem C12_select_noninterference :
  forall (A : Type) (mask : list bool) (xs xs' : list A),
    (forall i : nat, nth i mask false = true ->
                     nth_error xs i = nth_error xs' i) ->
    select mask xs = select mask xs'.
Proof. exact @select_ext. Qed.
Print Assumptions C12_select_noninterference.

(* ---- statistics -------------------------------------------------------- *)

(* every statistics method x feature (Mean, Median, Mode, SD and any other
   function of the data): excluded events never influence the result *)
Theorem C12_statistics_noninterference :
  forall (method : list Z -> sres) (fall : list bool) (xs xs' : list fv),
    (forall i : nat, nth i fall false = true ->
                     nth_error xs i = nth_error xs' i) ->
    stat_call method true fall xs = stat_call method true fall xs'.
Proof. exact stat_call_noninterference. Qed.
Print Assumptions C12_statistics_noninterference.

(* the whole of get_statistics (Events, %-gated and every feature block) *)
Theorem C12_get_statistics_noninterference :
  forall (fall : list bool) (feats feats' : list (Z * Z * list fv)),
    Forall2 (fun f f' => fst f = fst f' /\
               forall i : nat, nth i fall false = true ->
                               nth_error (snd f) i = nth_error (snd f') i)
            feats feats' ->
    get_statistics true fall feats = get_statistics true fall feats'.
Proof. exact get_statistics_noninterference. Qed.
Print Assumptions C12_get_statistics_noninterference.

(* a statistic on the filtered dataset = the statistic on the dataset of the
   selected events only (all-True filter, or filtering disabled) *)
Theorem C12_statistics_filtered_eq_restricted :
  forall (method : list Z -> sres) (fall : list bool) (xs : list fv),
    let sel := select fall xs in
    stat_call method true fall xs = stat_call method true (all_true sel) sel /\
    stat_call method true fall xs = stat_call method false (all_true sel) sel.
Proof. exact stat_call_filtered_eq_restricted. Qed.
Print Assumptions C12_statistics_filtered_eq_restricted.

(* with filtering disabled all (finite) events are used, whatever the mask *)
Theorem C12_statistics_disabled_uses_all :
  forall (method : list Z -> sres) (fall : list bool) (xs : list fv),
    stat_call method false fall xs =
    match purge xs with [] => SNaN | d => method d end /\
    stat_call method false fall xs = stat_call method true (all_true xs) xs.
Proof. exact stat_call_disabled_uses_all. Qed.
Print Assumptions C12_statistics_disabled_uses_all.

(* the data handed to a statistic are exactly the finite selected values *)
Theorem C12_statistics_data_spec :
  forall (enable : bool) (fall : list bool) (xs : list fv),
    get_feature enable fall xs =
    map snd (filter finite (select (filter_all enable fall xs) xs)).
Proof. exact get_feature_spec. Qed.
Print Assumptions C12_statistics_data_spec.

(* "Events" is the number of events of the restricted dataset *)
Theorem C12_events_is_selected_count :
  forall (A : Type) (fall : list bool) (xs : list A),
    length fall = length xs -> fall <> [] ->
    st_events fall = SVal (zlen (select fall xs)) 1.
Proof. exact @events_eq_restricted_len. Qed.
Print Assumptions C12_events_is_selected_count.

(* median: at most half of the values lie below and at most half above *)
Theorem C12_median_order_statistic :
  forall d : list Z, 0 < zlen d ->
    2 * countp (fun x => 2 * x <? median16 d) d <= zlen d /\
    2 * countp (fun x => median16 d <? 2 * x) d <= zlen d.
Proof. exact median_order. Qed.
Print Assumptions C12_median_order_statistic.

(* mean = sum/count lies between any bounds of the data, order independent *)
Theorem C12_mean_bounds :
  forall (lo hi : Z) (d : list Z), (forall x, In x d -> lo <= x <= hi) ->
    zlen d * lo <= zsum d <= zlen d * hi.
Proof. exact zsum_bounds. Qed.
Print Assumptions C12_mean_bounds.

(* the mean does not depend on the order of the events *)
Theorem C12_mean_order_independent :
  forall d : list Z, zsum (isort d) = zsum d /\ zlen (isort d) = zlen d.
Proof. exact (fun d => conj (zsum_isort d) (zlen_isort d)). Qed.
Print Assumptions C12_mean_order_independent.

(* SD: st_var d = var_num d / (64 n^2) is the mean squared deviation from the
   mean: n * var_num d = sum (n x - sum d)^2; it is never negative and zero
   exactly for constant data *)
Theorem C12_sd_definition :
  forall d : list Z,
    zlen d * var_num d
    = zsum (map (fun x => (zlen d * x - zsum d) * (zlen d * x - zsum d)) d)
    /\ 0 <= var_num d
    /\ (var_num d = 0 <-> forall x, In x d -> zlen d * x = zsum d).
Proof.
  exact (fun d => conj (var_num_definition d)
                       (conj (var_num_nonneg d) (var_num_zero_iff d))).
Qed.
Print Assumptions C12_sd_definition.

(* mode: the reported bin holds at least as many events as any other bin *)
Theorem C12_mode_bin_is_fullest :
  forall keys : list Z, keys <> [] ->
    forall k, countp (Z.eqb k) keys <= countp (Z.eqb (mode_key keys)) keys.
Proof. exact mode_key_max. Qed.
Print Assumptions C12_mode_bin_is_fullest.

(* ---- percentile / quantile level ---------------------------------------- *)

(* np.percentile(d, 100*a/b) (linear interpolation), P = b * level: the
   number of values below the level is at most q*n + (1-q), the number of
   values not above it is more than q*n - q: "the fraction q of the events
   lies below the level" up to one event *)
Theorem C12_percentile_brackets :
  forall a b : Z, 0 <= a <= b -> 0 < b ->
    forall d : list Z, 0 < zlen d ->
      let P := perc_lin a b d in
      let n := zlen d in
      b * countp (fun x => b * x <? P) d <= a * n + (b - a) /\
      a * n - a < b * countp (fun x => b * x <=? P) d.
Proof. exact percentile_brackets. Qed.
Print Assumptions C12_percentile_brackets.

(* DESIGN.md states the bracket without slack, #(d<p) <= q*n; that is false
   for numpy's definition (n = 3, q = 1/10) *)
Theorem C12_percentile_brackets_noslack_refuted :
  exists a b d, 0 <= a <= b /\ 0 < b /\ 0 < zlen d /\
    ~ (b * countp (fun x => b * x <? perc_lin a b d) d <= a * zlen d).
Proof. exact percentile_brackets_noslack_refuted. Qed.
Print Assumptions C12_percentile_brackets_noslack_refuted.

(* the level lies between two sample values *)
Theorem C12_percentile_between_samples :
  forall a b : Z, 0 <= a <= b -> 0 < b ->
    forall d : list Z, 0 < zlen d ->
      exists lo hi, In lo d /\ In hi d /\ b * lo <= perc_lin a b d <= b * hi.
Proof. exact perc_between. Qed.
Print Assumptions C12_percentile_between_samples.

(* quantile level of a filtered dataset, for every interpolated density *)
Theorem C12_quantile_level_brackets :
  forall (interp : fv -> fv -> Z) (fall : list bool) (a b : Z)
         (xs ys : list fv),
    0 <= a <= b -> 0 < b ->
    let dp := event_density interp (select fall xs) (select fall ys) in
    let P := ds_quantile_level interp fall a b xs ys in
    0 < zlen dp ->
    b * countp (fun d => b * d <? P) dp <= a * zlen dp + (b - a) /\
    a * zlen dp - a < b * countp (fun d => b * d <=? P) dp.
Proof. exact quantile_level_brackets. Qed.
Print Assumptions C12_quantile_level_brackets.

(* ---- density estimates, for EVERY estimator / scale function -------------- *)

Theorem C12_kde_scatter_noninterference :
  forall (D : Type) (dnan : D) (logf : fv -> fv) (K : Type)
         (core : K -> list fv -> list fv -> list fv -> list fv -> list D)
         (is_none : K -> bool) (done : D)
         (fall : list bool) (k : K) (sx sy : scale)
         (xs xs' ys ys' : list fv) (pos : option (list fv * list fv)),
    (forall i : nat, nth i fall false = true ->
                     nth_error xs i = nth_error xs' i) ->
    (forall i : nat, nth i fall false = true ->
                     nth_error ys i = nth_error ys' i) ->
    kde_scatter D dnan logf K core is_none done fall k sx sy xs ys pos =
    kde_scatter D dnan logf K core is_none done fall k sx sy xs' ys' pos.
Proof. exact kde_scatter_noninterference. Qed.
Print Assumptions C12_kde_scatter_noninterference.

Theorem C12_kde_scatter_filtered_eq_restricted :
  forall (D : Type) (dnan : D) (logf : fv -> fv) (K : Type)
         (core : K -> list fv -> list fv -> list fv -> list fv -> list D)
         (is_none : K -> bool) (done : D)
         (fall : list bool) (k : K) (sx sy : scale)
         (xs ys : list fv) (pos : option (list fv * list fv)),
    length xs = length ys ->
    let rx := select fall xs in
    let ry := select fall ys in
    kde_scatter D dnan logf K core is_none done fall k sx sy xs ys pos =
    kde_scatter D dnan logf K core is_none done (all_true rx) k sx sy rx ry pos.
Proof. exact kde_scatter_filtered_eq_restricted. Qed.
Print Assumptions C12_kde_scatter_filtered_eq_restricted.

Theorem C12_kde_contour_noninterference :
  forall (D : Type) (dnan : D) (logf expf : fv -> fv) (K : Type)
         (core : K -> list fv -> list fv -> list fv -> list fv -> list D)
         (is_none : K -> bool) (done : D)
         (A : Type) (spacing : list fv -> A)
         (mesh : option A -> option A -> A -> A -> list fv -> list fv ->
                 option (list fv * list fv))
         (fall : list bool) (k : K) (sx sy : scale) (xacc yacc : option A)
         (xs xs' ys ys' : list fv),
    (forall i : nat, nth i fall false = true ->
                     nth_error xs i = nth_error xs' i) ->
    (forall i : nat, nth i fall false = true ->
                     nth_error ys i = nth_error ys' i) ->
    kde_contour D dnan logf expf K core is_none done A spacing mesh fall k sx sy xacc yacc
                xs ys =
    kde_contour D dnan logf expf K core is_none done A spacing mesh fall k sx sy xacc yacc
                xs' ys'.
Proof. exact kde_contour_noninterference. Qed.
Print Assumptions C12_kde_contour_noninterference.

Theorem C12_kde_contour_filtered_eq_restricted :
  forall (D : Type) (dnan : D) (logf expf : fv -> fv) (K : Type)
         (core : K -> list fv -> list fv -> list fv -> list fv -> list D)
         (is_none : K -> bool) (done : D)
         (A : Type) (spacing : list fv -> A)
         (mesh : option A -> option A -> A -> A -> list fv -> list fv ->
                 option (list fv * list fv))
         (fall : list bool) (k : K) (sx sy : scale) (xacc yacc : option A)
         (xs ys : list fv),
    length xs = length ys ->
    let rx := select fall xs in
    let ry := select fall ys in
    kde_contour D dnan logf expf K core is_none done A spacing mesh fall k sx sy xacc yacc
                xs ys =
    kde_contour D dnan logf expf K core is_none done A spacing mesh (all_true rx) k sx sy
                xacc yacc rx ry.
Proof. exact kde_contour_filtered_eq_restricted. Qed.
Print Assumptions C12_kde_contour_filtered_eq_restricted.

(* nan/inf wrapper: only jointly finite events reach the estimator, and the
   density has one entry per requested position *)
Theorem C12_kde_wrapper_purges :
  forall xs ys : list fv,
    Forall (fun v => finite v = true) (select (good2 xs ys) xs) /\
    Forall (fun v => finite v = true) (select (good2 xs ys) ys).
Proof. exact good2_select_finite. Qed.
Print Assumptions C12_kde_wrapper_purges.

(* the values of the estimator are placed on the jointly finite positions in
   order, every other position is NaN *)
Theorem C12_kde_wrapper_places :
  forall (D : Type) (dnan : D) (good : list bool) (dens : list D),
    length dens = length (select good good) ->
    select good (place D dnan good dens) = dens /\
    length (place D dnan good dens) = length good /\
    forall i : nat, (i < length good)%nat -> nth i good true = false ->
                    nth i (place D dnan good dens) dnan = dnan.
Proof.
  exact (fun D dnan good dens H =>
           conj (place_select D dnan good dens H)
                (conj (place_length D dnan good dens)
                      (place_bad D dnan good dens))).
Qed.
Print Assumptions C12_kde_wrapper_places.

(* kde_type "none" is not wrapped: one constant per event / position, also
   at nan/inf positions; every other type goes through the wrapper *)
Theorem C12_kde_none_is_constant :
  forall (D : Type) (dnan : D) (K : Type)
         (core : K -> list fv -> list fv -> list fv -> list fv -> list D)
         (is_none : K -> bool) (done : D)
         (k : K) (ex ey : list fv) (pos : option (list fv * list fv)),
    (is_none k = true ->
     kde_method D dnan K core is_none done k ex ey pos
     = map (fun _ => done) (match pos with None => ex | Some (px, _) => px end))
    /\ (is_none k = false ->
        kde_method D dnan K core is_none done k ex ey pos
        = wrapped D dnan K core k ex ey pos).
Proof.
  exact (fun D dnan K core is_none done k ex ey pos =>
           conj (kde_method_none D dnan K core is_none done k ex ey pos)
                (kde_method_wrapped D dnan K core is_none done k ex ey pos)).
Qed.
Print Assumptions C12_kde_none_is_constant.

Theorem C12_kde_wrapper_noninterference :
  forall (D : Type) (dnan : D) (K : Type)
         (core : K -> list fv -> list fv -> list fv -> list fv -> list D)
         (k : K) (ex ey ex' ey' : list fv) (pos : option (list fv * list fv)),
    good2 ex ey = good2 ex' ey' ->
    (forall i : nat, nth i (good2 ex ey) false = true ->
                     nth_error ex i = nth_error ex' i) ->
    (forall i : nat, nth i (good2 ex ey) false = true ->
                     nth_error ey i = nth_error ey' i) ->
    wrapped D dnan K core k ex ey pos = wrapped D dnan K core k ex' ey' pos.
Proof. exact wrapped_noninterference. Qed.
Print Assumptions C12_kde_wrapper_noninterference.

(* ---- quantile level, downsampled scatter, tsv ----------------------------- *)

Theorem C12_quantile_noninterference :
  forall (interp : fv -> fv -> Z) (fall : list bool) (a b : Z)
         (xs xs' ys ys' : list fv),
    (forall i : nat, nth i fall false = true ->
                     nth_error xs i = nth_error xs' i) ->
    (forall i : nat, nth i fall false = true ->
                     nth_error ys i = nth_error ys' i) ->
    ds_quantile_level interp fall a b xs ys =
    ds_quantile_level interp fall a b xs' ys'.
Proof. exact quantile_noninterference. Qed.
Print Assumptions C12_quantile_noninterference.

Theorem C12_quantile_filtered_eq_restricted :
  forall (interp : fv -> fv -> Z) (fall : list bool) (a b : Z)
         (xs ys : list fv),
    length xs = length ys ->
    let rx := select fall xs in
    let ry := select fall ys in
    ds_quantile_level interp fall a b xs ys =
    ds_quantile_level interp (all_true rx) a b rx ry.
Proof. exact quantile_filtered_eq_restricted. Qed.
Print Assumptions C12_quantile_filtered_eq_restricted.

Theorem C12_downsampled_noninterference :
  forall (logf : fv -> fv)
         (dsgrid : list fv -> list fv -> Z -> bool -> list bool)
         (fall : list bool) (sx sy : scale) (n : Z) (rm : bool)
         (xs xs' ys ys' : list fv),
    (forall i : nat, nth i fall false = true ->
                     nth_error xs i = nth_error xs' i) ->
    (forall i : nat, nth i fall false = true ->
                     nth_error ys i = nth_error ys' i) ->
    downsampled logf dsgrid fall sx sy n rm xs ys =
    downsampled logf dsgrid fall sx sy n rm xs' ys'.
Proof. exact downsampled_noninterference. Qed.
Print Assumptions C12_downsampled_noninterference.

Theorem C12_downsampled_filtered_eq_restricted :
  forall (logf : fv -> fv)
         (dsgrid : list fv -> list fv -> Z -> bool -> list bool)
         (fall : list bool) (sx sy : scale) (n : Z) (rm : bool)
         (xs ys : list fv),
    length fall = length xs -> length xs = length ys ->
    let rx := select fall xs in
    let ry := select fall ys in
    fst (downsampled logf dsgrid fall sx sy n rm xs ys) =
    fst (downsampled logf dsgrid (all_true rx) sx sy n rm rx ry).
Proof. exact downsampled_filtered_eq_restricted. Qed.
Print Assumptions C12_downsampled_filtered_eq_restricted.

(* ret_mask=True: the mask identifies exactly the returned points in the
   full dataset (for a downsample_grid that returns one flag per event) *)
Theorem C12_downsampled_mask_identifies_points :
  forall (logf : fv -> fv)
         (dsgrid : list fv -> list fv -> Z -> bool -> list bool)
         (fall : list bool) (sx sy : scale) (n : Z) (rm : bool)
         (xs ys : list fv),
    length fall = length xs -> length xs = length ys ->
    (forall s, length (dsgrid (apply_scale logf sx (select fall xs))
                              (apply_scale logf sy (select fall ys)) s rm)
               = length (select fall xs)) ->
    let r := downsampled logf dsgrid fall sx sy n rm xs ys in
    select (snd r) xs = fst (fst r) /\ select (snd r) ys = snd (fst r) /\
    length (snd r) = length fall.
Proof. exact downsampled_mask_spec. Qed.
Print Assumptions C12_downsampled_mask_identifies_points.

Theorem C12_tsv_noninterference :
  forall (fall : list bool) (feats feats' : list (list fv)),
    Forall2 (fun f f' => forall i : nat, nth i fall false = true ->
                           nth_error f i = nth_error f' i) feats feats' ->
    tsv_columns true fall feats = tsv_columns true fall feats'.
Proof. exact tsv_noninterference. Qed.
Print Assumptions C12_tsv_noninterference.

Theorem C12_tsv_filtered_eq_restricted :
  forall (fall : list bool) (feats : list (list fv)),
    Forall (fun f => length f = length (hd [] feats)) feats ->
    tsv_columns true fall feats =
    tsv_columns true (all_true (select fall (hd [] feats)))
                (map (select fall) feats).
Proof. exact tsv_filtered_eq_restricted. Qed.
Print Assumptions C12_tsv_filtered_eq_restricted.

Theorem C12_tsv_is_selection :
  forall (fall : list bool) (feats : list (list fv)),
    tsv_columns true fall feats = map (select fall) feats /\
    tsv_columns false fall feats = feats.
Proof. exact tsv_filtered_is_selection. Qed.
Print Assumptions C12_tsv_is_selection.

(* ---- filtering disabled ---------------------------------------------------- *)

(* after apply_filter() with "enable filters" = False every entry point uses
   all events, whatever box/polygon/manual filters say *)
Theorem C12_disabled_uses_all :
  forall (D : Type) (dnan : D) (logf expf : fv -> fv) (K : Type)
         (core : K -> list fv -> list fv -> list fv -> list fv -> list D)
         (is_none : K -> bool) (done : D)
         (A : Type) (spacing : list fv -> A)
         (mesh : option A -> option A -> A -> A -> list fv -> list fv ->
                 option (list fv * list fv))
         (interp : fv -> fv -> Z)
         (dsgrid : list fv -> list fv -> Z -> bool -> list bool)
         (mask : list bool) (k : K) (sx sy : scale) (xacc yacc : option A)
         (a b n : Z) (rm : bool) (xs ys : list fv)
         (pos : option (list fv * list fv)),
    length xs = length ys ->
    let fall := filter_all false mask xs in
    kde_scatter D dnan logf K core is_none done fall k sx sy xs ys pos =
    match xs with
    | [] => []
    | _ :: _ =>
        kde_method D dnan K core is_none done k (apply_scale logf sx xs)
                (apply_scale logf sy ys)
                match pos with
                | Some (px, py) =>
                    Some (apply_scale logf sx px, apply_scale logf sy py)
                | None => None
                end
    end /\
    kde_contour D dnan logf expf K core is_none done A spacing mesh fall k sx sy xacc yacc
                xs ys =
    kde_contour D dnan logf expf K core is_none done A spacing mesh (all_true xs) k sx sy
                xacc yacc xs ys /\
    ds_quantile_level interp fall a b xs ys = quantile_level interp a b xs ys /\
    fst (downsampled logf dsgrid fall sx sy n rm xs ys) =
    (let idx := dsgrid (apply_scale logf sx xs) (apply_scale logf sy ys)
                       (Z.min n (zlen xs)) rm
     in (select idx xs, select idx ys)) /\
    tsv_columns true fall [xs; ys] = [xs; ys].
Proof. exact disabled_uses_all. Qed.
Print Assumptions C12_disabled_uses_all.

(* ---- kde_multivariate: the positions handed to the estimator --------------- *)

(* with the proposed fix (np.column_stack) the estimator is evaluated at
   exactly the points (x_j, y_j), for every number of positions *)
Theorem C12_multivariate_positions :
  forall xo yo : list Z, length xo = length yo ->
    mv_points xo yo = Some (point_rows xo yo).
Proof. exact mv_points_correct. Qed.
Print Assumptions C12_multivariate_positions.

(* the code before the fix (np.vstack, shape (2,N)): statsmodels'
   _adjust_shape does not transpose a 2x2 array - finding
   C12-multivariate-two-positions *)
Theorem C12_multivariate_positions_vstack_refuted :
  exists xo yo, length xo = length yo /\
                mv_points_vstack xo yo <> Some (point_rows xo yo).
Proof. exact mv_points_vstack_refuted. Qed.
Print Assumptions C12_multivariate_positions_vstack_refuted.

Theorem C12_multivariate_positions_vstack_partial :
  forall xo yo : list Z, length xo = length yo -> zlen xo <> 2 ->
    mv_points_vstack xo yo = Some (point_rows xo yo).
Proof. exact mv_points_vstack_partial. Qed.
Print Assumptions C12_multivariate_positions_vstack_partial.

(* ---- statistics method inventory (generated from the tree under test) ------ *)

(* the methods registered in Statistics.available_methods (name, req_feature,
   registration order) are exactly those the model and the harness cover *)
Theorem C12_statistics_method_inventory :
  list_eqb meth_eqb gen_stat_methods model_stat_methods = true.
Proof. exact stat_inventory_matches. Qed.
Print Assumptions C12_statistics_method_inventory.
