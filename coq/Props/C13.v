(* C13 - the integrity checker accepts dclab's own output and flags real
   inconsistencies.  Property theorems only; each is closed by [exact] of a
   lemma proved in Proofs/C13*.v and followed by Print Assumptions.
   [file], [violations], [rectify], [complete_input] are defined in
   Model/C13.v (written from check.py and writer.py with the fixes of
   fixes_proposed/C13-*.diff applied). *)
From Coq Require Import String ZArith List Bool Permutation.
From Verif Require Import Model.C13 Gen.CheckInventory Proofs.C13
  Proofs.C13_writer Proofs.C13_copy Proofs.C13_derive Proofs.C13_inventory.
Import ListNotations.
Open Scope Z_scope.

(* The violation-level check_* methods, the mandatory-key tables and the
   greater-zero keys of the tree under test are (as sets) those the model was
   written for; VALID_CHOICES is empty. *)
Theorem C13_inventory_matches : inventory_ok = true.
Proof. exact inventory_matches. Qed.
Print Assumptions C13_inventory_matches.

(* First sentence: whatever complete, consistent input (n > 0 events in every
   feature) the writer completes with rectify_metadata has no violation. *)
Theorem C13_writer_output_clean :
  forall (f : file) (n : Z) (g : file),
    complete_input f n = true -> rectify f = Some g ->
    violations g = Some [].
Proof. exact writer_output_clean. Qed.
Print Assumptions C13_writer_output_clean.

Theorem C13_writer_completes :
  forall (f : file) (n : Z),
    complete_input f n = true ->
    (f_feats f <> [] \/ f_traces f <> []) -> exists g, rectify f = Some g.
Proof. exact writer_completes. Qed.
Print Assumptions C13_writer_completes.




(* Exit status of dclab-verify-dataset (a = number of alerts, not modelled):
   0 exactly for "no violation, no alert"; 2 / 3 as soon as a violation is
   reported; 4 when the checker raises; a written file without alerts: 0. *)
Theorem C13_verify_exit_zero :
  forall (f : file) (a : Z), 0 <= a ->
    (verify_exit f a = 0 <-> violations f = Some [] /\ a = 0).
Proof. exact verify_exit_zero. Qed.
Print Assumptions C13_verify_exit_zero.

Theorem C13_verify_exit_violations :
  forall (f : file) (cs : list cue) (a : Z),
    0 <= a -> violations f = Some cs -> cs <> [] ->
    (a = 0 -> verify_exit f a = 2) /\ (0 < a -> verify_exit f a = 3).
Proof. exact verify_exit_violations. Qed.
Print Assumptions C13_verify_exit_violations.

Theorem C13_verify_exit_raises :
  forall (f : file) (a : Z), violations f = None -> verify_exit f a = 4.
Proof. exact verify_exit_raises. Qed.
Print Assumptions C13_verify_exit_raises.

Theorem C13_exit_status_range :
  forall (r : bool) (v a : Z), In (exit_status r v a) [0; 1; 2; 3; 4].
Proof. exact exit_status_range. Qed.
Print Assumptions C13_exit_status_range.

Theorem C13_writer_output_exit :
  forall (f : file) (n : Z) (g : file),
    complete_input f n = true -> rectify f = Some g -> verify_exit g 0 = 0.
Proof. exact writer_output_exit. Qed.
Print Assumptions C13_writer_output_exit.


(* First sentence, the other write paths.  ds.export.hdf5 (feature selection,
   filtered), dclab-split, dclab-join and dclab-condense produce
   [derive_model g keep keep_trace extra m]: a selection of the features of
   the written file g, all with m events, plus added scalar/index/ml_class
   features, the metadata of g, completed by the writer.  The result has no
   violation when every fl?_max feature is kept ([keeps_channels]); without
   that guard the statement is false (known finding
   C13-export-subset-channel-count). *)
Theorem C13_derived_output_clean_partial :
  forall (f : file) (n : Z) (g : file) (keep : list Z) (kt : bool)
         (extra : list feat) (m : Z) (h' : file),
    complete_input f n = true -> rectify f = Some g ->
    0 < m -> forallb (extra_ok m) extra = true ->
    keeps_channels keep g = true ->
    derive_model g keep kt extra m = Some h' -> violations h' = Some [].
Proof. exact derived_output_clean. Qed.
Print Assumptions C13_derived_output_clean_partial.

Theorem C13_derived_output_clean_refuted :
  exists (f : file) (n : Z) (g : file) (keep : list Z) (h' : file),
    complete_input f n = true /\ rectify f = Some g
    /\ violations g = Some []
    /\ keeps_channels keep g = false
    /\ derive_model g keep false [] n = Some h'
    /\ violations h' = Some [ChannelCount].
Proof. exact derived_output_clean_refuted. Qed.
Print Assumptions C13_derived_output_clean_refuted.

(* "a file and its compressed or repacked copy receive the same violations".
   dclab-repack is [copy_model] (known features are copied, data behind links
   are copied in), dclab-compress is [compress_model] = the writer's
   completion of that copy (both compared with the tools in harness/c13.py).
   (1) the repacked copy of ANY file loses exactly the external-link and the
   unknown-feature cues, all other cues are kept in place; *)
Theorem C13_repack_cues :
  forall (f : file) (n : Z),
  exists a b c : list cue,
    violations_n f n
    = (a ++ check_external_links f ++ b
         ++ check_features_unknown_hdf5 f ++ c)%list
    /\ violations_n (copy_model f) n = (a ++ b ++ c)%list.
Proof. exact copy_model_cues. Qed.
Print Assumptions C13_repack_cues.

(* (2) hence equal violations for every file without external data and
   unknown features, corrupted or not; *)
Theorem C13_repack_same_violations :
  forall f : file,
    f_extlink f = false -> (forall u, In u (f_unknown f) -> u = 0) ->
    violations (copy_model f) = violations f.
Proof. exact repack_same_violations. Qed.
Print Assumptions C13_repack_same_violations.

(* (3) compressing a file written by dclab changes nothing the checker looks
   at (the completion is idempotent), so both copies of a written file get
   its violations. *)
Theorem C13_compress_written_identity :
  forall (f : file) (n : Z) (g : file),
    complete_input f n = true -> rectify f = Some g ->
    compress_model g = Some g.
Proof. exact compress_written_identity. Qed.
Print Assumptions C13_compress_written_identity.

Theorem C13_written_copies_same_violations :
  forall (f : file) (n : Z) (g : file),
    complete_input f n = true -> rectify f = Some g ->
    violations (copy_model g) = violations g
    /\ exists g', compress_model g = Some g' /\ violations g' = violations g.
Proof. exact written_copies_same_violations. Qed.
Print Assumptions C13_written_copies_same_violations.

(* (4) for arbitrary files the sentence is false: a link or an unknown feature
   is not copied, and dclab-compress completes the metadata again (a wrong
   event count, ROI or sample count is repaired).  The harness checks that
   the copies are exactly the predicted ones. *)
Theorem C13_repack_same_violations_refuted :
  exists f : file, f_extlink f = true
                   /\ violations (copy_model f) <> violations f.
Proof. exact repack_same_violations_refuted. Qed.
Print Assumptions C13_repack_same_violations_refuted.

Theorem C13_compress_same_violations_refuted :
  exists f g : file,
    f_extlink f = false /\ f_unknown f = []
    /\ violations f = Some [FeatureSize 0; FeatureSize 1]
    /\ compress_model f = Some g /\ violations g = Some [].
Proof. exact compress_same_violations_refuted. Qed.
Print Assumptions C13_compress_same_violations_refuted.

Theorem C13_compress_same_violations_partial :
  forall f : file,
    f_extlink f = false -> (forall u, In u (f_unknown f) -> u = 0) ->
    compress_model f = Some (copy_model f) ->
    exists g, compress_model f = Some g /\ violations g = violations f.
Proof. exact compress_same_violations_partial. Qed.
Print Assumptions C13_compress_same_violations_partial.

(* ... and the cues do not depend on the storage order of the features. *)
Theorem C13_violations_order_independent :
  forall (f g : file) (n : Z),
    same_content f g -> f_evcount f = Some n -> 0 <= n ->
    exists cf cg, violations f = Some cf /\ violations g = Some cg
                  /\ Permutation cf cg.
Proof. exact violations_order_independent. Qed.
Print Assumptions C13_violations_order_independent.

(* Second sentence: each cue, for an arbitrary file [f] (nothing is assumed
   about the unrelated content) on which the checker terminates with the
   cue list [cs]. *)

(* len(ds) is the stored event count *)
Theorem C13_length_is_event_count :
  forall (f : file) (n : Z), f_evcount f = Some n -> 0 <= n ->
    lends f = Some n /\ violations f = Some (violations_n f n).
Proof. exact length_is_event_count. Qed.
Print Assumptions C13_length_is_event_count.

Theorem C13_len_mismatch_flagged :
  forall (f : file) (cs : list cue), violations f = Some cs ->
  forall (n : Z) (ft : feat),
    lends f = Some n -> In ft (f_feats f) -> flen (ft_data ft) <> n ->
    In (FeatureSize (ft_rank ft)) cs.
Proof. exact len_mismatch_flagged. Qed.
Print Assumptions C13_len_mismatch_flagged.

Theorem C13_trace_len_mismatch_flagged :
  forall (f : file) (cs : list cue), violations f = Some cs ->
  forall (n : Z) (t : Z * (Z * Z)),
    lends f = Some n -> In t (f_traces f) -> fst (snd t) <> n ->
    In (TraceSize (fst t)) cs.
Proof. exact trace_len_mismatch_flagged. Qed.
Print Assumptions C13_trace_len_mismatch_flagged.

Theorem C13_roi_x_mismatch_flagged :
  forall (f : file) (cs : list cue), violations f = Some cs ->
  forall (rx ry : Z) (ft : feat) (which l h w : Z),
    f_roi_x f = Some rx -> f_roi_y f = Some ry ->
    In ft (f_feats f) -> ft_data ft = Image which l h w ->
    In which [0; 1; 2] -> w <> rx ->
    In (RoiMismatch 1 which) cs.
Proof. exact roi_x_mismatch_flagged. Qed.
Print Assumptions C13_roi_x_mismatch_flagged.

Theorem C13_roi_y_mismatch_flagged :
  forall (f : file) (cs : list cue), violations f = Some cs ->
  forall (rx ry : Z) (ft : feat) (which l h w : Z),
    f_roi_x f = Some rx -> f_roi_y f = Some ry ->
    In ft (f_feats f) -> ft_data ft = Image which l h w ->
    In which [0; 1; 2] -> h <> ry ->
    In (RoiMismatch 0 which) cs.
Proof. exact roi_y_mismatch_flagged. Qed.
Print Assumptions C13_roi_y_mismatch_flagged.

Theorem C13_unknown_feature_flagged :
  forall (f : file) (cs : list cue), violations f = Some cs ->
  forall u : Z, In u (f_unknown f) -> u <> 0 -> In (FeatureUnknown u) cs.
Proof. exact unknown_feature_flagged. Qed.
Print Assumptions C13_unknown_feature_flagged.

Theorem C13_missing_key_flagged :
  forall (f : file) (cs : list cue), violations f = Some cs ->
  forall k : Z, 0 <= k < 17 -> key_present f k = false ->
    In (MissingKey k) cs
    \/ (sec_of k = s_imaging /\ In (MissingSection s_imaging) cs).
Proof. exact missing_key_flagged. Qed.
Print Assumptions C13_missing_key_flagged.

Theorem C13_index_not_enumerating_flagged :
  forall (f : file) (cs : list cue), violations f = Some cs ->
  forall (n : Z) (ft : feat) (v : list Z),
    lends f = Some n -> In ft (f_feats f) -> ft_data ft = Index v ->
    index_ok v n = false -> In IndexNotEnumerated cs.
Proof. exact index_not_enumerating_flagged. Qed.
Print Assumptions C13_index_not_enumerating_flagged.

(* index_ok v n says exactly "v = [1; 2; ...; n]" *)
Theorem C13_index_ok_spec :
  forall (v : list Z) (n : Z),
    index_ok v n = true <->
    Z.of_nat (length v) = Z.max 0 n
    /\ forall i, (i < length v)%nat -> nth i v 0 = 1 + Z.of_nat i.
Proof. exact index_ok_spec. Qed.
Print Assumptions C13_index_ok_spec.

(* Known finding C13-fl-checks-need-flmax: the fluorescence rules only run
   when an fl?_max feature is stored (guard has_fl). *)
Theorem C13_channel_count_flagged_partial :
  forall (f : file) (cs : list cue), violations f = Some cs ->
  forall c : Z,
    has_fl f = true -> f_chcount f = Some c -> c <> channels_found f ->
    In ChannelCount cs.
Proof. exact channel_count_flagged_partial. Qed.
Print Assumptions C13_channel_count_flagged_partial.

Theorem C13_laser_count_flagged_partial :
  forall (f : file) (cs : list cue), violations f = Some cs ->
  forall c : Z,
    has_fl f = true -> f_lasercount f = Some c -> c <> lasers_found f ->
    In LaserCount cs.
Proof. exact laser_count_flagged_partial. Qed.
Print Assumptions C13_laser_count_flagged_partial.

Theorem C13_samples_per_event_flagged_partial :
  forall (f : file) (cs : list cue), violations f = Some cs ->
  forall (s : Z) (t : Z * (Z * Z)),
    has_fl f = true -> f_spe f = Some s -> In t (f_traces f) ->
    fst (snd t) <> 0 -> snd (snd t) <> s ->
    In (SamplesPerEvent (fst t)) cs.
Proof. exact samples_per_event_flagged_partial. Qed.
Print Assumptions C13_samples_per_event_flagged_partial.

Theorem C13_missing_fl_key_flagged_partial :
  forall (f : file) (cs : list cue), violations f = Some cs ->
  forall k : Z,
    has_fl f = true -> 17 <= k < 27 -> key_present f k = false ->
    In (MissingKey k) cs.
Proof. exact missing_fl_key_flagged_partial. Qed.
Print Assumptions C13_missing_fl_key_flagged_partial.

Theorem C13_fl_counts_flagged_refuted :
  exists (f : file) (s c : Z) (t : Z * (Z * Z)),
    f_spe f = Some s /\ In t (f_traces f) /\ fst (snd t) <> 0
    /\ snd (snd t) <> s
    /\ f_chcount f = Some c /\ c <> channels_found f
    /\ f_lasercount f = Some c /\ c <> lasers_found f
    /\ violations f = Some [].
Proof. exact fl_counts_flagged_refuted. Qed.
Print Assumptions C13_fl_counts_flagged_refuted.

(* hdf5_has_external: external data (an external link whose target may be
   missing, a virtual dataset, external raw storage) at any depth of the file
   is found, and nothing else; [mk_file] sets f_extlink with it. *)
Theorem C13_has_external_spec :
  forall root : list h5obj,
    has_external root = true <->
    exists r o, In r root /\ inside o r /\ leaf_external o = true.
Proof. exact has_external_spec. Qed.
Print Assumptions C13_has_external_spec.

Theorem C13_external_data_flagged :
  forall (f : file) (cs : list cue) (root : list h5obj) (r o : h5obj),
    violations f = Some cs -> f_extlink f = has_external root ->
    In r root -> inside o r -> leaf_external o = true -> In ExternalLink cs.
Proof. exact external_data_flagged. Qed.
Print Assumptions C13_external_data_flagged.

(* The checker produces a cue list for every abstract file that stores a
   feature, and a missing or negative event count is then reported.  Guard of
   the abstraction (harness/c13.py:abstract): every member of /events is an
   HDF5 object of the kind of its feature (dataset, or group for trace and
   contour) and the groups of the file form a tree; for a scalar stored as a
   group, "trace" stored as a dataset, a group named mask, an empty contour
   group or a cycle of hard links the real checker raises (generated as
   "outside the model", see DESIGN). *)
Theorem C13_checker_total :
  forall f : file,
    (f_feats f <> [] \/ f_traces f <> []) -> exists cs, violations f = Some cs.
Proof. exact checker_total. Qed.
Print Assumptions C13_checker_total.

Theorem C13_missing_event_count_flagged :
  forall f : file,
    f_evcount f = None -> (f_feats f <> [] \/ f_traces f <> []) ->
    exists cs, violations f = Some cs /\ In (MissingKey k_event_count) cs.
Proof. exact missing_event_count_flagged. Qed.
Print Assumptions C13_missing_event_count_flagged.

Theorem C13_negative_event_count_flagged :
  forall (f : file) (cs : list cue), violations f = Some cs ->
  forall v : Z, f_evcount f = Some v -> v < 0 ->
    In (NonPositive k_event_count) cs.
Proof. exact negative_event_count_flagged. Qed.
Print Assumptions C13_negative_event_count_flagged.

Theorem C13_external_link_flagged :
  forall (f : file) (cs : list cue), violations f = Some cs ->
    f_extlink f = true -> In ExternalLink cs.
Proof. exact external_link_flagged. Qed.
Print Assumptions C13_external_link_flagged.

Theorem C13_non_positive_flagged :
  forall (f : file) (cs : list cue), violations f = Some cs ->
  forall k v : Z,
    In (k, Some v) (greater_zero_values f) -> v <= 0 -> In (NonPositive k) cs.
Proof. exact non_positive_flagged. Qed.
Print Assumptions C13_non_positive_flagged.

(* the remaining violation-level rules *)
Theorem C13_polygon_shape_flagged :
  forall (f : file) (cs : list cue), violations f = Some cs ->
  forall (j : nat) (rows cols : Z),
    nth_error (f_polys f) j = Some (rows, cols) -> cols <> 2 \/ rows < 3 ->
    In (PolygonShape (Z.of_nat j)) cs.
Proof. exact polygon_shape_flagged. Qed.
Print Assumptions C13_polygon_shape_flagged.

Theorem C13_temp_all_zero_flagged :
  forall (f : file) (cs : list cue), violations f = Some cs ->
  forall (ft : feat) (l : Z),
    f_zmd f = true -> In ft (f_feats f) -> ft_data ft = Temp l true ->
    In TempAllZero cs.
Proof. exact temp_all_zero_flagged. Qed.
Print Assumptions C13_temp_all_zero_flagged.

Theorem C13_ml_score_flagged :
  forall (f : file) (cs : list cue), violations f = Some cs ->
  forall (n : Z) (ft : feat) (l : Z),
    lends f = Some n -> mlclass_stored f = false ->
    In ft (f_feats f) -> ft_data ft = MlScore l true ->
    In MlClassError cs.
Proof. exact ml_score_flagged. Qed.
Print Assumptions C13_ml_score_flagged.

Theorem C13_basin_group_missing_flagged :
  forall (f : file) (cs : list cue), violations f = Some cs ->
  forall fs : list Z,
    In (true, fs) (f_basins f) -> f_basin_events f = None ->
    In BasinGroupMissing cs.
Proof. exact basin_group_missing_flagged. Qed.
Print Assumptions C13_basin_group_missing_flagged.

Theorem C13_basin_feature_missing_flagged :
  forall (f : file) (cs : list cue), violations f = Some cs ->
  forall (fs g : list Z) (x : Z),
    In (true, fs) (f_basins f) -> f_basin_events f = Some g ->
    In x fs -> ~ In x g -> In (BasinFeatMissing x) cs.
Proof. exact basin_feature_missing_flagged. Qed.
Print Assumptions C13_basin_feature_missing_flagged.
