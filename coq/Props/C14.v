(* C14 — basins are only followed when matching, acyclic and permitted.
   Property theorems only; each is closed by [exact] of a lemma proved in
   Proofs/C14.v and followed by Print Assumptions. *)
From Coq Require Import ZArith List Bool.
From Verif Require Import Model.C14 Proofs.C14.
Import ListNotations.
Open Scope Z_scope.

(* Termination on every reference graph: for every world of files (any
   number, any basin definitions, self references and cycles of any length,
   colliding keys), every root format, root file and initial ignore list,
   resolving everything that can be opened from the root finishes within
   fuel = (number of distinct basin keys) + 1. *)
Theorem C14_open_terminates :
  forall (w : world) (fm : fmt) (i : nat) (ign : list Z),
    build w (fuel_for w) fm i ign <> None.
Proof. exact open_terminates. Qed.
Print Assumptions C14_open_terminates.

(* The measure behind it: every basin that is followed strictly shrinks the
   set of basin keys that are not yet ignored. *)
Theorem C14_followed_edge_decreases :
  forall (w : world) (fm : fmt) (i : nat) (ign : list Z) (rb : rbasin),
    In rb (fst (retrieve w fm i ign)) ->
    (remaining w (rb_ign rb) < remaining w ign)%nat.
Proof. exact followed_edge_decreases. Qed.
Print Assumptions C14_followed_edge_decreases.

(* Nesting depth never exceeds the number of distinct keys + 1. *)
Theorem C14_open_depth_bounded :
  forall (w : world) (fm : fmt) (i : nat) (ign : list Z) (t : tree),
    build w (fuel_for w) fm i ign = Some t ->
    (depth t <= S (length (nodup Z.eq_dec (all_keys w))))%nat.
Proof. exact open_depth_bounded. Qed.
Print Assumptions C14_open_depth_bounded.

(* A dataset opened through a network format (anything but hdf5) opens no
   file by local path and instantiates no basin class that reads the local
   file system — directly or through nested basins, whatever "type" the
   definitions claim. *)
Theorem C14_no_local_from_remote :
  forall (w : world) (fuel : nat) (fm : fmt) (i : nat) (ign : list Z)
         (t : tree),
    build w fuel fm i ign = Some t ->
    local_allowed fm = false ->
    ttouched t = []
    /\ Forall (fun rb => class_type (rb_class rb) <> TFile) (tree_edges t).
Proof. exact no_local_from_remote. Qed.
Print Assumptions C14_no_local_from_remote.

(* ds[feat] only ever returns data stored in a file that is connected to
   the root by a chain of basins each of which exists and belongs to the
   same measurement as its referrer (identifier equal, or a prefix for
   mapped basins; no check when the referrer has no identifier). *)
Theorem C14_mismatch_not_served :
  forall (w : world) (fuel : nat) (fm : fmt) (i : nat) (ign : list Z)
         (t : tree) (feat s : Z),
    build w fuel fm i ign = Some t ->
    tget w t feat = Some s -> GoodSrc w t feat s.
Proof. exact served_only_matching. Qed.
Print Assumptions C14_mismatch_not_served.

(* features_basin only lists features of basins that are reachable
   (unreachable basins make their features unavailable), and for basins of
   type "file" only when they match, at every depth. *)
Theorem C14_unreachable_degrades :
  forall (w : world) (fuel : nat) (fm : fmt) (i : nat) (ign : list Z)
         (t : tree) (feat : Z),
    build w fuel fm i ign = Some t ->
    In feat (tfb w t) -> Listed w t feat.
Proof. exact unreachable_degrades. Qed.
Print Assumptions C14_unreachable_degrades.

(* "Features of a mismatching basin are not offered" at the level of
   features_basin / `feat in ds`: false of the code for basins that are
   appended without verification (finding C14-mismatch-listed-unverified) ... *)
Theorem C14_mismatch_not_listed_refuted :
  exists (w : world) (fm : fmt) (i : nat) (t : tree) (feat : Z),
    build w (fuel_for w) fm i [] = Some t
    /\ In feat (tfb w t) /\ tget w t feat = None
    /\ ~ Justified w t feat.
Proof. exact mismatch_not_listed_refuted. Qed.
Print Assumptions C14_mismatch_not_listed_refuted.

(* ... and true whenever no reachable unverified basin mismatches. *)
Theorem C14_mismatch_not_listed_partial :
  forall (w : world) (fuel : nat) (fm : fmt) (i : nat) (ign : list Z)
         (t : tree) (feat : Z),
    build w fuel fm i ign = Some t ->
    unverified_match w t = true ->
    In feat (tfb w t) -> Justified w t feat.
Proof. exact mismatch_not_listed_partial. Qed.
Print Assumptions C14_mismatch_not_listed_partial.

(* ds[feat] returns data only for features that `feat in ds` reports. *)
Theorem C14_served_is_contained :
  forall (w : world) (fuel : nat) (fm : fmt) (i : nat) (ign : list Z)
         (t : tree) (feat s : Z),
    build w fuel fm i ign = Some t ->
    tget w t feat = Some s -> tcontains w t feat = true.
Proof. exact served_is_contained. Qed.
Print Assumptions C14_served_is_contained.

(* The cycle cut: no basin whose key is ignored is instantiated at any
   depth, every instantiated basin passes all keys ignored so far plus its
   own key to the dataset behind it. *)
Theorem C14_ignored_never_followed :
  forall (w : world) (fuel : nat) (fm : fmt) (i : nat) (ign : list Z)
         (t : tree),
    build w fuel fm i ign = Some t ->
    Forall (fun rb => memz (b_key (rb_b rb)) ign = false
                      /\ (forall k, In k ign -> In k (rb_ign rb))
                      /\ In (b_key (rb_b rb)) (rb_ign rb))
           (tree_edges t).
Proof. exact ignored_never_followed. Qed.
Print Assumptions C14_ignored_never_followed.

(* The feature list of a basin definition restricts what the basin offers:
   every feature a dataset lists as basin feature, or serves from a basin,
   is attributable to one of its own available basins whose definition
   declares no list or declares this feature (at every nesting depth, since
   the dataset behind a basin is a built tree itself). *)
Theorem C14_offered_within_declared :
  forall (w : world) (fuel : nat) (fm : fmt) (i : nat) (ign : list Z)
         (t : tree) (feat : Z),
    build w fuel fm i ign = Some t ->
    offered w t feat ->
    exists rb, In rb (map fst (kids_list (tree_kids t)))
               /\ rb_avail rb = true
               /\ (forall fs, b_feats (rb_b rb) = Some fs -> In feat fs).
Proof. exact offered_within_declared. Qed.
Print Assumptions C14_offered_within_declared.

(* The property text has no exception for referrers without identifier:
   "same measurement" = both identifiers absent, or both present and equal /
   prefix ([StrictMatches]).  The code makes no check when the referrer has
   none (finding C14-idless-referrer-unchecked): refuted in general ... *)
Theorem C14_same_measurement_served_refuted :
  exists (w : world) (fm : fmt) (i : nat) (t : tree) (feat s : Z),
    build w (fuel_for w) fm i [] = Some t
    /\ tget w t feat = Some s /\ ~ StrictSrc w t feat s.
Proof. exact same_measurement_served_refuted. Qed.
Print Assumptions C14_same_measurement_served_refuted.

(* ... and true whenever no followed basin carries an identifier that its
   referrer lacks (boolean guard [referrers_identified]). *)
Theorem C14_same_measurement_served_partial :
  forall (w : world) (fuel : nat) (fm : fmt) (i : nat) (ign : list Z)
         (t : tree) (feat s : Z),
    build w fuel fm i ign = Some t ->
    referrers_identified w t = true ->
    tget w t feat = Some s -> StrictSrc w t feat s.
Proof. exact same_measurement_served_partial. Qed.
Print Assumptions C14_same_measurement_served_partial.

(* Positive directions: every feature of an available basin is listed ... *)
Theorem C14_available_basin_features_listed :
  forall (w : world) (t : tree) (rb : rbasin) (ot : option tree) (feat : Z),
    In (rb, ot) (kids_list (tree_kids t)) -> rb_avail rb = true ->
    In feat (match ot with
             | None => leaf_feats rb
             | Some t' => node_feats w rb t'
             end) ->
    In feat (tfb w t).
Proof. exact available_basin_features_listed. Qed.
Print Assumptions C14_available_basin_features_listed.

(* ... and a feature that a verified basin can deliver is delivered. *)
Theorem C14_matching_basin_served :
  forall (w : world) (t : tree) (rb : rbasin) (t' : tree) (feat s' : Z),
    In (rb, Some t') (kids_list (tree_kids t)) -> verify w rb = true ->
    In feat (node_feats w rb t') -> tget w t' feat = Some s' ->
    exists s, tget w t feat = Some s.
Proof. exact matching_basin_served. Qed.
Print Assumptions C14_matching_basin_served.

(* Isolation for every nested dataset, whatever the root format: below a
   dataset accessed through a network format nothing is opened locally. *)
Theorem C14_no_local_below_remote :
  forall (w : world) (fuel : nat) (fm : fmt) (i : nat) (ign : list Z)
         (t : tree),
    build w fuel fm i ign = Some t ->
    Forall (fun t' => local_allowed (tree_fmt t') = false ->
                      ttouched t' = []
                      /\ Forall (fun rb => class_type (rb_class rb) <> TFile)
                                (tree_edges t'))
           (subtrees t).
Proof. exact no_local_below_remote. Qed.
Print Assumptions C14_no_local_below_remote.

(* S2, reading: the lookup of a (mapping) feature among the basins of one
   dataset, with the re-entrancy guard of c5ad7bc, never exhausts fuel =
   number of basin objects + 1, whatever the basins need and deliver.  (What
   a loaded basin delivers comes from another, structurally smaller dataset
   of the tree: C14_open_terminates.)  Tie to the code: the oracle-only
   inputs with a missing / sibling-provided / self-referential mapping
   feature and their wall-clock limit; the lookup itself is not compared. *)
Theorem C14_mapping_lookup_terminates :
  forall (n : nat) (innate : Z -> bool) (needs : nat -> option Z)
         (gives : nat -> Z -> bool) (feat : Z),
    lookup n innate needs gives (S n) [] feat <> None.
Proof. exact lookup_terminates. Qed.
Print Assumptions C14_mapping_lookup_terminates.

(* Bridge to the tree under test (regenerated on every run): the values of
   `_local_basins_allowed` per dataset class, the basin_type / basin_format /
   loaded dataset class per basin class are the ones the model was written
   for; the real basins_retrieve, executed on stub definitions, instantiates
   exactly the (type, format) combinations the model's retrieve_one does,
   with and without permission for local basins, skips ignored keys and
   passes every definition's key down. *)
From Verif Require Import Gen.BasinFlags Proofs.C14_flags.

Theorem C14_flags_as_modelled :
  gen_local_allowed = model_local_allowed
  /\ gen_has_basin_dicts = model_has_basin_dicts
  /\ gen_basin_classes = model_basin_classes
  /\ gen_retrieve_matrix = model_retrieve_matrix
  /\ gen_cycle_guard = model_cycle_guard.
Proof. exact flags_as_modelled. Qed.
Print Assumptions C14_flags_as_modelled.

Theorem C14_model_flags_in_code :
  (forall fm, In (fmt_name fm, local_allowed fm) gen_local_allowed)
  /\ (forall c, In (class_name c, (type_name (class_type c), loads_name c))
                   gen_basin_classes).
Proof. exact model_flags_in_code. Qed.
Print Assumptions C14_model_flags_in_code.
