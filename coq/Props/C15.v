(* C15 — polygon filters classify points by exact even-odd containment.
   Property theorems only.  [gen_pip] / [gen_filter] are the loop of
   point_in_polygon / PolygonFilter.filter (Model/C15.v) instantiated with the
   crossing predicate translated from geometry.pyx on this run
   (Gen/PnpolyGen.v); the proofs go through Bridge/C15_bridge.v
   (gen_cross = model_cross).  Coordinates are exact rationals. *)
From Coq Require Import String.
From Coq Require Import ZArith QArith List Bool.
From Verif Require Import Model.C15 Proofs.C15 Proofs.C15_rays Proofs.C15_winding Proofs.C15_copy Proofs.C15_persist Proofs.C15_decimal Gen.PnpolyGen Bridge.C15_bridge.
Import ListNotations.
Open Scope Q_scope.

(* The predicate written in the .pyx (with its division) is the
   cross-multiplied predicate of the model, for all rational inputs. *)
Theorem C15_generated_predicate_is_model :
  forall vi vj p : pt,
    gen_cross (fst vi) (snd vi) (fst vj) (snd vj) (fst p) (snd p) = model_cross vi vj p.
Proof. exact gen_cross_is_model. Qed.
Print Assumptions C15_generated_predicate_is_model.

(* No vertex level with the point: the result is the parity of the number of
   edges properly crossed by the horizontal ray from the point towards +x. *)
Theorem C15_generic_agrees :
  forall (poly : list pt) (p : pt),
    (forall v, In v poly -> ~ snd v == snd p) ->
    gen_pip poly p = spec_inside poly p.
Proof. exact gen_generic_agrees. Qed.
Print Assumptions C15_generic_agrees.

(* Any point off the boundary (also level with vertices or horizontal edges):
   the half-open rule gives the crossing parity of every ray slightly above,
   and those rays are in general position. *)
Theorem C15_halfopen_is_perturbation :
  forall (poly : list pt) (p : pt),
    on_boundary poly p = false ->
    exists d, 0 < d /\ forall e, 0 < e -> e < d ->
      (forall v, In v poly -> ~ snd v == snd p + e)
      /\ gen_pip poly p = spec_inside poly (fst p, snd p + e).
Proof. exact gen_halfopen_is_perturbation. Qed.
Print Assumptions C15_halfopen_is_perturbation.

(* Independence of the starting vertex (every cyclic shift, every point). *)
Theorem C15_rotate_invariant :
  forall (l1 l2 : list pt) (p : pt), gen_pip (l1 ++ l2) p = gen_pip (l2 ++ l1) p.
Proof. exact gen_rotate_invariant. Qed.
Print Assumptions C15_rotate_invariant.

(* Independence of the orientation. *)
Theorem C15_reverse_invariant :
  forall (poly : list pt) (p : pt), gen_pip (rev poly) p = gen_pip poly p.
Proof. exact gen_reverse_invariant. Qed.
Print Assumptions C15_reverse_invariant.

(* A repeated closing vertex, and any vertex repeated in place. *)
Theorem C15_closing_vertex_invariant :
  forall (v0 : pt) (t : list pt) (p : pt),
    gen_pip ((v0 :: t) ++ [v0]) p = gen_pip (v0 :: t) p.
Proof. exact gen_closing_vertex_invariant. Qed.
Print Assumptions C15_closing_vertex_invariant.

Theorem C15_repeated_vertex_invariant :
  forall (l1 : list pt) (v : pt) (l2 : list pt) (p : pt),
    gen_pip (l1 ++ v :: v :: l2) p = gen_pip (l1 ++ v :: l2) p.
Proof. exact gen_repeated_vertex_invariant. Qed.
Print Assumptions C15_repeated_vertex_invariant.

(* PolygonFilter.filter with inverted=True is the pointwise complement (this one
   only unfolds the model of filter(); the statement with content is
   C15_filter_is_winding_parity below). *)
Theorem C15_invert_complement :
  forall (poly pts : list pt),
    gen_filter true poly pts = map negb (gen_filter false poly pts)
    /\ length (gen_filter true poly pts) = length pts
    /\ forall k p, nth_error pts k = Some p ->
         nth_error (gen_filter false poly pts) k = Some (gen_pip poly p)
         /\ nth_error (gen_filter true poly pts) k = Some (negb (gen_pip poly p)).
Proof. exact gen_invert_complement. Qed.
Print Assumptions C15_invert_complement.

(* PolygonFilter.copy(invert=True) classifies every point as the complement of
   its source, for every source filter (inverted or not), every registry state
   and all points; copy(invert=False) classifies like the source. *)
Theorem C15_copy_invert_complement :
  forall (f : pfilter Q) (r : registry) (pts : list pt),
    gen_apply (fst (pf_copy f true r)) pts = map negb (gen_apply f pts)
    /\ gen_apply (fst (pf_copy f false r)) pts = gen_apply f pts.
Proof. exact gen_copy_invert_complement. Qed.
Print Assumptions C15_copy_invert_complement.

(* Inverting twice restores classification, inversion flag, axes, name, points. *)
Theorem C15_copy_invert_involution :
  forall (f : pfilter Q) (r r' : registry) (pts : list pt),
    let g := fst (pf_copy (fst (pf_copy f true r)) true r') in
    gen_apply g pts = gen_apply f pts
    /\ f_inv Q g = f_inv Q f /\ f_ax Q g = f_ax Q f /\ f_ay Q g = f_ay Q f
    /\ f_name Q g = f_name Q f /\ f_pts Q g = f_pts Q f.
Proof. exact gen_copy_invert_involution. Qed.
Print Assumptions C15_copy_invert_involution.

(* The copy is registered under an identifier no instance has. *)
Theorem C15_copy_new_id :
  forall (F : Type) (f : pfilter F) (b : bool) (r : registry),
    (forall i, In i (fst r) -> (i < snd r)%Z) ->
    let '(g, r') := pf_copy f b r in
    ~ In (f_id F g) (fst r) /\ fst r' = fst r ++ [f_id F g]
    /\ (forall i, In i (fst r') -> (i < snd r')%Z).
Proof. exact @copy_new_id. Qed.
Print Assumptions C15_copy_new_id.

(* EVERY polygon (any number of vertices, self-intersecting, repeated vertices)
   and every point off its boundary: the result is the parity of the winding
   number of the polygon around the point, computed from the quadrants of the
   vertices seen from the point -- a quantity defined without any ray.  The
   quarter turns add up to full turns (mod 4 = 0). *)
Theorem C15_winding_parity :
  forall (poly : list pt) (p : pt),
    on_boundary poly p = false ->
    gen_pip poly p = winding_odd poly p /\ (winding4 poly p mod 4 = 0)%Z.
Proof. exact gen_winding_parity. Qed.
Print Assumptions C15_winding_parity.

(* The ray towards -x gives the same answer as the ray towards +x for every
   polygon and every point off the boundary; in general position (no vertex
   level with the point) the numbers of proper crossings of the two rays have
   the same parity. *)
Theorem C15_left_ray_agrees :
  forall (poly : list pt) (p : pt),
    on_boundary poly p = false ->
    gen_pip poly p = pip cross_left poly p
    /\ ((forall v, In v poly -> ~ snd v == snd p) ->
        gen_pip poly p = spec_inside poly p /\ spec_inside poly p = spec_inside_left poly p).
Proof. exact gen_left_ray. Qed.
Print Assumptions C15_left_ray_agrees.

(* PolygonFilter.filter with its inversion flag: the k-th result is the winding
   parity of the k-th point, complemented when the filter is inverted. *)
Theorem C15_filter_is_winding_parity :
  forall (inv : bool) (poly pts : list pt) (k : nat) (p : pt),
    nth_error pts k = Some p -> on_boundary poly p = false ->
    nth_error (gen_filter inv poly pts) k = Some (xorb inv (winding_odd poly p)).
Proof. exact gen_filter_winding. Qed.
Print Assumptions C15_filter_is_winding_parity.

(* .poly persistence (character-level model of save/save_all/_load/import_all,
   with the two proposed repairs: 17 significant digits, split at the first "=").
   For every number format whose printing round-trips and has the shape of a
   token, every list of filters with distinct non-negative identifiers not yet
   registered, lower-case axes, any number of points (also none) and names
   without line breaks or leading/trailing blanks: import_all (save_all fs) returns exactly
   fs (axes, inversion, name, identifier, coordinates, order) and registers
   their identifiers. *)
Theorem C15_roundtrip_partial :
  forall (F : Type) (fmtf : F -> str) (parsef : str -> option F)
         (fmt8 : Z -> str) (parse_int : str -> option Z),
    (forall v, parsef (fmtf v) = Some v) ->
    (forall v, token_ok (fmtf v) = true) ->
    (forall n, (0 <= n)%Z -> parse_int (fmt8 n) = Some n) ->
    (forall n, (0 <= n)%Z -> digits_ok (fmt8 n) = true) ->
    forall (fs : list (pfilter F)) (ids0 : list Z) (c0 : Z),
      Forall (fun f => wf_filter f = true) fs ->
      NoDup (map (f_id F) fs) ->
      (forall f, In f fs -> ~ In (f_id F f) ids0) ->
      exists c',
        import_all F parsef parse_int (save_all F fmtf fmt8 fs) (ids0, c0)
        = (LOk fs, (ids0 ++ map (f_id F) fs, c'))
        /\ (c0 <= c')%Z
        /\ ((forall i, In i ids0 -> (i < c0)%Z) ->
            forall i, In i (ids0 ++ map (f_id F) fs) -> (i < c')%Z).
Proof. exact roundtrip_partial. Qed.
Print Assumptions C15_roundtrip_partial.

(* "... and every classification": filter by filter, the reloaded filter
   classifies every list of points like the saved one and carries the same
   inversion flag, identifier, name and axes. *)
Theorem C15_roundtrip_classification :
  forall (fmtf : Q -> str) (parsef : str -> option Q) (fmt8 : Z -> str) (parse_int : str -> option Z),
    (forall v, parsef (fmtf v) = Some v) ->
    (forall v, token_ok (fmtf v) = true) ->
    (forall n, (0 <= n)%Z -> parse_int (fmt8 n) = Some n) ->
    (forall n, (0 <= n)%Z -> digits_ok (fmt8 n) = true) ->
    forall (fs : list (pfilter Q)) (ids0 : list Z) (c0 : Z),
      Forall (fun f => wf_filter f = true) fs ->
      NoDup (map (f_id Q) fs) ->
      (forall f, In f fs -> ~ In (f_id Q f) ids0) ->
      exists fs' r',
        import_all Q parsef parse_int (save_all Q fmtf fmt8 fs) (ids0, c0) = (LOk fs', r')
        /\ length fs' = length fs
        /\ forall k f f' pts, nth_error fs k = Some f -> nth_error fs' k = Some f' ->
             gen_apply f' pts = gen_apply f pts /\ f_inv Q f' = f_inv Q f
             /\ f_id Q f' = f_id Q f /\ f_name Q f' = f_name Q f
             /\ f_ax Q f' = f_ax Q f /\ f_ay Q f' = f_ay Q f.
Proof. exact gen_roundtrip_classification. Qed.
Print Assumptions C15_roundtrip_classification.

(* The same with the decimal formats of the executable model for identifiers
   and point numbers ('{:08d}' / int(): dec8 / parse_int_c, proved to satisfy the
   two integer hypotheses); only the coordinate format remains a premise. *)
Theorem C15_roundtrip_decimal :
  forall (F : Type) (fmtf : F -> str) (parsef : str -> option F),
    (forall v, parsef (fmtf v) = Some v) ->
    (forall v, token_ok (fmtf v) = true) ->
    forall (fs : list (pfilter F)) (ids0 : list Z) (c0 : Z),
      Forall (fun f => wf_filter f = true) fs ->
      NoDup (map (f_id F) fs) ->
      (forall f, In f fs -> ~ In (f_id F f) ids0) ->
      exists c',
        import_all F parsef parse_int_c (save_all F fmtf dec8 fs) (ids0, c0)
        = (LOk fs, (ids0 ++ map (f_id F) fs, c'))
        /\ (c0 <= c')%Z
        /\ ((forall i, In i ids0 -> (i < c0)%Z) ->
            forall i, In i (ids0 ++ map (f_id F) fs) -> (i < c')%Z).
Proof. exact roundtrip_decimal. Qed.
Print Assumptions C15_roundtrip_decimal.

(* import_all into ANY registry whose identifiers are below its counter (the
   invariant _set_unique_id maintains) - in particular into the session that
   still holds the saved instances, where identifiers clash: every filter comes
   back in order with its axes, name, inversion flag and points; the
   identifiers handed out are pairwise distinct and not in use.  No hypothesis
   on the identifiers of the saved filters. *)
Theorem C15_roundtrip_renumber :
  forall (F : Type) (fmtf : F -> str) (parsef : str -> option F)
         (fmt8 : Z -> str) (parse_int : str -> option Z),
    (forall v, parsef (fmtf v) = Some v) ->
    (forall v, token_ok (fmtf v) = true) ->
    (forall n, (0 <= n)%Z -> parse_int (fmt8 n) = Some n) ->
    (forall n, (0 <= n)%Z -> digits_ok (fmt8 n) = true) ->
    forall (fs : list (pfilter F)) (ids0 : list Z) (c0 : Z),
      Forall (fun f => wf_filter f = true) fs ->
      (forall i, In i ids0 -> (i < c0)%Z) ->
      exists fs' r',
        import_all F parsef parse_int (save_all F fmtf fmt8 fs) (ids0, c0) = (LOk fs', r')
        /\ Forall2 (same_but_id F) fs fs'
        /\ NoDup (map (f_id F) fs')
        /\ (forall g, In g fs' -> ~ In (f_id F g) ids0)
        /\ fst r' = ids0 ++ map (f_id F) fs'
        /\ (forall i, In i (fst r') -> (i < snd r')%Z) /\ (c0 <= snd r')%Z.
Proof. exact roundtrip_renumber. Qed.
Print Assumptions C15_roundtrip_renumber.

(* The registry after an import satisfies the hypothesis of C15_copy_new_id and of
   C15_roundtrip_renumber again: copy() of any imported filter gets an unused
   identifier, and importing the same file a second time returns all filters
   under further unused, distinct identifiers. *)
Theorem C15_import_then_copy_or_import :
  forall (F : Type) (fmtf : F -> str) (parsef : str -> option F)
         (fmt8 : Z -> str) (parse_int : str -> option Z),
    (forall v, parsef (fmtf v) = Some v) ->
    (forall v, token_ok (fmtf v) = true) ->
    (forall n, (0 <= n)%Z -> parse_int (fmt8 n) = Some n) ->
    (forall n, (0 <= n)%Z -> digits_ok (fmt8 n) = true) ->
    forall (fs : list (pfilter F)) (ids0 : list Z) (c0 : Z),
      Forall (fun f => wf_filter f = true) fs ->
      (forall i, In i ids0 -> (i < c0)%Z) ->
      exists fs' r',
        import_all F parsef parse_int (save_all F fmtf fmt8 fs) (ids0, c0) = (LOk fs', r')
        /\ Forall2 (same_but_id F) fs fs'
        /\ (forall g b, In g fs' ->
              let '(h, r2) := pf_copy g b r' in
              ~ In (f_id F h) (fst r') /\ fst r2 = fst r' ++ [f_id F h]
              /\ (forall i, In i (fst r2) -> (i < snd r2)%Z))
        /\ exists fs2 r2,
              import_all F parsef parse_int (save_all F fmtf fmt8 fs) r' = (LOk fs2, r2)
              /\ Forall2 (same_but_id F) fs fs2
              /\ NoDup (map (f_id F) fs2)
              /\ (forall g, In g fs2 -> ~ In (f_id F g) (fst r')).
Proof. exact import_then_copy_or_import. Qed.
Print Assumptions C15_import_then_copy_or_import.

(* The guard on names cannot be dropped (finding C15-name-blanks): a name with
   a leading blank is reloaded without it, a name with a line break makes
   import_all raise ValueError. *)
Theorem C15_roundtrip_refuted :
  (exists f : pfz, wf_filter f = false /\ name_ok (f_name Z f) = false
                   /\ import_c (save_c [f]) = LOk [mkpf Z 0 (zs "area_um") (zs "deform") (zs "a") false ex_tri]
                   /\ import_c (save_c [f]) <> LOk [f])
  /\ (exists f : pfz, name_ok (f_name Z f) = false /\ import_c (save_c [f]) = LValueError).
Proof. exact roundtrip_refuted. Qed.
Print Assumptions C15_roundtrip_refuted.
