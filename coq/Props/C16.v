(* C16 — downsampling returns a reproducible subset of the requested size.
   Property theorems only; each is closed by [exact] of a lemma proved in
   Proofs/C16.v and followed by Print Assumptions.

   Oracle: the numpy generator, [choice_st g n k] = positions drawn by
   np.random.choice(<n elements>, size=k, replace=False) in global state g.
   [choice_ok seed47 choice_st]: under the state seeded with 47 these are k
   distinct positions below n (checked on every recorded call by the
   harness). *)
From Coq Require Import ZArith List Bool.
From Coq Require Import QArith.
From Verif Require Import Model.C16 Proofs.C16 Gen.DownsampleGen Bridge.C16_bridge.
Import ListNotations.
Open Scope Z_scope.

(* downsample_grid, every array pair / request / mode outside the two known
   findings: the mask selects exactly the returned values (no duplication, no
   alteration), has the length of the input, the number of selected events is
   min(request, eligible) (request 0 = all eligible), eligible = valid events
   if remove_invalid else all events, the number of valid events among them
   is min(request, valid) in both modes (invalid events only fill up), and
   with remove_invalid only valid events are selected. Guards: no axis whose valid (>= 4) values are all equal
   when the grid step runs on four or more valid points (C16-grid-constant-axis) and request <= N when
   remove_invalid is False (C16-grid-pad-overrequest). *)
Theorem C16_grid_subset_count_partial :
  forall (rng : Type) (seed47 : rng) (choice_st : rng -> Z -> Z -> list Z * rng),
    choice_ok seed47 choice_st ->
    forall (g : rng) (a b : list fval) (samples : Z) (ri : bool),
      length a = length b -> 0 <= samples ->
      no_constant_axis a b samples = true ->
      (ri = false -> samples <= zlen a) ->
      exists keep g',
        downsample_grid rng seed47 choice_st g a b samples ri
        = (Ok (select keep a) (select keep b) keep, g') /\
        length keep = length a /\
        count_true keep = spec_count samples
                            (if ri then count_true (good_mask a b) else zlen a) /\
        count_true (map2 andb keep (good_mask a b))
        = spec_count samples (count_true (good_mask a b)) /\
        (ri = true -> subset_mask keep (good_mask a b) = true).
Proof. exact grid_count. Qed.
Print Assumptions C16_grid_subset_count_partial.

(* The unguarded statement is false: a request larger than the number of
   events with remove_invalid = False raises ValueError, for every oracle. *)
Theorem C16_grid_overrequest_refuted :
  exists a b samples,
    length a = length b /\ 0 <= samples /\ no_constant_axis a b samples = true /\
    forall (rng : Type) (seed47 : rng) choice_st g,
      fst (downsample_grid rng seed47 choice_st g a b samples false) = Err ErrValue.
Proof. exact grid_overrequest_refuted. Qed.
Print Assumptions C16_grid_overrequest_refuted.

(* ... and that is the behaviour for every such request, not only a witness *)
Theorem C16_grid_overrequest_always_raises :
  forall (rng : Type) (seed47 : rng) (choice_st : rng -> Z -> Z -> list Z * rng)
         (g : rng) (a b : list fval) (samples : Z),
    length a = length b -> zlen a < samples ->
    fst (downsample_grid rng seed47 choice_st g a b samples false) = Err ErrValue.
Proof. exact grid_overrequest_raises. Qed.
Print Assumptions C16_grid_overrequest_always_raises.

(* A constant axis makes the grid step raise IndexError (request within
   range, either mode). *)
Theorem C16_grid_constant_axis_refuted :
  exists a b samples ri,
    length a = length b /\ 0 <= samples <= zlen a /\
    forall (rng : Type) (seed47 : rng) choice_st g,
      fst (downsample_grid rng seed47 choice_st g a b samples ri) = Err ErrIndex.
Proof. exact grid_constant_axis_refuted. Qed.
Print Assumptions C16_grid_constant_axis_refuted.

(* downsample_rand, full statement (every array, request and mode): never an
   error, returned values = a[idx], count = min(request, eligible). *)
Theorem C16_rand_subset_count :
  forall (rng : Type) (seed47 : rng) (choice_st : rng -> Z -> Z -> list Z * rng),
    choice_ok seed47 choice_st ->
    forall (g : rng) (a : list fval) (samples : Z) (ri : bool),
      0 <= samples ->
      exists idx g',
        downsample_rand rng seed47 choice_st g a samples ri
        = (Ok (select idx a) [] idx, g') /\
        length idx = length a /\
        count_true idx = spec_count samples
                           (if ri then count_true (map negb (map is_bad a))
                            else zlen a) /\
        (ri = true -> subset_mask idx (map negb (map is_bad a)) = true).
Proof. exact rand_count. Qed.
Print Assumptions C16_rand_subset_count.

(* "limit events" (Filter.update step 4, with fix C16-cap-request), full
   statement, every limit including limits larger than the data and beyond
   2^32 (datasets with fewer than 2^32 events): the result is a subset of the
   combined filter with min(limit, filtered) events (all of them if the limit
   is 0 or negative). *)
Theorem C16_limit_events_subset_count :
  forall (rng : Type) (seed47 : rng) (choice_st : rng -> Z -> Z -> list Z * rng),
    choice_ok seed47 choice_st ->
    forall (g : rng) (arr_all : list bool) (limit : Z),
      zlen arr_all < 4294967296 ->
      exists m g',
        limit_events rng seed47 choice_st g arr_all limit = (inl m, g') /\
        subset_mask m arr_all = true /\
        count_true m = (if limit >? 0 then Z.min limit (count_true arr_all)
                        else count_true arr_all).
Proof. exact limit_count. Qed.
Print Assumptions C16_limit_events_subset_count.

(* Filter.update step 4: filter.all is the conjunction of the box, invalid,
   polygon and manual filters cut down to the event limit; all events when
   filters are disabled. *)
Theorem C16_filter_all_subset_count :
  forall (rng : Type) (seed47 : rng) (choice_st : rng -> Z -> Z -> list Z * rng),
    choice_ok seed47 choice_st ->
    forall (g : rng) (box invalid polygon manual : list bool) (enable : bool)
           (limit : Z),
      zlen box < 4294967296 ->
      let comb := map2 andb (map2 andb (map2 andb box invalid) polygon) manual in
      exists m g',
        filter_all rng seed47 choice_st g box invalid polygon manual enable limit
        = (inl m, g') /\
        (enable = false -> m = ones box) /\
        (enable = true ->
         subset_mask m comb = true /\
         count_true m = (if limit >? 0 then Z.min limit (count_true comb)
                         else count_true comb)).
Proof. exact filter_all_count. Qed.
Print Assumptions C16_filter_all_subset_count.

(* get_downsampled_scatter(ret_mask=True) with fix C16-cap-request, every
   request size >= 0 incl. sizes beyond the data and beyond 2^32, both modes,
   linear (scaled = the feature itself) or log scale per axis: the mask has
   len(ds) entries, lies inside filter.all, selects exactly the returned x and
   y values of the unscaled features, has min(request, eligible) entries;
   valid (after scaling) events come first, invalid ones only fill up; with
   remove_invalid none is returned. Remaining guard: C16-grid-constant-axis
   on the filtered, scaled data. *)
Theorem C16_scatter_mask_translation_partial :
  forall (rng : Type) (seed47 : rng) (choice_st : rng -> Z -> Z -> list Z * rng),
    choice_ok seed47 choice_st ->
    forall (g : rng) (xf yf xlf ylf : list fval) (xlog ylog : bool)
           (fall : list bool) (ds : Z) (ri : bool),
      length xf = length fall -> length yf = length fall ->
      length xlf = length fall -> length ylf = length fall ->
      zlen fall < 4294967296 -> 0 <= ds ->
      let xs := select fall (apply_scale xlog xf xlf) in
      let ys := select fall (apply_scale ylog yf ylf) in
      no_constant_axis xs ys (Z.min ds (count_true fall)) = true ->
      exists idx mask g',
        scatter_ds rng seed47 choice_st g xf yf xlf ylf xlog ylog fall ds ri
        = (Ok (select mask xf) (select mask yf) mask, g') /\
        mask = scatter fall idx (zeros fall) /\
        length mask = length fall /\
        subset_mask mask fall = true /\
        count_true mask =
          spec_count ds (if ri then count_true (good_mask xs ys)
                         else count_true fall) /\
        length idx = length xs /\
        count_true (map2 andb idx (good_mask xs ys))
        = spec_count ds (count_true (good_mask xs ys)) /\
        (ri = true -> subset_mask idx (good_mask xs ys) = true).
Proof. exact scatter_count. Qed.
Print Assumptions C16_scatter_mask_translation_partial.

(* Eligibility in terms of the features themselves: if the logarithm is
   nan/inf exactly for nan/inf/non-positive arguments (log_ok, checked by the
   harness on every scaled array), the valid events of the scatter theorem
   are the filtered events whose x and y are finite (linear axis) resp.
   finite and positive (log axis). *)
Theorem C16_scatter_eligible_events :
  forall (xf yf xlf ylf : list fval) (xlog ylog : bool) (fall : list bool),
    length xf = length yf -> length xlf = length xf -> length ylf = length yf ->
    log_ok xf xlf -> log_ok yf ylf ->
    good_mask (select fall (apply_scale xlog xf xlf))
              (select fall (apply_scale ylog yf ylf))
    = select fall (scaled_good xlog ylog xf yf).
Proof. exact scaled_good_mask. Qed.
Print Assumptions C16_scatter_eligible_events.

(* The request as the callers pass it: within 0 .. 2^32-1 the conversion
   np.uint32(samples) is the identity and the array theorems apply ... *)
Theorem C16_grid_request_partial :
  forall (rng : Type) (seed47 : rng) (choice_st : rng -> Z -> Z -> list Z * rng),
    choice_ok seed47 choice_st ->
    forall (g : rng) (np_scalar : bool) (a b : list fval) (samples : Z) (ri : bool),
      length a = length b -> 0 <= samples < 4294967296 ->
      no_constant_axis a b samples = true ->
      (ri = false -> samples <= zlen a) ->
      exists keep g',
        downsample_grid_req rng seed47 choice_st g np_scalar a b samples ri
        = (Ok (select keep a) (select keep b) keep, g') /\
        length keep = length a /\
        count_true keep = spec_count samples
                            (if ri then count_true (good_mask a b) else zlen a) /\
        count_true (map2 andb keep (good_mask a b))
        = spec_count samples (count_true (good_mask a b)) /\
        (ri = true -> subset_mask keep (good_mask a b) = true).
Proof. exact grid_req_count. Qed.
Print Assumptions C16_grid_request_partial.

Theorem C16_rand_request_partial :
  forall (rng : Type) (seed47 : rng) (choice_st : rng -> Z -> Z -> list Z * rng),
    choice_ok seed47 choice_st ->
    forall (g : rng) (np_scalar : bool) (a : list fval) (samples : Z) (ri : bool),
      0 <= samples < 4294967296 ->
      exists idx g',
        downsample_rand_req rng seed47 choice_st g np_scalar a samples ri
        = (Ok (select idx a) [] idx, g') /\
        length idx = length a /\
        count_true idx = spec_count samples
                           (if ri then count_true (map negb (map is_bad a))
                            else zlen a) /\
        (ri = true -> subset_mask idx (map negb (map is_bad a)) = true).
Proof. exact rand_req_count. Qed.
Print Assumptions C16_rand_request_partial.

(* ... beyond that the full statement is false (finding C16-request-uint32):
   a Python int raises OverflowError, *)
Theorem C16_request_overflow_refuted :
  exists a samples,
    0 <= samples /\
    (forall (rng : Type) (seed47 : rng) choice_st g ri,
       fst (downsample_rand_req rng seed47 choice_st g false a samples ri)
       = Err ErrOverflow) /\
    (forall (rng : Type) (seed47 : rng) choice_st g ri,
       fst (downsample_grid_req rng seed47 choice_st g false a a samples ri)
       = Err ErrOverflow).
Proof. exact request_overflow_refuted. Qed.
Print Assumptions C16_request_overflow_refuted.

(* a numpy integer wraps modulo 2^32: 3 of 5 events for a request of 2^32+3 *)
Theorem C16_request_wrap_refuted :
  exists a samples idx,
    0 <= samples /\ count_true idx <> spec_count samples (zlen a) /\
    fst (downsample_rand_req unit tt (fun _ n k => (arange (Z.to_nat k), tt)) tt
                             true a samples false)
    = Ok (select idx a) [] idx.
Proof. exact request_wrap_refuted. Qed.
Print Assumptions C16_request_wrap_refuted.

(* Reproducibility: the result does not depend on the state of the global
   generator at the time of the call (every draw is preceded by set_state of
   the seeded state); no hypothesis on the oracle is needed. *)
Theorem C16_grid_deterministic :
  forall (rng : Type) (seed47 : rng) (choice_st : rng -> Z -> Z -> list Z * rng)
         (g1 g2 : rng) (a b : list fval) (samples : Z) (ri : bool),
    fst (downsample_grid rng seed47 choice_st g1 a b samples ri)
    = fst (downsample_grid rng seed47 choice_st g2 a b samples ri).
Proof. exact grid_state_independent. Qed.
Print Assumptions C16_grid_deterministic.

Theorem C16_rand_deterministic :
  forall (rng : Type) (seed47 : rng) (choice_st : rng -> Z -> Z -> list Z * rng)
         (g1 g2 : rng) (a : list fval) (samples : Z) (ri : bool),
    fst (downsample_rand rng seed47 choice_st g1 a samples ri)
    = fst (downsample_rand rng seed47 choice_st g2 a samples ri).
Proof. exact rand_state_independent. Qed.
Print Assumptions C16_rand_deterministic.

Theorem C16_limit_events_deterministic :
  forall (rng : Type) (seed47 : rng) (choice_st : rng -> Z -> Z -> list Z * rng)
         (g1 g2 : rng) (arr_all : list bool) (limit : Z),
    fst (limit_events rng seed47 choice_st g1 arr_all limit)
    = fst (limit_events rng seed47 choice_st g2 arr_all limit).
Proof. exact limit_state_independent. Qed.
Print Assumptions C16_limit_events_deterministic.

Theorem C16_scatter_deterministic :
  forall (rng : Type) (seed47 : rng) (choice_st : rng -> Z -> Z -> list Z * rng)
         (g1 g2 : rng) (xf yf xlf ylf : list fval) (xlog ylog : bool)
         (fall : list bool) (ds : Z) (ri : bool),
    fst (scatter_ds rng seed47 choice_st g1 xf yf xlf ylf xlog ylog fall ds ri)
    = fst (scatter_ds rng seed47 choice_st g2 xf yf xlf ylf xlog ylog fall ds ri).
Proof. exact scatter_state_independent. Qed.
Print Assumptions C16_scatter_deterministic.

(* Signed integer input arrays at the array level (the dataset level converts
   to float64 first): as long as the range of the valid values fits the dtype
   (< 2^(w-1)) downsample_grid behaves exactly as for floats, so the theorems
   above apply ... *)
Theorem C16_grid_integer_input_partial :
  forall (rng : Type) (seed47 : rng) (choice_st : rng -> Z -> Z -> list Z * rng)
         (w : Z) (g : rng) (a b : list fval) (samples : Z) (ri : bool),
    0 < w ->
    ptp (map fin_val (select (good_mask a b) a)) < 2 ^ (w - 1) ->
    ptp (map fin_val (select (good_mask a b) b)) < 2 ^ (w - 1) ->
    downsample_grid_int rng seed47 choice_st w g a b samples ri
    = downsample_grid rng seed47 choice_st g a b samples ri.
Proof. exact grid_int_no_wrap. Qed.
Print Assumptions C16_grid_integer_input_partial.

(* ... beyond that norm() wraps and the grid step raises IndexError (finding
   C16-grid-integer-wrap): int16 values -20000 and 20000 *)
Theorem C16_grid_integer_wrap_refuted :
  exists a b samples ri,
    length a = length b /\ 0 <= samples <= zlen a /\
    Forall (fun v => - 32768 <= fin_val v < 32768) a /\
    no_constant_axis a b samples = true /\
    forall (rng : Type) (seed47 : rng) choice_st g,
      fst (downsample_grid_int rng seed47 choice_st 16 g a b samples ri)
      = Err ErrIndex.
Proof. exact grid_int_wrap_refuted. Qed.
Print Assumptions C16_grid_integer_wrap_refuted.

(* The selection is a function of the values only, up to a positive unit per
   array (no dependence on array identity or on the representation scale):
   scaling a and b by positive constants leaves the mask (or the error)
   unchanged. Not a clause of the property text: it justifies the per-array
   exponent of the harness encoding. Exact arithmetic; on binary64 it holds
   for power-of-two factors, which the harness checks on the real code
   (every grid case is re-run on a * 2^k, b * 2^m); rounding is not modelled --
   on the real code float32 and float64 copies of the same values CAN select
   differently (corpus/C16/15-*.json, reported). *)
Theorem C16_selection_depends_on_values_only :
  forall (rng : Type) (seed47 : rng) (choice_st : rng -> Z -> Z -> list Z * rng)
         (g : rng) (ca cb : Z) (a b : list fval) (samples : Z) (ri : bool),
    0 < ca -> 0 < cb ->
    mask_of (fst (downsample_grid rng seed47 choice_st g
                    (map (scale_fval ca) a) (map (scale_fval cb) b) samples ri))
    = mask_of (fst (downsample_grid rng seed47 choice_st g a b samples ri)).
Proof. exact grid_scale_invariant. Qed.
Print Assumptions C16_selection_depends_on_values_only.

(* ---- source-level tie: Gen/DownsampleGen.v is translated from the text of
   dclab/downsampling.pyx on every run ------------------------------------- *)

(* norm(ad) * (grid_size - 1) cast to uint32, over exact rationals, is the
   model's cell index *)
Theorem C16_source_cell_index :
  forall z mn mx : Z, 0 < mx - mn ->
    gen_cell z mn mx = ((z - mn) * 299) / (mx - mn).
Proof. exact gen_cell_is_model. Qed.
Print Assumptions C16_source_cell_index.

(* keyword defaults of the .pyx signatures *)
Theorem C16_source_defaults :
  gen_grid_defaults = (false, false) /\ gen_rand_defaults = (false, false).
Proof. exact gen_defaults_are_false. Qed.
Print Assumptions C16_source_defaults.

(* downsample_grid assembled from the translated guard, diff, remove / add /
   pad conditions and amounts equals the model *)
Theorem C16_source_grid_is_model :
  forall (rng : Type) (seed47 : rng) (choice_st : rng -> Z -> Z -> list Z * rng)
         (g : rng) (a b : list fval) (samples : Z) (ri : bool),
    gen_downsample_grid rng seed47 choice_st g a b samples ri
    = downsample_grid rng seed47 choice_st g a b samples ri.
Proof. exact gen_downsample_grid_is_model. Qed.
Print Assumptions C16_source_grid_is_model.

Theorem C16_source_rand_is_model :
  forall (rng : Type) (seed47 : rng) (choice_st : rng -> Z -> Z -> list Z * rng)
         (g : rng) (a : list fval) (samples : Z) (ri : bool),
    gen_downsample_rand rng seed47 choice_st g a samples ri
    = downsample_rand rng seed47 choice_st g a samples ri.
Proof. exact gen_downsample_rand_is_model. Qed.
Print Assumptions C16_source_rand_is_model.

(* the main theorem restated for the function assembled from the source *)
Theorem C16_source_grid_subset_count_partial :
  forall (rng : Type) (seed47 : rng) (choice_st : rng -> Z -> Z -> list Z * rng),
    choice_ok seed47 choice_st ->
    forall (g : rng) (a b : list fval) (samples : Z) (ri : bool),
      length a = length b -> 0 <= samples ->
      no_constant_axis a b samples = true ->
      (ri = false -> samples <= zlen a) ->
      exists keep g',
        gen_downsample_grid rng seed47 choice_st g a b samples ri
        = (Ok (select keep a) (select keep b) keep, g') /\
        length keep = length a /\
        count_true keep = spec_count samples
                            (if ri then count_true (good_mask a b) else zlen a) /\
        count_true (map2 andb keep (good_mask a b))
        = spec_count samples (count_true (good_mask a b)) /\
        (ri = true -> subset_mask keep (good_mask a b) = true).
Proof. exact gen_grid_count. Qed.
Print Assumptions C16_source_grid_subset_count_partial.
