(* C17 -- cached computations are indistinguishable from fresh ones.
   Property theorems only; each is closed by [exact] of a lemma proved in
   Proofs/C17_*.v and followed by Print Assumptions. *)
From Coq Require Import ZArith List Bool.
From Verif Require Import Model.C17 Proofs.C17_key Proofs.C17_memo Proofs.C17_other
  Proofs.C17_obj2bytes.
Import ListNotations.
Open Scope Z_scope.

(* --- the key of dclab.cached.Cache ------------------------------------- *)

(* The bytes the repaired code feeds to md5 determine the call completely:
   function identity, every positional and keyword argument with dtype, shape
   and data (or type and str() for non-arrays), and the argument boundaries. *)
Theorem C17_key_encoding_injective :
  forall c c' : sig,
    wf_sig c = true -> wf_sig c' = true -> key_new c = key_new c' -> c = c'.
Proof. exact key_new_inj. Qed.
Print Assumptions C17_key_encoding_injective.

(* The unrepaired key (plain concatenation of raw array bytes / str()) is not
   injective: argument boundaries, dtype/shape, list vs scalar. *)
Theorem C17_key_old_injective_refuted :
  exists c c', wf_sig c = true /\ wf_sig c' = true /\ c <> c' /\ key_old c = key_old c'.
Proof. exact key_old_not_injective. Qed.
Print Assumptions C17_key_old_injective_refuted.

Theorem C17_key_old_dtype_collision :
  wf_sig w_dtype_1 = true /\ wf_sig w_dtype_2 = true /\ w_dtype_1 <> w_dtype_2
  /\ key_old w_dtype_1 = key_old w_dtype_2.
Proof. exact key_old_collides_dtype. Qed.
Print Assumptions C17_key_old_dtype_collision.

Theorem C17_key_old_list_collision :
  wf_sig w_list_1 = true /\ wf_sig w_list_2 = true /\ w_list_1 <> w_list_2
  /\ key_old w_list_1 = key_old w_list_2.
Proof. exact key_old_collides_list. Qed.
Print Assumptions C17_key_old_list_collision.

(* --- the memo table ------------------------------------------------------ *)

(* Any key function that is injective on the calls that occur: for every
   history of calls (any interleaving of functions, any length, across FIFO
   eviction), in-place modifications of returned objects, Cache.clear_cache()
   and changes of cached.MAX_SIZE, each call returns the value (or raises the
   exception) of a fresh computation. *)
Theorem C17_memo_history_fresh :
  forall (A K V E : Type) (key : A -> K) (keqb : K -> K -> bool) (F : A -> V + E),
    (forall x y : K, keqb x y = true <-> x = y) ->
    forall Dom : A -> Prop,
      (forall a b : A, Dom a -> Dom b -> key a = key b -> a = b) ->
      forall (cap : Z) (ops : list (mop A V)),
        Forall (op_dom A V Dom) ops ->
        map (obs V E) (snd (mrun A K V E key keqb F true (m_init K V cap) ops))
        = map (fun o => Some (spec_op A V E F o)) ops.
Proof. exact history_fresh. Qed.
Print Assumptions C17_memo_history_fresh.

(* The memoised dclab functions: key = md5 of the repaired encoding; md5 is
   an oracle assumed collision-free on the byte strings fed to it. The fresh
   result F is a function of the call signature [sig]: arrays by dtype, shape
   and C-order bytes, masked arrays by data and mask, lists / tuples / dicts by
   their items, everything else by type name and str(). *)
Theorem C17_cache_history_fresh :
  forall (D V E : Type) (md5 : bytes -> D) (deqb : D -> D -> bool),
    (forall x y : D, deqb x y = true <-> x = y) ->
    (forall c c' : sig, wf_sig c = true -> wf_sig c' = true ->
                        md5 (key_new c) = md5 (key_new c') -> key_new c = key_new c') ->
    forall (F : sig -> V + E) (cap : Z) (ops : list (mop sig V)),
      Forall (sig_dom V) ops ->
      map (obs V E)
          (snd (mrun sig D V E (fun c => md5 (key_new c)) deqb F true (m_init D V cap) ops))
      = map (fun o => Some (spec_op sig V E F o)) ops.
Proof. exact cache_history_fresh. Qed.
Print Assumptions C17_cache_history_fresh.

(* Sentence 2 of the property for the memoised functions: the results of the
   calls of a history are those of the same history without the in-place
   modifications of earlier results. *)
Theorem C17_cache_calls_independent_of_modifications :
  forall (D V E : Type) (md5 : bytes -> D) (deqb : D -> D -> bool),
    (forall x y : D, deqb x y = true <-> x = y) ->
    (forall c c' : sig, wf_sig c = true -> wf_sig c' = true ->
                        md5 (key_new c) = md5 (key_new c') -> key_new c = key_new c') ->
    forall (F : sig -> V + E) (cap : Z) (ops : list (mop sig V)),
      Forall (sig_dom V) ops ->
      call_obs V ops (map (obs V E)
        (snd (mrun sig D V E (fun c => md5 (key_new c)) deqb F true (m_init D V cap) ops)))
      = call_obs V (drop_muts V ops) (map (obs V E)
          (snd (mrun sig D V E (fun c => md5 (key_new c)) deqb F true (m_init D V cap)
                     (drop_muts V ops)))).
Proof. exact cache_calls_independent_of_modifications. Qed.
Print Assumptions C17_cache_calls_independent_of_modifications.

(* The table never holds more entries than the largest MAX_SIZE in force
   during the history (B), and _keys / _cache stay in step. It can exceed the
   current MAX_SIZE after the value was lowered (one eviction per miss). *)
Theorem C17_cache_bounded :
  forall (D V E : Type) (md5 : bytes -> D) (deqb : D -> D -> bool) (F : sig -> V + E)
         (cpy : bool) (cap B : Z) (ops : list (mop sig V)),
    0 <= B -> cap <= B -> caps_le sig V B ops ->
    Z.of_nat (length (m_keys (fst (mrun sig D V E (fun c => md5 (key_new c)) deqb F cpy
                                        (m_init D V cap) ops)))) <= B.
Proof. exact cache_bounded. Qed.
Print Assumptions C17_cache_bounded.

Theorem C17_cache_bounded_by_current_cap_refuted :
  exists ops : list (mop Z Z),
    let s := fst (mrun Z Z Z Z (fun a => a) Z.eqb (fun a => inl a) true (m_init Z Z 3) ops) in
    m_cap s < Z.of_nat (length (m_keys s)).
Proof. exact bounded_by_current_cap_refuted. Qed.
Print Assumptions C17_cache_bounded_by_current_cap_refuted.

Theorem C17_cache_keys_aligned :
  forall (A K V E : Type) (key : A -> K) (keqb : K -> K -> bool) (F : A -> V + E),
    (forall x y : K, keqb x y = true <-> x = y) ->
    forall Dom : A -> Prop,
      (forall a b : A, Dom a -> Dom b -> key a = key b -> a = b) ->
      forall (cap : Z) (ops : list (mop A V)),
        Forall (op_dom A V Dom) ops ->
        map fst (m_cache (fst (mrun A K V E key keqb F true (m_init K V cap) ops)))
        = m_keys (fst (mrun A K V E key keqb F true (m_init K V cap) ops)).
Proof. exact cache_keys_aligned. Qed.
Print Assumptions C17_cache_keys_aligned.

(* Both provisos are necessary. These two statements are about the code before
   eb0f8b1 (cached object handed out; plain concatenation as key): they
   document the repaired defects and are tied to nothing in /repo. *)
Theorem C17_cache_alias_refuted :
  exists ops : list (mop Z Z),
    map (obs Z Z) (snd (mrun Z Z Z Z (fun a => a) Z.eqb (fun a => inl (10 * a)) false
                             (m_init Z Z 100) ops))
    <> map (fun o => Some (spec_op Z Z Z (fun a => inl (10 * a)) o)) ops.
Proof. exact alias_refuted. Qed.
Print Assumptions C17_cache_alias_refuted.

Theorem C17_cache_key_old_refuted :
  exists ops : list (mop sig Z),
    Forall (sig_dom Z) ops /\
    map (obs Z Z) (snd (mrun sig bytes Z Z key_old beqb F_len true (m_init bytes Z 100) ops))
    <> map (fun o => Some (spec_op sig Z Z F_len o)) ops.
Proof. exact key_old_refuted. Qed.
Print Assumptions C17_cache_key_old_refuted.

(* --- util.hashfile (file_monitoring_lru_cache) ----------------------------- *)

(* For every history of file writes, deletions and hash requests (any
   arguments), the cached hash equals the hash of the current content, under
   the design hypothesis that a file never shows the same (mtime_ns, size)
   with two different contents. *)
Theorem C17_hashfile_fresh :
  forall (C ARGS HV E : Type) (aeqb : ARGS -> ARGS -> bool) (size_of : C -> Z)
         (fresh : C -> ARGS -> HV + E) (maxsize : Z),
    (forall x y : ARGS, aeqb x y = true <-> x = y) ->
    forall ops : list (fop C ARGS),
      stats_ok C ARGS size_of [] ops ->
      map (fobs HV E)
          (snd (frun C ARGS HV E aeqb size_of fresh maxsize {| f_fs := []; f_lru := [] |} ops))
      = fspec C ARGS HV E fresh [] ops.
Proof. exact hashfile_fresh. Qed.
Print Assumptions C17_hashfile_fresh.

(* In particular for every history in which each write gets a later mtime
   than all writes before it. *)
Theorem C17_hashfile_fresh_monotone_clock :
  forall (C ARGS HV E : Type) (aeqb : ARGS -> ARGS -> bool) (size_of : C -> Z)
         (fresh : C -> ARGS -> HV + E) (maxsize : Z),
    (forall x y : ARGS, aeqb x y = true <-> x = y) ->
    forall (ops : list (fop C ARGS)) (t0 : Z),
      mono C ARGS t0 ops ->
      map (fobs HV E)
          (snd (frun C ARGS HV E aeqb size_of fresh maxsize {| f_fs := []; f_lru := [] |} ops))
      = fspec C ARGS HV E fresh [] ops.
Proof. exact hashfile_fresh_monotone_clock. Qed.
Print Assumptions C17_hashfile_fresh_monotone_clock.

Theorem C17_hashfile_cache_bounded :
  forall (C ARGS HV E : Type) (aeqb : ARGS -> ARGS -> bool) (size_of : C -> Z)
         (fresh : C -> ARGS -> HV + E) (maxsize : Z),
    (forall x y : ARGS, aeqb x y = true <-> x = y) ->
    forall (ops : list (fop C ARGS)) (s : fstate C ARGS HV),
    0 <= maxsize -> Z.of_nat (length (f_lru s)) <= maxsize ->
    Z.of_nat (length (f_lru (fst (frun C ARGS HV E aeqb size_of fresh maxsize s ops)))) <= maxsize.
Proof. exact hashfile_bounded. Qed.
Print Assumptions C17_hashfile_cache_bounded.

Theorem C17_hashfile_same_stat_refuted :
  exists ops : list (fop (Z * Z) Z),
    map (fobs Z Z) (snd (frun (Z * Z) Z Z Z Z.eqb snd hf_fresh 100
                              {| f_fs := []; f_lru := [] |} ops))
    <> fspec (Z * Z) Z Z Z hf_fresh [] ops.
Proof. exact hashfile_stale_refuted. Qed.
Print Assumptions C17_hashfile_same_stat_refuted.

(* --- LazyContourList -------------------------------------------------------- *)

Theorem C17_lazycontour_history_fresh :
  forall (CV E : Type) (contour_of : Z -> CV + E) (maxlen : option Z) (ops : list (lop CV)),
    map (lobs CV E) (snd (lrun CV E contour_of maxlen true (l_init CV) ops))
    = map (fun o => Some (lspec CV E contour_of o)) ops.
Proof. exact lcl_history_fresh. Qed.
Print Assumptions C17_lazycontour_history_fresh.

Theorem C17_lazycontour_aligned :
  forall (CV E : Type) (contour_of : Z -> CV + E) (maxlen : option Z) (ops : list (lop CV)),
    length (l_indices (fst (lrun CV E contour_of maxlen true (l_init CV) ops)))
    = length (l_contours (fst (lrun CV E contour_of maxlen true (l_init CV) ops))).
Proof. exact lcl_aligned. Qed.
Print Assumptions C17_lazycontour_aligned.

Theorem C17_lazycontour_bounded :
  forall (CV E : Type) (contour_of : Z -> CV + E) (m : Z) (ro : bool) (ops : list (lop CV))
         (s : lstate CV),
    0 <= m -> Z.of_nat (length (l_indices s)) <= m ->
    Z.of_nat (length (l_indices (fst (lrun CV E contour_of (Some m) ro s ops)))) <= m.
Proof. exact lcl_bounded. Qed.
Print Assumptions C17_lazycontour_bounded.

Theorem C17_lazycontour_alias_refuted :
  exists ops : list (lop Z),
    map (lobs Z Z) (snd (lrun Z Z (fun i => inl (10 * i)) (Some 1000) false (l_init Z) ops))
    <> map (fun o => Some (lspec Z Z (fun i => inl (10 * i)) o)) ops.
Proof. exact lcl_alias_refuted. Qed.
Print Assumptions C17_lazycontour_alias_refuted.

(* --- per-object array caches (H5ScalarEvent, ChildScalar, BasinProxyFeature) -- *)

(* Whatever sequence of reads (whole array, slices, single items, fancy
   indexing, copies, conversions to another dtype -- also as the very first
   access) and in-place modifications of the returned arrays: every read
   returns what the request denotes on the stored data, in the requested
   dtype. *)
Theorem C17_object_cache_history_fresh :
  forall (data : list Z) (nat_dt : Z) (reuse : bool) (ops : list oop),
    map oobs (snd (orun data true nat_dt reuse o_init ops)) = map (ospec data nat_dt) ops.
Proof. exact obj_history_fresh. Qed.
Print Assumptions C17_object_cache_history_fresh.

(* Sentence 2 of the property for cached feature arrays: what the reads of a
   history return is what they return in the same history without the in-place
   modifications of arrays handed out before. *)
Theorem C17_object_reads_independent_of_modifications :
  forall (data : list Z) (nat_dt : Z) (reuse : bool) (ops : list oop),
    read_obs ops (map oobs (snd (orun data true nat_dt reuse o_init ops)))
    = read_obs (drop_omuts ops)
               (map oobs (snd (orun data true nat_dt reuse o_init (drop_omuts ops)))).
Proof. exact obj_reads_independent_of_modifications. Qed.
Print Assumptions C17_object_reads_independent_of_modifications.

Theorem C17_object_cache_alias_refuted :
  exists data ops, map oobs (snd (orun data false 3 true o_init ops)) <> map (ospec data 3) ops.
Proof. exact obj_alias_refuted. Qed.
Print Assumptions C17_object_cache_alias_refuted.

(* --- util.obj2bytes / hashobj and what is keyed on it ------------------------ *)

(* obj2bytes joins sequences without boundaries, drops dtype and shape of
   arrays and maps None to "none": not injective in general ... *)
Theorem C17_obj2bytes_injective_refuted :
  exists o o', o <> o' /\ obj2bytes o = obj2bytes o'.
Proof. exact obj2bytes_not_injective. Qed.
Print Assumptions C17_obj2bytes_injective_refuted.

Theorem C17_obj2bytes_dtype_collision :
  PArr f8 [40; 49; 44; 41] [0; 0; 0; 0; 0; 0; 240; 63]
  <> PArr [60; 105; 56] [40; 49; 44; 41] [0; 0; 0; 0; 0; 0; 240; 63]
  /\ obj2bytes (PArr f8 [40; 49; 44; 41] [0; 0; 0; 0; 0; 0; 240; 63])
     = obj2bytes (PArr [60; 105; 56] [40; 49; 44; 41] [0; 0; 0; 0; 0; 0; 240; 63]).
Proof. exact obj2bytes_dtype_collision. Qed.
Print Assumptions C17_obj2bytes_dtype_collision.

(* ... but injective on values of one layout (same nesting, kinds, dtypes,
   shapes and byte lengths of the leaves): the shapes dclab feeds it for
   ancillary-feature, hierarchy-parent and polygon-filter hashes. *)
Theorem C17_obj2bytes_injective_partial :
  forall o o' : pobj, layout o = layout o' -> obj2bytes o = obj2bytes o' -> o = o'.
Proof. exact obj2bytes_inj_same_layout. Qed.
Print Assumptions C17_obj2bytes_injective_partial.

(* RTDCBase._ancillaries (one (hash, data) entry per feature = the memo table
   at capacity 1): for every history of requests whose hashed items keep one
   layout, the cached feature equals a fresh computation. *)
Theorem C17_ancillary_history_fresh :
  forall (D V E : Type) (md5 : bytes -> D) (deqb : D -> D -> bool),
    (forall x y : D, deqb x y = true <-> x = y) ->
    forall L : lay,
      (forall i i', anc_dom L i -> anc_dom L i' ->
                    md5 (anc_key i) = md5 (anc_key i') -> anc_key i = anc_key i') ->
      forall (F : list pobj -> V + E) (ops : list (mop (list pobj) V)),
        Forall (op_dom (list pobj) V (anc_dom L)) ops ->
        map (obs V E) (snd (mrun (list pobj) D V E (fun i => md5 (anc_key i)) deqb F true
                                 (m_init D V 1) ops))
        = map (fun o => Some (spec_op (list pobj) V E F o)) ops.
Proof. exact ancillary_history_fresh. Qed.
Print Assumptions C17_ancillary_history_fresh.

(* The LazyContourList.identifier before e54bde9 (bytes of the first mask only;
   documents the repaired defect, tied to nothing in /repo) breaks it: contour-derived features are stale after the masks change. *)
Theorem C17_contour_identifier_refuted :
  exists ops : list (mop (list bytes) bytes),
    map (obs bytes Z) (snd (mrun (list bytes) bytes bytes Z lcl_ident_old beqb
                                 (fun m => inl (concat m)) true (m_init bytes bytes 1) ops))
    <> map (fun o => Some (spec_op (list bytes) bytes Z (fun m => inl (concat m)) o)) ops.
Proof. exact contour_identifier_refuted. Qed.
Print Assumptions C17_contour_identifier_refuted.

(* --- _ufunc_attrs (min/max/mean cached on the feature object) ---------------- *)

(* The caching rule: a summary is that of the data seen at the first access
   after the last rejuvenate. *)
Theorem C17_ufunc_cache_rule :
  forall (D W : Type) (ufunc : Z -> D -> W) (d : D) (ops : list (uop D)),
    urun D W ufunc {| u_parent := d; u_obj := None |} ops = uspec D W ufunc d None ops.
Proof. exact ufunc_history_fresh. Qed.
Print Assumptions C17_ufunc_cache_rule.

(* Hence, with the documented discipline (rejuvenate the child after every
   change of the parent before reading), every min/max/mean is that of the
   data the parent currently passes on. *)
Theorem C17_ufunc_cache_fresh_when_rejuvenated :
  forall (D W : Type) (ufunc : Z -> D -> W) (d : D) (ops : list (uop D)),
    synced D false ops = true ->
    urun D W ufunc {| u_parent := d; u_obj := None |} ops = ucurrent D W ufunc d ops.
Proof. exact ufunc_fresh_when_rejuvenated. Qed.
Print Assumptions C17_ufunc_cache_fresh_when_rejuvenated.
