(* C18 — contour-, image- and fluorescence-derived features obey their
   definitions.  Property theorems only (exact arithmetic; the global
   contour/mask statement, rotation invariance and convergence to analytic
   volumes are oracle runs on the real code, see harness/c18.py). *)
From Coq Require Import ZArith QArith List Bool.
From Verif Require Import Model.C18 Proofs.C18 Proofs.C18_img Proofs.C18_sim.
Import ListNotations.
Open Scope Z_scope.

(* ---- remove_duplicates ------------------------------------------------- *)
(* No two cyclic neighbours of the result are equal. *)
Theorem C18_dedup_no_equal_cyclic_neighbours :
  forall c : list pt, NoCycDup (remove_duplicates c).
Proof. exact remove_duplicates_cyclic. Qed.
Print Assumptions C18_dedup_no_equal_cyclic_neighbours.

(* The order of the points is kept (the result is a subsequence). *)
Theorem C18_dedup_keeps_order :
  forall c : list pt, Subseq (remove_duplicates c) c.
Proof. exact remove_duplicates_subseq. Qed.
Print Assumptions C18_dedup_keeps_order.

(* Same set of points, unless nothing is left ... *)
Theorem C18_dedup_same_points :
  forall c : list pt, remove_duplicates c <> [] ->
    forall p, In p (remove_duplicates c) <-> In p c.
Proof. exact remove_duplicates_same_points. Qed.
Print Assumptions C18_dedup_same_points.

(* ... which happens exactly when all points coincide (one-pixel masks:
   get_contour raises NoValidContourFoundError). *)
Theorem C18_dedup_empty_iff_single_point :
  forall c : list pt,
    remove_duplicates c = [] <-> (forall p q, In p c -> In q c -> p = q).
Proof. exact remove_duplicates_empty_iff. Qed.
Print Assumptions C18_dedup_empty_iff_single_point.

(* ---- contour moments --------------------------------------------------- *)
(* cont_moments_cv computes m00 = |a00|/2, mu20 = N20/(36|a00|),
   mu02 = N02/(36|a00|), mu11 = N11/(72|a00|) and returns None iff a00 = 0. *)
Theorem C18_moments_closed_form :
  forall c : list pt, a00 c <> 0 ->
    exists m, cont_moments_cv c = Some m /\
      (m00 m == zq (Z.abs (a00 c)) / (2 # 1))%Q /\
      (mu20 m == zq (N20 c) / D36 c)%Q /\
      (mu02 m == zq (N02 c) / D36 c)%Q /\
      (mu11 m == zq (N11 c) / ((2 # 1) * D36 c))%Q.
Proof. exact moments_some. Qed.
Print Assumptions C18_moments_closed_form.

(* Area and central second moments do not change under translation. *)
Theorem C18_moments_translation_invariant :
  forall (tx ty : Z) (c : list pt),
    c2_eq (central2 (translate tx ty c)) (central2 c).
Proof. exact central_moments_translation_invariant. Qed.
Print Assumptions C18_moments_translation_invariant.

(* Numerator and denominator of the inertia ratio are translation invariant
   integers. *)
Theorem C18_inertia_numerators_translation_invariant :
  forall (tx ty : Z) (c : list pt),
    N20 (translate tx ty c) = N20 c /\ N02 (translate tx ty c) = N02 c /\
    a00 (translate tx ty c) = a00 c.
Proof. exact inertia_numerators_translate. Qed.
Print Assumptions C18_inertia_numerators_translation_invariant.

(* The (squared) inertia ratio is translation invariant ... *)
Theorem C18_inert_ratio_translation_invariant :
  forall (tx ty : Z) (c : list pt),
    oq_eq (inert_ratio_sq (translate tx ty c)) (inert_ratio_sq c).
Proof. exact inert_ratio_translation_invariant. Qed.
Print Assumptions C18_inert_ratio_translation_invariant.

(* ... becomes its reciprocal when the axes are exchanged (both central
   moments non-zero: numpy divides, Q's 1/0 = 0 is not used) ... *)
Theorem C18_inert_ratio_axis_swap_reciprocal :
  forall c : list pt, N20 c <> 0 -> N02 c <> 0 ->
    oq_eq (inert_ratio_sq (swap_xy c)) (oq_inv (inert_ratio_sq c)).
Proof. exact inert_ratio_axis_swap_reciprocal_guarded. Qed.
Print Assumptions C18_inert_ratio_axis_swap_reciprocal.

Theorem C18_inert_ratio_axis_swap_product_one :
  forall (c : list pt) (q q' : Q),
    inert_ratio_sq c = Some q -> inert_ratio_sq (swap_xy c) = Some q' ->
    N20 c <> 0 -> N02 c <> 0 -> (q' * q == 1)%Q.
Proof. exact inert_ratio_swap_product. Qed.
Print Assumptions C18_inert_ratio_axis_swap_product_one.

(* ... and does not depend on the orientation of the contour. *)
Theorem C18_inert_ratio_orientation_invariant :
  forall c : list pt, oq_eq (inert_ratio_sq (rev c)) (inert_ratio_sq c).
Proof. exact inert_ratio_reversal_invariant. Qed.
Print Assumptions C18_inert_ratio_orientation_invariant.

(* ---- volume of revolution ---------------------------------------------- *)
(* "close the contour if it is open and add the truncated cones" is the sum
   over the cyclic polygon. *)
Theorem C18_vol_is_cyclic_cone_sum :
  forall c : list pt, vsum c = csum seg c.
Proof. exact vsum_csum. Qed.
Print Assumptions C18_vol_is_cyclic_cone_sum.

(* Scaling all coordinates by s multiplies the volume by s^3; so does the
   point_scale argument. *)
Theorem C18_vol_scale_cubic :
  forall (r z : list Z) (ps s : Z), 0 < s ->
    vol_revolve (map (Z.mul s) r) (map (Z.mul s) z) ps
    = omap (Z.mul (s * s * s)) (vol_revolve r z ps).
Proof. exact vol_revolve_scale_coords. Qed.
Print Assumptions C18_vol_scale_cubic.

Theorem C18_vol_point_scale_cubic :
  forall (r z : list Z) (ps s : Z),
    vol_revolve r z (s * ps) = omap (Z.mul (s * s * s)) (vol_revolve r z ps).
Proof. exact vol_revolve_point_scale. Qed.
Print Assumptions C18_vol_point_scale_cubic.

(* Reversing the orientation flips the sign. *)
Theorem C18_vol_reverse_neg :
  forall (r z : list Z) (ps : Z),
    vol_revolve (rev r) (rev z) ps = omap Z.opp (vol_revolve r z ps).
Proof. exact vol_revolve_reverse. Qed.
Print Assumptions C18_vol_reverse_neg.

(* Translation along the axis of rotation does not matter. *)
Theorem C18_vol_translate_z :
  forall (r z : list Z) (ps t : Z),
    vol_revolve r (map (fun v => v + t) z) ps = vol_revolve r z ps.
Proof. exact vol_revolve_translate_z. Qed.
Print Assumptions C18_vol_translate_z.

(* get_volume (average of upper and lower half): same laws. *)
Theorem C18_get_volume_reverse_neg :
  forall (k cx cy : Z) (c : list pt),
    get_volume k cx cy (rev c) = omap Z.opp (get_volume k cx cy c).
Proof. exact get_volume_reverse. Qed.
Print Assumptions C18_get_volume_reverse_neg.

Theorem C18_get_volume_translation_invariant :
  forall (k cx cy tx ty : Z) (c : list pt),
    get_volume k (cx + k * tx) (cy + k * ty) (translate tx ty c)
    = get_volume k cx cy c.
Proof. exact get_volume_translate. Qed.
Print Assumptions C18_get_volume_translation_invariant.

Theorem C18_get_volume_axis_position_independent :
  forall (k cx cx' cy : Z) (c : list pt),
    get_volume k cx' cy c = get_volume k cx cy c.
Proof. exact get_volume_axis_independent. Qed.
Print Assumptions C18_get_volume_axis_position_independent.

Theorem C18_get_volume_unit_cubic :
  forall (s k cx cy : Z) (c : list pt), 0 <= s ->
    get_volume (s * k) (s * cx) (s * cy) c
    = omap (Z.mul (s * s * s)) (get_volume k cx cy c).
Proof. exact get_volume_unit_cubic. Qed.
Print Assumptions C18_get_volume_unit_cubic.

(* ---- brightness -------------------------------------------------------- *)
(* An integer offset of the data shifts mean and percentiles one-to-one and
   leaves the deviation alone. *)
Theorem C18_mean_offset_shift :
  forall (k : Z) (l : list Z), l <> [] ->
    (mean (shift k l) == mean l + zq k)%Q.
Proof. exact mean_offset_shift. Qed.
Print Assumptions C18_mean_offset_shift.

Theorem C18_deviation_offset_invariant :
  forall (k : Z) (l : list Z), l <> [] ->
    (variance (shift k l) == variance l)%Q.
Proof. exact variance_offset_invariant. Qed.
Print Assumptions C18_deviation_offset_invariant.

Theorem C18_percentile_offset_shift :
  forall (q k : Z) (l : list Z), l <> [] -> 0 <= q <= 100 ->
    (percentile q (shift k l) == percentile q l + zq k)%Q.
Proof. exact percentile_offset_shift. Qed.
Print Assumptions C18_percentile_offset_shift.

(* Integer background subtraction: the corrected average is the average of
   the image minus the average of the background under the mask, minus the
   offset. *)
Theorem C18_bright_bc_is_difference_of_means :
  forall (mask : list bool) (img bg : list Z) (off : option Q) (a v : Q),
    length img = length bg ->
    get_bright_bc mask img bg off = Some (a, v) ->
    (a == mean (sel mask img) - mean (sel mask bg)
          - match off with Some o => o | None => 0 end)%Q.
Proof. exact bright_bc_avg_difference. Qed.
Print Assumptions C18_bright_bc_is_difference_of_means.

(* bg_off shifts average and percentiles one-to-one (bright_perc: after the
   repair 3735645 `if bg_off is not None`). *)
Theorem C18_bright_bc_offset_one_to_one :
  forall (mask : list bool) (img bg : list Z) (o a v a0 v0 : Q),
    get_bright_bc mask img bg (Some o) = Some (a, v) ->
    get_bright_bc mask img bg None = Some (a0, v0) ->
    (a == a0 - o)%Q /\ (v == v0)%Q.
Proof. exact bright_bc_offset_one_to_one. Qed.
Print Assumptions C18_bright_bc_offset_one_to_one.

Theorem C18_bright_perc_offset_one_to_one :
  forall (mask : list bool) (img bg : list Z) (o p10 p90 q10 q90 : Q),
    get_bright_perc mask img bg (Some o) = Some (p10, p90) ->
    get_bright_perc mask img bg None = Some (q10, q90) ->
    (p10 == q10 - o)%Q /\ (p90 == q90 - o)%Q.
Proof. exact bright_perc_offset_one_to_one. Qed.
Print Assumptions C18_bright_perc_offset_one_to_one.

(* ---- crosstalk --------------------------------------------------------- *)
Theorem C18_comp_inverts_spill :
  forall m : mat3, ~ (det3 m == 0)%Q ->
    mat_eq (mul3 (inv3 m) m) id3 /\ mat_eq (mul3 m (inv3 m)) id3.
Proof. exact comp_inverts_spill. Qed.
Print Assumptions C18_comp_inverts_spill.

Theorem C18_compensation_matrix_is_inverse :
  forall ct21 ct31 ct12 ct32 ct13 ct23 : Q,
    nonneg6 ct21 ct31 ct12 ct32 ct13 ct23 ->
    let m := crosstalk_matrix ct21 ct31 ct12 ct32 ct13 ct23 in
    ~ (det3 m == 0)%Q ->
    exists minv,
      get_compensation_matrix ct21 ct31 ct12 ct32 ct13 ct23 = CtVal minv /\
      mat_eq (mul3 minv m) id3 /\ mat_eq (mul3 m minv) id3.
Proof. exact compensation_matrix_is_inverse. Qed.
Print Assumptions C18_compensation_matrix_is_inverse.

(* The correction recovers exactly the signals that the modelled spill-over
   distorted. *)
Theorem C18_crosstalk_correction_inverts_spill :
  forall ct21 ct31 ct12 ct32 ct13 ct23 t1 t2 t3 : Q,
    nonneg6 ct21 ct31 ct12 ct32 ct13 ct23 ->
    let m := crosstalk_matrix ct21 ct31 ct12 ct32 ct13 ct23 in
    ~ (det3 m == 0)%Q ->
    let '(f1, f2, f3) := spill m t1 t2 t3 in
    exists v1 v2 v3,
      correct_crosstalk f1 f2 f3 1 ct21 ct31 ct12 ct32 ct13 ct23 = CtVal v1 /\
      correct_crosstalk f1 f2 f3 2 ct21 ct31 ct12 ct32 ct13 ct23 = CtVal v2 /\
      correct_crosstalk f1 f2 f3 3 ct21 ct31 ct12 ct32 ct13 ct23 = CtVal v3 /\
      (v1 == t1)%Q /\ (v2 == t2)%Q /\ (v3 == t3)%Q.
Proof. exact crosstalk_correction_inverts_spill. Qed.
Print Assumptions C18_crosstalk_correction_inverts_spill.

(* ---- marching squares -------------------------------------------------- *)
(* Case table, all 16 cases x both connectivity settings: an edge carries an
   endpoint iff its two pixels differ; whether it is the tail or the head of
   the segment is decided by the two pixels of the edge alone. *)
Theorem C18_case_table_oriented :
  forall (ul ur ll lr vch : bool) (e : edge),
    let sg := segs (square_case ul ur ll lr) vch in
    count_edge e (map fst sg)
    = b2n (differs ul ur ll lr e && leaves ul ur ll lr e) /\
    count_edge e (map snd sg)
    = b2n (differs ul ur ll lr e && negb (leaves ul ur ll lr e)).
Proof. exact case_table_oriented. Qed.
Print Assumptions C18_case_table_oriented.

(* For every image and every pair of neighbouring squares: on the shared
   edge one square starts a segment exactly when the other ends one, at the
   same point, and this happens iff the two pixels differ. *)
Theorem C18_edge_consistency_vertical :
  forall (img : image) (vch : bool) (r c : nat),
    let up := segs (cell_case img r c) vch in
    let lo := segs (cell_case img (S r) c) vch in
    count_edge EB (map fst up) = count_edge ET (map snd lo) /\
    count_edge EB (map snd up) = count_edge ET (map fst lo) /\
    (count_edge EB (map fst up) + count_edge EB (map snd up))%nat
    = b2n (xorb (px img (S r) c) (px img (S r) (S c))) /\
    edge_point (Z.of_nat r) (Z.of_nat c) (px img r c) (px img r (S c))
               (px img (S r) c) (px img (S r) (S c)) EB
    = edge_point (Z.of_nat (S r)) (Z.of_nat c) (px img (S r) c)
                 (px img (S r) (S c)) (px img (S (S r)) c)
                 (px img (S (S r)) (S c)) ET.
Proof. exact edge_consistency_vertical. Qed.
Print Assumptions C18_edge_consistency_vertical.

Theorem C18_edge_consistency_horizontal :
  forall (img : image) (vch : bool) (r c : nat),
    let le := segs (cell_case img r c) vch in
    let ri := segs (cell_case img r (S c)) vch in
    count_edge ER (map fst le) = count_edge EL (map snd ri) /\
    count_edge ER (map snd le) = count_edge EL (map fst ri) /\
    (count_edge ER (map fst le) + count_edge ER (map snd le))%nat
    = b2n (xorb (px img r (S c)) (px img (S r) (S c))) /\
    edge_point (Z.of_nat r) (Z.of_nat c) (px img r c) (px img r (S c))
               (px img (S r) c) (px img (S r) (S c)) ER
    = edge_point (Z.of_nat r) (Z.of_nat (S c)) (px img r (S c))
                 (px img r (S (S c))) (px img (S r) (S c))
                 (px img (S r) (S (S c))) EL.
Proof. exact edge_consistency_horizontal. Qed.
Print Assumptions C18_edge_consistency_horizontal.

(* Every emitted endpoint rounds to a high pixel of an edge whose other
   pixel is low (a boundary pixel of the mask). *)
Theorem C18_rounded_point_is_high_pixel :
  forall (r0 c0 : Z) (ul ur ll lr : bool) (e : edge),
    differs ul ur ll lr e = true ->
    round_pt (edge_point r0 c0 ul ur ll lr e) = high_pixel r0 c0 ul ur ll lr e.
Proof. exact rounded_point_is_high_pixel. Qed.
Print Assumptions C18_rounded_point_is_high_pixel.

(* Lifted to whole images: both endpoints of every segment that
   iterate_and_store emits (any image, either connectivity) round to a high
   pixel that has a low 4-neighbour, i.e. the contour runs on the boundary
   pixels of the mask.  (That the assembled contour visits all of them and
   refills to the mask is checked by the oracle runs only.) *)
Theorem C18_contour_points_are_boundary_pixels :
  forall (img : image) (vch : bool) (sgs : list (pt * pt)) (s : pt * pt),
    iterate_and_store img vch = Some sgs -> In s sgs ->
    is_boundary img (round_pt (fst s)) /\ is_boundary img (round_pt (snd s)).
Proof. exact contour_points_are_boundary_pixels. Qed.
Print Assumptions C18_contour_points_are_boundary_pixels.

(* Conversely every horizontally / vertically adjacent pair of differing
   pixels inside the image contributes an endpoint that rounds to its high
   pixel: the rounded endpoints are exactly the boundary pixels. *)
Theorem C18_boundary_pixels_are_emitted_horizontal :
  forall (img : image) (vch : bool) (sgs : list (pt * pt)) (r c : nat),
    iterate_and_store img vch = Some sgs ->
    (r < nrows img)%nat -> (S c < ncols img)%nat ->
    px img r c <> px img r (S c) ->
    exists s, In s sgs /\
      let hp := if px img r c then (Z.of_nat r, Z.of_nat c)
                else (Z.of_nat r, Z.of_nat (S c)) in
      (round_pt (fst s) = hp \/ round_pt (snd s) = hp).
Proof. exact boundary_pair_emitted_h. Qed.
Print Assumptions C18_boundary_pixels_are_emitted_horizontal.

Theorem C18_boundary_pixels_are_emitted_vertical :
  forall (img : image) (vch : bool) (sgs : list (pt * pt)) (r c : nat),
    iterate_and_store img vch = Some sgs ->
    (S r < nrows img)%nat -> (c < ncols img)%nat ->
    px img r c <> px img (S r) c ->
    exists s, In s sgs /\
      let hp := if px img r c then (Z.of_nat r, Z.of_nat c)
                else (Z.of_nat (S r), Z.of_nat c) in
      (round_pt (fst s) = hp \/ round_pt (snd s) = hp).
Proof. exact boundary_pair_emitted_v. Qed.
Print Assumptions C18_boundary_pixels_are_emitted_vertical.

(* ---- principal inertia ratio ------------------------------------------- *)
(* Trace T and discriminant D of the second-moment matrix of a contour; the
   principal inertia ratio squared is (T + sqrt D)/(T - sqrt D).  Under the
   rotation by the angle of (p, q) combined with the scaling sqrt(p^2+q^2)
   (integer p, q: a dense set of angles) T and sqrt D pick up the same
   factor ... *)
Theorem C18_principal_invariants_rotation_scaling :
  forall (p q : Z) (c : list pt),
    a00 (simmap p q c) = (p * p + q * q) * a00 c /\
    T_N (simmap p q c)
    = (p * p + q * q) * (p * p + q * q) * (p * p + q * q) * T_N c /\
    Disc_N (simmap p q c)
    = (p * p + q * q) * (p * p + q * q) * (p * p + q * q)
      * (p * p + q * q) * (p * p + q * q) * (p * p + q * q) * Disc_N c.
Proof. exact invariants_sim. Qed.
Print Assumptions C18_principal_invariants_rotation_scaling.

(* ... so the principal inertia ratio is rotation (and scale) invariant:
   for every square root h of D, K^3 h is a square root of the rotated D and
   the ratio is the same. *)
Theorem C18_principal_ratio_rotation_invariant :
  forall (p q : Z) (c : list pt) (h : Q),
    p * p + q * q <> 0 ->
    (h * h == zq (Disc_N c))%Q -> ~ (zq (T_N c) - h == 0)%Q ->
    let K3 := zq ((p * p + q * q) * (p * p + q * q) * (p * p + q * q)) in
    ((K3 * h) * (K3 * h) == zq (Disc_N (simmap p q c)))%Q /\
    (prnc_sq (zq (T_N (simmap p q c))) (K3 * h)
     == prnc_sq (zq (T_N c)) h)%Q.
Proof. exact prnc_similarity_invariant. Qed.
Print Assumptions C18_principal_ratio_rotation_invariant.

(* Reflection and translation leave T and D alone. *)
Theorem C18_principal_invariants_reflection_translation :
  forall (c : list pt) (tx ty : Z),
    T_N (reflect_x c) = T_N c /\ Disc_N (reflect_x c) = Disc_N c /\
    T_N (translate tx ty c) = T_N c /\ Disc_N (translate tx ty c) = Disc_N c.
Proof. exact prnc_reflection_translation_invariant. Qed.
Print Assumptions C18_principal_invariants_reflection_translation.

(* The discriminant is a sum of squares (real principal axes), and for a
   positive definite second-moment matrix (0 <= sqrt D < T) the principal
   inertia ratio is at least one. *)
Theorem C18_principal_discriminant_nonneg :
  forall c : list pt, 0 <= Disc_N c.
Proof. exact Disc_nonneg. Qed.
Print Assumptions C18_principal_discriminant_nonneg.

Theorem C18_principal_ratio_at_least_one :
  forall T h : Q, (0 <= h)%Q -> (h < T)%Q -> (1 <= prnc_sq T h)%Q.
Proof. exact prnc_sq_ge_1. Qed.
Print Assumptions C18_principal_ratio_at_least_one.

(* ---- get_volume and the pixel size ------------------------------------- *)
Theorem C18_get_volume_pixel_size_cubic :
  forall (k cx cy : Z) (c : list pt) (pix s : Q),
    oq_eq (get_volume_pi k cx cy c (s * pix))
          (oq_scale (s * s * s) (get_volume_pi k cx cy c pix)).
Proof. exact get_volume_pix_cubic. Qed.
Print Assumptions C18_get_volume_pixel_size_cubic.

(* ---- brightness batches: offsets as none / scalar / one per event ------- *)
Theorem C18_batch_event_uses_its_own_offset :
  forall (f : list bool -> list Z -> list Z -> option Q -> option (Q * Q))
         (evs : list bevent) (off : offspec) (i : nat) (e : bevent)
         (o : option Q),
    nth_error evs i = Some e -> off_at off (length evs) i = Some o ->
    exists r, batch f evs off = BrOk r /\
              nth_error r i = Some (f (bmask e) (bimg e) (bbg e) o).
Proof. exact batch_per_event. Qed.
Print Assumptions C18_batch_event_uses_its_own_offset.

Theorem C18_bright_bc_per_event_offsets_one_to_one :
  forall (evs : list bevent) (l : list Q) (i : nat) (e : bevent)
         (r r0 : list (option (Q * Q))) (a0 v0 : Q),
    length l = length evs -> nth_error evs i = Some e ->
    get_bright_bc_batch evs (OffSeq l) = BrOk r ->
    get_bright_bc_batch evs OffNone = BrOk r0 ->
    nth_error r0 i = Some (Some (a0, v0)) ->
    exists a v, nth_error r i = Some (Some (a, v)) /\
                (a == a0 - nth i l 0)%Q /\ (v == v0)%Q.
Proof. exact bright_bc_batch_offsets. Qed.
Print Assumptions C18_bright_bc_per_event_offsets_one_to_one.

Theorem C18_bright_perc_per_event_offsets_one_to_one :
  forall (evs : list bevent) (l : list Q) (i : nat) (e : bevent)
         (r r0 : list (option (Q * Q))) (a0 v0 : Q),
    length l = length evs -> nth_error evs i = Some e ->
    get_bright_perc_batch evs (OffSeq l) = BrOk r ->
    get_bright_perc_batch evs OffNone = BrOk r0 ->
    nth_error r0 i = Some (Some (a0, v0)) ->
    exists a v, nth_error r i = Some (Some (a, v)) /\
                (a == a0 - nth i l 0)%Q /\ (v == v0 - nth i l 0)%Q.
Proof. exact bright_perc_batch_offsets. Qed.
Print Assumptions C18_bright_perc_per_event_offsets_one_to_one.

(* ---- principal inertia ratio >= 1: the hypothesis discharged ------------- *)
(* [pd_contour]: 0 < N20, 0 < N02, N11^2 < 4 N20 N02 (second-moment matrix
   positive definite), a checkable integer predicate that the harness
   evaluates on every generated contour.  Under it every non-negative root h
   of the discriminant is below the trace, hence the ratio is at least one. *)
Theorem C18_positive_definite_root_below_trace :
  forall (c : list pt) (h : Q),
    pd_contour c = true -> (0 <= h)%Q -> (h * h == zq (Disc_N c))%Q ->
    (h < zq (T_N c))%Q.
Proof. exact pd_root_below_trace. Qed.
Print Assumptions C18_positive_definite_root_below_trace.

Theorem C18_principal_ratio_at_least_one_pd :
  forall (c : list pt) (h : Q),
    pd_contour c = true -> (0 <= h)%Q -> (h * h == zq (Disc_N c))%Q ->
    (1 <= prnc_sq (zq (T_N c)) h)%Q.
Proof. exact pd_principal_ratio_ge_1. Qed.
Print Assumptions C18_principal_ratio_at_least_one_pd.

(* Proved class: every non-degenerate triangle, anywhere, in any
   orientation, has positive definite second moments
   (4 N20 N02 - N11^2 = 3 a00^6).  For general polygons positive
   definiteness (Cauchy-Schwarz on the area integral) is NOT proved: it is
   the stated assumption of the ">= 1" clause, evaluated per contour. *)
Theorem C18_triangle_positive_definite_partial :
  forall x1 y1 x2 y2 x3 y3 : Z,
    let c := [(x1, y1); (x2, y2); (x3, y3)] in
    a00 c <> 0 -> pd_contour c = true.
Proof. exact triangle_positive_definite. Qed.
Print Assumptions C18_triangle_positive_definite_partial.
