(* C19 — remote range-cached access returns the bytes of the resource.
   Property theorems only; each is closed by [exact] of a lemma proved in
   Proofs/C19.v and followed by Print Assumptions. *)
From Coq Require Import ZArith List Bool.
From Verif Require Import Common.ListIdx Model.C19 Proofs.C19.
Import ListNotations.
Open Scope Z_scope.

(* All three main theorems hold for EVERY eviction policy that only removes
   entries, never removes the requested chunk and removes exactly one entry
   when two or more are held ([policy_ok]) -- "whatever the eviction history".
   The policy of the code ([evict]: oldest chunk other than chunk 0 and the
   requested one) is one instance; un-pinning chunk 0 is another. *)
Theorem C19_code_policy_ok : policy_ok evict.
Proof. exact evict_policy_ok. Qed.
Print Assumptions C19_code_policy_ok.

Theorem C19_unpinned_policy_ok : policy_ok evict_unpinned.
Proof. exact evict_unpinned_policy_ok. Qed.
Print Assumptions C19_unpinned_policy_ok.

(* One call of read_range_cached on any cache state reachable so far returns
   exactly res[start : min stop len], whatever the server answers to invalid
   range requests, and keeps the cache correct and within capacity. *)
Theorem C19_range_read_exact :
  forall (res : list Z) (junk : Z -> Z -> list Z) (cs keep : Z)
         (ev : Z -> cache -> cache),
    0 < cs -> 1 <= keep -> policy_ok ev ->
    forall (start stop : Z) (c : cache),
      Good res cs c -> Bnd keep c -> 0 <= start ->
      exists c', rrc res junk cs keep ev start stop c
                 = (c', Some (slice res start (Z.min stop (len res))))
                 /\ Good res cs c' /\ Bnd keep c'.
Proof. exact rrc_correct. Qed.
Print Assumptions C19_range_read_exact.

(* Every history of seek/tell/read (any length, any order, reads of any size
   including "to the end") behaves exactly like an in-memory file holding the
   resource: same bytes, same positions, never an error. *)
Theorem C19_history_equals_plain_file :
  forall (res : list Z) (junk : Z -> Z -> list Z) (cs keep : Z)
         (ev : Z -> cache -> cache),
    0 < cs -> 1 <= keep -> policy_ok ev ->
    forall ops : list op,
      pos_ok res 0 ops = true ->
      snd (run res junk cs keep ev init ops) = spec_run res 0 ops.
Proof. exact ops_history. Qed.
Print Assumptions C19_history_equals_plain_file.

(* Between operations the number of chunks held is at most keep_chunks, for
   every history (no hypothesis on positions is needed) ... *)
Theorem C19_cache_never_exceeds_capacity :
  forall (res : list Z) (junk : Z -> Z -> list Z) (cs keep : Z)
         (ev : Z -> cache -> cache),
    0 < cs -> 1 <= keep -> policy_ok ev ->
    forall (ops : list op) (s : state),
      Bnd keep (chunks s) -> run_maxheld res junk cs keep ev s ops <= keep.
Proof. exact cache_bounded_cs. Qed.
Print Assumptions C19_cache_never_exceeds_capacity.

(* ... and at every moment, including the instant inside get_cache_chunk
   between storing a downloaded chunk and evicting another, at most
   keep_chunks + 1. The "+ 1" is attained (second theorem): the code stores
   before it evicts, so the configured number is exceeded by the one chunk
   being handed out, for the duration of one dict operation. *)
Theorem C19_transient_at_most_capacity_plus_one :
  forall (res : list Z) (junk : Z -> Z -> list Z) (cs keep : Z)
         (ev : Z -> cache -> cache),
    0 < cs -> 1 <= keep -> policy_ok ev ->
    forall (ops : list op) (s : state),
      Bnd keep (chunks s) -> run_peak res junk cs keep ev s ops <= keep + 1.
Proof. exact peak_bounded_cs. Qed.
Print Assumptions C19_transient_at_most_capacity_plus_one.

Theorem C19_transient_reaches_capacity_plus_one :
  exists ops, pos_ok res10 0 ops = true
    /\ run_peak res10 (fun _ _ => []) 4 2 evict init ops = 3
    /\ run_maxheld res10 (fun _ _ => []) 4 2 evict init ops = 2.
Proof. exact peak_reaches_keep_plus_one. Qed.
Print Assumptions C19_transient_reaches_capacity_plus_one.

(* Second sentence of the property ("consequently a dataset opened over HTTP
   exposes the same ... as the same file opened locally"): ANY client whose
   next operation is a function of the answers it has received so far (h5py
   parsing the file is such a client) sees exactly the transcript it would
   see on a plain file, for any number of steps. What the client computes
   from the transcript is therefore the same. (That h5py is such a function
   of the answers is the trusted part; harness: RTDC_HTTP vs RTDC_HDF5.) *)
Theorem C19_adaptive_client_sees_plain_file :
  forall (res : list Z) (junk : Z -> Z -> list Z) (cs keep : Z)
         (ev : Z -> cache -> cache),
    0 < cs -> 1 <= keep -> policy_ok ev ->
    forall (fuel : nat) (rd : reader),
      reader_pos_ok res fuel rd 0 [] = true ->
      interact res junk cs keep ev fuel rd init []
      = spec_interact res fuel rd 0 [].
Proof. exact reader_history. Qed.
Print Assumptions C19_adaptive_client_sees_plain_file.

(* HISTORICAL (no live tie: [run_old] models code that no longer exists in
   /repo). The code before the repairs (96f1c8a, d7d4e3b) violated the history
   theorem; these witnesses, replayed on the old implementation, are the
   defects recorded as "fixed" in known_findings.json. Its eviction policy
   does not meet [policy_ok]. *)
Theorem C19_old_policy_not_ok : ~ policy_ok (fun _ c => evict_old c).
Proof. exact evict_old_not_policy_ok. Qed.
Print Assumptions C19_old_policy_not_ok.

Theorem C19_old_keep1_keyerror_refuted :
  exists ops, pos_ok res10 0 ops = true
    /\ run_old res10 (fun _ _ => []) 4 1 init ops <> spec_run res10 0 ops
    /\ In OKeyError (run_old res10 (fun _ _ => []) 4 1 init ops).
Proof. exact old_keep1_keyerror. Qed.
Print Assumptions C19_old_keep1_keyerror_refuted.

Theorem C19_old_read_all_refuted :
  exists ops, pos_ok res10 0 ops = true
    /\ run_old res10 (fun _ _ => []) 4 2 init ops = [ONone; OData []]
    /\ spec_run res10 0 ops = [ONone; OData [17; 18; 19]].
Proof. exact old_read_all_empty. Qed.
Print Assumptions C19_old_read_all_refuted.

Theorem C19_old_read_across_eof_refuted :
  exists ops, pos_ok res10 0 ops = true
    /\ run_old res10 (fun _ _ => res10) 4 2 init ops
       = [ONone; OData [15; 16; 17; 18; 19; 10]]
    /\ spec_run res10 0 ops = [ONone; OData [15; 16; 17; 18; 19]].
Proof. exact old_read_across_eof_junk. Qed.
Print Assumptions C19_old_read_across_eof_refuted.

Theorem C19_old_read0_moves_refuted :
  exists ops, pos_ok res10 0 ops = true
    /\ run_old res10 (fun _ _ => []) 4 2 init ops = [OData []; OPos 10]
    /\ spec_run res10 0 ops = [OData []; OPos 0].
Proof. exact old_read0_moves. Qed.
Print Assumptions C19_old_read0_moves_refuted.

(* keep_chunks >= 1 is necessary for the capacity theorem *)
Theorem C19_keep0_bound_refuted :
  exists ops, run_maxheld res10 (fun _ _ => []) 4 0 evict init ops > 0.
Proof. exact keep0_bound_fails. Qed.
Print Assumptions C19_keep0_bound_refuted.
