(* C19 — remote range-cached access returns the bytes of the resource.
   Property theorems only; each is closed by [exact] of a lemma proved in
   Proofs/C19.v and followed by Print Assumptions. *)
From Coq Require Import ZArith List Bool.
From Verif Require Import Common.ListIdx Model.C19 Proofs.C19.
Import ListNotations.
Open Scope Z_scope.

(* One call of read_range_cached on any cache state reachable so far returns
   exactly res[start : min stop len], whatever the server answers to invalid
   range requests, and keeps the cache correct and within capacity. *)
Theorem C19_range_read_exact :
  forall (res : list Z) (junk : Z -> Z -> list Z) (cs keep : Z),
    0 < cs -> 1 <= keep ->
    forall (start stop : Z) (c : cache),
      Good res cs c -> Bnd keep c -> 0 <= start ->
      exists c', rrc res junk cs keep start stop c
                 = (c', Some (slice res start (Z.min stop (len res))))
                 /\ Good res cs c' /\ Bnd keep c'.
Proof. exact rrc_correct. Qed.
Print Assumptions C19_range_read_exact.

(* Every history of seek/tell/read (any length, any order, reads of any size
   including "to the end") behaves exactly like an in-memory file holding the
   resource: same bytes, same positions, never an error. *)
Theorem C19_history_equals_plain_file :
  forall (res : list Z) (junk : Z -> Z -> list Z) (cs keep : Z),
    0 < cs -> 1 <= keep ->
    forall ops : list op,
      pos_ok res 0 ops = true ->
      snd (run res junk cs keep init ops) = spec_run res 0 ops.
Proof. exact ops_history. Qed.
Print Assumptions C19_history_equals_plain_file.

(* After every operation of every history the number of chunks held is at
   most keep_chunks (no hypothesis on positions is needed). *)
Theorem C19_cache_never_exceeds_capacity :
  forall (res : list Z) (junk : Z -> Z -> list Z) (cs keep : Z),
    1 <= keep ->
    forall (ops : list op) (s : state),
      Bnd keep (chunks s) -> run_maxheld res junk cs keep s ops <= keep.
Proof. exact cache_bounded. Qed.
Print Assumptions C19_cache_never_exceeds_capacity.

(* The code before the repairs (96f1c8a, d7d4e3b) violated the history
   theorem; witnesses replayed on the old implementation are the findings
   recorded as "fixed" in known_findings.json. *)
Theorem C19_old_keep1_keyerror_refuted :
  exists ops, pos_ok res10 0 ops = true
    /\ run_old res10 (fun _ _ => []) 4 1 init ops <> spec_run res10 0 ops
    /\ In OKeyError (run_old res10 (fun _ _ => []) 4 1 init ops).
Proof. exact old_keep1_keyerror. Qed.
Print Assumptions C19_old_keep1_keyerror_refuted.

Theorem C19_old_read_all_refuted :
  exists ops, pos_ok res10 0 ops = true
    /\ run_old res10 (fun _ _ => []) 4 2 init ops = [ONone; OData []]
    /\ spec_run res10 0 ops = [ONone; OData [17; 18; 19]].
Proof. exact old_read_all_empty. Qed.
Print Assumptions C19_old_read_all_refuted.

Theorem C19_old_read_across_eof_refuted :
  exists ops, pos_ok res10 0 ops = true
    /\ run_old res10 (fun _ _ => res10) 4 2 init ops
       = [ONone; OData [15; 16; 17; 18; 19; 10]]
    /\ spec_run res10 0 ops = [ONone; OData [15; 16; 17; 18; 19]].
Proof. exact old_read_across_eof_junk. Qed.
Print Assumptions C19_old_read_across_eof_refuted.

Theorem C19_old_read0_moves_refuted :
  exists ops, pos_ok res10 0 ops = true
    /\ run_old res10 (fun _ _ => []) 4 2 init ops = [OData []; OPos 10]
    /\ spec_run res10 0 ops = [OData []; OPos 0].
Proof. exact old_read0_moves. Qed.
Print Assumptions C19_old_read0_moves_refuted.

(* keep_chunks >= 1 is necessary for the capacity theorem *)
Theorem C19_keep0_bound_refuted :
  exists ops, run_maxheld res10 (fun _ _ => []) 4 0 init ops > 0.
Proof. exact keep0_bound_fails. Qed.
Print Assumptions C19_keep0_bound_refuted.
