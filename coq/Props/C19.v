(* C19 — remote range-cached access returns the bytes of the resource.
   Property theorems only; each is closed by [exact] of a lemma proved in
   Proofs/C19.v and followed by Print Assumptions. *)
From Coq Require Import ZArith List Bool.
From Verif Require Import Common.ListIdx Model.C19 Proofs.C19.
Import ListNotations.
Open Scope Z_scope.

(* One call of read_range_cached on any cache state reachable so far returns
   exactly res[start : min stop len], whatever the server answers to invalid
   range requests, and keeps the cache correct and within capacity. *)
Theorem C19_range_read_exact :
  forall (res : list Z) (junk : Z -> Z -> list Z) (cs keep : Z),
    0 < cs -> 1 <= keep ->
    forall (start stop : Z) (c : cache),
      Good res cs c -> Bnd keep c -> 0 <= start ->
      exists c', rrc res junk cs keep start stop c
                 = (c', Some (slice res start (Z.min stop (len res))))
                 /\ Good res cs c' /\ Bnd keep c'.
Proof. exact rrc_correct. Qed.
Print Assumptions C19_range_read_exact.

(* Every history of seek/tell/read (any length, any order, reads of any size
   including "to the end") behaves exactly like an in-memory file holding the
   resource: same bytes, same positions, never an error. *)
Theorem C19_history_equals_plain_file :
  forall (res : list Z) (junk : Z -> Z -> list Z) (cs keep : Z),
    0 < cs -> 1 <= keep ->
    forall ops : list op,
      pos_ok res 0 ops = true ->
      snd (run res junk cs keep init ops) = spec_run res 0 ops.
Proof. exact ops_history. Qed.
Print Assumptions C19_history_equals_plain_file.

(* After every operation of every history the number of chunks held is at
   most keep_chunks (no hypothesis on positions is needed). *)
Theorem C19_cache_never_exceeds_capacity :
  forall (res : list Z) (junk : Z -> Z -> list Z) (cs keep : Z),
    1 <= keep ->
    forall (ops : list op) (s : state),
      Bnd keep (chunks s) -> run_maxheld res junk cs keep s ops <= keep.
Proof. exact cache_bounded. Qed.
Print Assumptions C19_cache_never_exceeds_capacity.
