(* C20 — reported feature minima, maxima and means match the data.
   Property theorems only; each is closed by [exact] of a lemma proved in
   Proofs/C20.v and followed by Print Assumptions.
   The model follows writer.py as repaired by 0e55a66 (mean weighted by the
   number of non-NaN values), 7d1f64d (per-writer count validated by the dataset
   size) and 4c79364 (summaries of the values as stored). *)
From Coq Require Import ZArith List Bool.
From Verif Require Import Model.C20 Proofs.C20.
Import ListNotations.
Open Scope Z_scope.

(* ======== theorems about the code (tied by harness/c20.py) ======================== *)

(* For every feature dtype (forced uint32/uint64, or taken from the first array),
   every history of writer instances (several may be alive on one file and write
   in any interleaving; append/replace/reset; any partition into calls; NaN/inf
   and values the dtype cannot hold anywhere; all-NaN batches), copies, files
   written without the writer and files lacking any subset of the summary
   attributes: the stored values are those written since the last replace/reset
   (converted to the dataset's dtype) and the minimum, maximum and mean the
   feature object reports are the NaN-ignoring minimum, maximum and (exact)
   mean of the STORED values.
   The full statement is refuted (known finding C20-two-writers-replace-same-
   size: the per-writer (size, count) cache is validated by the size only); it
   holds under [hist_ok]: a writer in replace mode writes only while no live
   writer that is not in replace mode holds a count for the dataset.
   (For a dataset without events numpy and dclab raise; the model's NaN stands
   for "undefined" there.) *)
Theorem C20_reported_summaries_refuted :
  exists (forced : option dtk) (ops : list op) (d : sdset),
    ds (run forced init ops) = Some d
    /\ ~ mv_eq (rep_mean d) (nanmean_l (d_vals d)).
Proof. exact reported_summaries_refuted. Qed.
Print Assumptions C20_reported_summaries_refuted.

Theorem C20_reported_summaries_partial :
  forall (forced : option dtk) (ops : list op) (d : sdset),
    hist_ok forced init ops = true ->
    ds (run forced init ops) = Some d ->
    spec_vals forced ops = Some (d_dt d, d_vals d)
    /\ rep_min d = nanmin_l (d_vals d)
    /\ rep_max d = nanmax_l (d_vals d)
    /\ mv_eq (rep_mean d) (nanmean_l (d_vals d)).
Proof. exact reported_summaries. Qed.
Print Assumptions C20_reported_summaries_partial.

(* The stored attributes themselves (copied verbatim by rtdc_copy and read by
   every later reader and writer) are right whenever present. *)
Theorem C20_stored_summaries_partial :
  forall (forced : option dtk) (ops : list op) (d : sdset),
    hist_ok forced init ops = true ->
    ds (run forced init ops) = Some d ->
    (forall v, a_min d = Some v -> v = nanmin_l (d_vals d))
    /\ (forall v, a_max d = Some v -> v = nanmax_l (d_vals d))
    /\ (forall m, a_mean d = Some m -> mv_eq m (nanmean_l (d_vals d))).
Proof. exact stored_summaries. Qed.
Print Assumptions C20_stored_summaries_partial.

(* Hierarchy children: after any history of parent filter changes, child
   refreshes and queries (the ChildScalar object caches its array and its
   summaries), a query made once the child has been refreshed after the last
   filter change returns the NaN-ignoring summary of the selected events. *)
Theorem C20_child_fresh_after_refresh :
  forall (vals : list fv) (ops : list hop) (w : Z),
    let s := hrun (hinit vals) ops in
    h_changed s = false ->
    fst (hquery s w) = spec_q (h_filt s) (h_vals s) w.
Proof. exact child_fresh. Qed.
Print Assumptions C20_child_fresh_after_refresh.

(* Features of mapped basins (BasinProxyFeature): for every basin map
   (identity, subset, repeats, permutation, same length touching both ends, ...)
   and every order of reading the data and asking for summaries, min/max/mean
   are the NaN-ignoring summaries of the mapped events. *)
Theorem C20_mapped_basin_history :
  forall (bm : list Z) (vals : list fv) (ops : list hop) (w : Z),
    forallb is_rq ops = true ->
    fst (hquery (hrun (binit bm vals) ops) w) = spec_b bm vals w.
Proof. exact basin_history. Qed.
Print Assumptions C20_mapped_basin_history.

(* ======== arithmetic lemmas (no code counterpart of their own; they are the
   steps of the proofs above and state what any incremental or chunk-wise
   computation of the summaries has to satisfy) ======================================= *)

(* The running extrema are exact for any split of the data. *)
Theorem C20_nanmin_split :
  forall a b : list fv, nanmin_l (a ++ b) = nanmin2 (nanmin_l a) (nanmin_l b).
Proof. exact nanmin_l_app. Qed.
Print Assumptions C20_nanmin_split.

Theorem C20_nanmax_split :
  forall a b : list fv, nanmax_l (a ++ b) = nanmax2 (nanmax_l a) (nanmax_l b).
Proof. exact nanmax_l_app. Qed.
Print Assumptions C20_nanmax_split.

(* The weighted mean update is exact when the weights count non-NaN values. *)
Theorem C20_mean_update_exact :
  forall (a b : list fv) (ma : mv),
    0 < count_valid a -> 0 < count_valid b -> mv_eq ma (nanmean_l a) ->
    mv_eq (mdiv (madd (mscale ma (count_valid a)) (mscale (nanmean_l b) (count_valid b)))
                (count_valid a + count_valid b))
          (nanmean_l (a ++ b)).
Proof. exact mean_update. Qed.
Print Assumptions C20_mean_update_exact.

(* Documents the repaired defect 0e55a66 (DESIGN section 10); tied to nothing:
   the update as written before the repair (weights: offset and data.size)
   is refuted: [1, NaN, NaN] followed by [3] yields 1.5, not 2. *)
Theorem C20_size_weighted_mean_refuted :
  exists old data : list fv,
    ~ mv_eq (old_mean_update (nanmean_l old) old data) (nanmean_l (old ++ data)).
Proof. exact old_mean_refuted. Qed.
Print Assumptions C20_size_weighted_mean_refuted.

(* Chunk-wise reduction over the HDF5 chunks of a dataset (any chunking, any
   distribution of NaN/inf): extrema of chunk extrema and the mean of chunk
   means weighted by the numbers of non-NaN values equal the summaries of the
   data; the unweighted mean of chunk means does not (seeded change C20-5). *)
Theorem C20_chunkwise_min :
  forall chunks : list (list fv), chunk_min chunks = nanmin_l (concat chunks).
Proof. exact chunk_min_ok. Qed.
Print Assumptions C20_chunkwise_min.

Theorem C20_chunkwise_max :
  forall chunks : list (list fv), chunk_max chunks = nanmax_l (concat chunks).
Proof. exact chunk_max_ok. Qed.
Print Assumptions C20_chunkwise_max.

Theorem C20_chunkwise_weighted_mean :
  forall chunks : list (list fv),
    mv_eq (chunk_mean_weighted chunks) (nanmean_l (concat chunks)).
Proof. exact chunk_mean_weighted_ok. Qed.
Print Assumptions C20_chunkwise_weighted_mean.

Theorem C20_chunkwise_unweighted_mean_refuted :
  exists chunks : list (list fv),
    ~ mv_eq (chunk_mean_unweighted chunks) (nanmean_l (concat chunks)).
Proof. exact chunk_mean_unweighted_refuted. Qed.
Print Assumptions C20_chunkwise_unweighted_mean_refuted.

(* Scalar features that are plain numpy arrays (ancillary, temporary, dict and
   tdms formats): .min()/.max() are numpy's NaN-propagating methods, not the
   NaN-ignoring summaries (known finding C20-ndarray-summaries-propagate-nan;
   tied by ndarray_flat). *)
Theorem C20_ndarray_summaries_refuted :
  exists l : list fv, npmin_l l <> nanmin_l l /\ npmax_l l <> nanmax_l l.
Proof. exact ndarray_summaries_refuted. Qed.
Print Assumptions C20_ndarray_summaries_refuted.
