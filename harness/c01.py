"""C01 — data written through the writer API is read back exactly.

Correspondence: histories of RTDCWriter calls (sessions in append / replace /
reset mode, features of every kind split over successive calls, logs, tables,
metadata, several CHUNK_SIZE_BYTES settings) are executed on the real writer;
the file is re-opened with dclab.new_dataset and raw h5py, encoded as a flat
integer list and compared with Model/C01.v:run_flat evaluated by vm_compute.
Property oracle (model independent): an in-memory record of everything that
was passed to the writer, compared with what dclab reads back.
"""
import json
import os

from . import common

PROP = "C01"
RULE = ("histories = sessions (RTDCWriter opened in reset/append/replace mode) "
        "of rounds; in every round each feature of a gen.random_dataset_spec "
        "dataset (float/uint scalars incl. NaN/inf, index, image, image_bg, "
        "mask, contour, trace, user-shaped temporary feature) receives the "
        "same number of events (batch sizes around the HDF5 chunk size 10: "
        "1,2,9,10,11,19,20,21,...), interleaved with store_log (unicode, "
        "over-long lines), store_table, store_metadata and changes of "
        "writer.CHUNK_SIZE_BYTES (1 MiB, 4 KiB, 512 B); replace sessions "
        "rewrite whole features; rare: empty arrays, duplicate tables, "
        "integer-typed first batch of a float feature. non-trivial = at "
        "least two write calls for one feature or an n-d feature spanning "
        "more than one chunk; distinct = different op list")
TRUSTED_BASE = [
    "h5py/HDF5 store what a slice assignment is given (value conversion to "
    "the dataset dtype modelled as truncation+saturation, observed)",
    "not modelled: compression, fletcher32, chunk storage, version branding "
    "string, converter functions of metadata (values are generated in or "
    "next to their documented type and checked by the oracle), the "
    "single-event reshape of user-shaped features (done before the model)",
]
ASSUMPTIONS = [
    "feature/trace/log/table/metadata names come from fixed tables "
    "(harness/c01.py FEATS, TRACES, LOGS, TABLES, META)",
    "balanced histories: every feature receives the same events per round "
    "(the documented use)",
    "n-d data have one item shape per feature; image-like features receive "
    "values of their documented type (uint8, float32-exact); contour lists "
    "are non-empty (an empty list leaves a contour group the reader cannot "
    "open: expected-raise case, not generated); log lines contain no NUL "
    "bytes; uint features receive integral in-range values; n-d data hold "
    "no NaN",
]

FEATS = ["area_um", "aspect", "bright_avg", "contour", "deform", "fl1_max",
         "fl1_npeaks", "fl2_max", "fl3_max", "frame", "image", "image_bg",
         "index", "mask", "pos_x", "qpi_amp", "qpi_oah", "qpi_pha", "time",
         "trace", "userdef1", "userdef2", "vtmp"]
assert FEATS == sorted(FEATS) and len(FEATS) == 23
FID = {n: i for i, n in enumerate(FEATS)}
assert (FID["contour"], FID["fl1_max"], FID["fl1_npeaks"], FID["fl2_max"],
        FID["fl3_max"], FID["frame"], FID["image"], FID["index"], FID["mask"],
        FID["trace"], FID["image_bg"], FID["qpi_amp"], FID["qpi_oah"],
        FID["qpi_pha"], FID["vtmp"]) == (3, 5, 6, 7, 8, 9, 10, 12, 13, 19, 11,
                                         15, 16, 17, 22)
TRACES = ["fl1_median", "fl1_raw", "fl2_median", "fl2_raw", "fl3_median",
          "fl3_raw"]
TID = {n: i for i, n in enumerate(TRACES)}
LOGS = ["log-a", "log-b", "log-c", "log-d"]
TABLES = ["tab-a", "tab-b", "tab-c"]
COLS = ["alpha", "beta", "gamma", "delta"]
META = [("experiment", "event count", int), ("imaging", "roi size x", int),
        ("imaging", "roi size y", int),
        ("fluorescence", "samples per event", int),
        ("fluorescence", "channel count", int),
        ("experiment", "run index", int), ("imaging", "frame rate", float),
        ("setup", "flow rate", float), ("setup", "channel width", float),
        ("fluorescence", "laser count", int),
        # the "user" section is written as it is given
        ("user", "verif number", int), ("user", "verif ratio", float)]
UINT32 = {"fl1_max", "fl1_npeaks", "fl2_max", "fl3_max", "index"}
UINT64 = {"frame"}
SCALARS = [f for f in FEATS if f not in ("contour", "image", "image_bg",
                                         "mask", "trace", "vtmp", "qpi_amp",
                                         "qpi_oah", "qpi_pha")]
VTMP_SHAPE = (2, 3)
QPI_SHAPE = (3, 4)
MODES = ["append", "replace", "reset"]
CSBS = [1024 ** 2, 4096, 512]

FINDING_LOG = "C01-log-truncated"
FINDING_DTYPE = "C01-dtype-frozen"
FINDING_NDDTYPE = "C01-nd-dtype-frozen"


def _np():
    import numpy
    return numpy


def register():
    import dclab
    try:
        dclab.register_temporary_feature("vtmp", is_scalar=False)
    except Exception:
        pass


# --------------------------------------------------------------------------
# value encodings (shared by case construction and observation)
# --------------------------------------------------------------------------
def enc_scalar_array(arr):
    """1-d array -> list of [tag, k] (k in units of 1/8)"""
    np = _np()
    arr = np.asarray(arr)
    out = []
    if arr.dtype.kind in "iub":
        return [[0, 8 * int(v)] for v in arr]
    for v in arr.astype(np.float64):
        if np.isnan(v):
            out.append([1, 0])
        elif v == np.inf:
            out.append([2, 0])
        elif v == -np.inf:
            out.append([3, 0])
        else:
            k = float(v) * 8
            if k != int(k):
                raise ValueError("value %r is not a multiple of 1/8" % v)
            out.append([0, int(k)])
    return out


def dec_scalar_array(vals, isint):
    np = _np()
    if isint:
        return np.array([k // 8 for _, k in vals], dtype=np.int64)
    out = []
    for t, k in vals:
        out.append([k / 8, np.nan, np.inf, -np.inf][t] if t else k / 8)
    return np.array(out, dtype=np.float64)


def enc_rows(arr, scale=1):
    """n-d array (events first) -> list of flattened integer rows"""
    np = _np()
    rows = []
    for ev in arr:
        ev = np.asarray(ev)
        if ev.dtype.kind == "f":
            flat = [float(x) * scale for x in ev.ravel()]
            if any(x != int(x) for x in flat):
                raise ValueError("non-dyadic n-d value")
            rows.append([int(x) for x in flat])
        else:
            rows.append([int(x) * scale for x in ev.ravel()])
    return rows


# dtype codes of arrays / n-d datasets (Model/C01.v:ndt_of): 0 float64,
# 1 uint8, 2 int16, 3 int32, 4 int64, 5 float32, 6 int64 holding values of a
# feature whose model entries are multiples of 1/8
SCALE8 = ("vtmp", "qpi_amp", "qpi_pha")
NP_DTYPES = {0: "float64", 1: "uint8", 2: "int16", 3: "int32", 4: "int64",
             5: "float32", 6: "int64"}
ND_RANGE = {1: (0, 255), 2: (-2 ** 15, 2 ** 15 - 1), 3: (-2 ** 31, 2 ** 31 - 1),
            4: (-2 ** 63, 2 ** 63 - 1), 6: (-2 ** 63, 2 ** 63 - 1)}


def dt_code(v):
    """the dtype field of an n-d op: a legacy item size or 100 + code"""
    if v >= 100:
        return v - 100
    return {1: 1, 2: 2, 4: 5, 8: 0}[v]


def nd_fits(code, v):
    """mirror of Model/C01.v:fits_nd"""
    if code == 0:
        return True
    if code == 5:
        import numpy
        return float(numpy.float32(v / 8)) * 8 == v
    lo, hi = ND_RANGE[code]
    sc = 8 if code == 6 else 1
    q = abs(v) // sc * (1 if v >= 0 else -1)
    return sc * max(lo, min(hi, q)) == v


def forced_nd(name):
    if name in ("image", "image_bg", "mask", "qpi_oah"):
        return 1
    if name in ("qpi_amp", "qpi_pha"):
        return 5
    return None


def h5_dt_code(name, dtype):
    c = {"float64": 0, "uint8": 1, "int16": 2, "int32": 3, "int64": 4,
         "float32": 5}.get(str(dtype), 9)
    return 6 if c == 4 and name in SCALE8 else c


def gen_px(kind, seed, i, j):
    base = i * 31 + j * 17 + seed * 7 + (i * j) % 5
    if kind == 0:
        return base % 256
    if kind == 1:
        return 1 if base % 3 == 0 else 0
    if kind == 2:
        return (base * 13) % 2201 - 200
    if kind == 3:
        return base % 81 - 16
    if kind == 5:
        return (base * 131) % 200001 - 100000
    if kind == 6:
        return 8 * (base % 50)
    if kind == 7:
        return (2 ** 24 + base % 97) * (1 + base % 5) - (base % 3) * 2 ** 26
    return 1 + seed % 255 if base % 3 == 0 else 0


def expand(data):
    """n-d data of an op: explicit rows, or {"gen": [kind, seed, a, b, len]}
    (mirrors Model/C01.v:gen_rows)"""
    if isinstance(data, dict):
        kind, seed, a, b, ln = data["gen"]
        return [[gen_px(kind, seed, i, j) for j in range(ln)]
                for i in range(a, b)]
    return data


def digest(rows):
    h = 7
    for r in rows:
        h = (h * 131 + len(r)) % 2147483647
        for v in r:
            h = (h * 131 + v + 1000) % 2147483647
    return [len(rows), h]


class Gen:
    """placeholder for generated n-d data of a feature: (kind, seed, rowlen)"""

    def __init__(self, kind, seed, rowlen):
        self.kind, self.seed, self.rowlen = kind, seed, rowlen

    def desc(self, a, b):
        return {"gen": [self.kind, self.seed, a, b, self.rowlen]}


# --------------------------------------------------------------------------
# case generation
# --------------------------------------------------------------------------
BATCHES = [1, 1, 2, 3, 5, 9, 10, 11, 19, 20, 21, 7]


def composition(rng, n):
    """a random composition of n into batch sizes"""
    parts = []
    left = n
    while left > 0:
        b = min(left, rng.choice(BATCHES))
        parts.append(b)
        left -= b
    return parts


def rand_line(rng, maxlen=60):
    alphabet = "abcdefghij KLMNO0123456789_-:;{}\"'äöüßéλ→漢字😀"
    k = rng.randint(0, maxlen)
    return "".join(rng.choice(alphabet) for _ in range(k))


def rand_lines(rng, long_first=False, overlong=False):
    lines = [rand_line(rng) for _ in range(rng.randint(1, 4))]
    if long_first:
        lines.append("L" * rng.randint(101, 180) + rng.choice(["", "é"]))
    if overlong:
        lines.insert(rng.randint(0, len(lines)),
                     rng.choice(["x", "é", "漢"]) * rng.randint(101, 160))
    if rng.random() < 0.1:
        lines.append("y" * rng.choice([99, 100]))
    return lines


def feature_ops(np, rng, feats, a, b, int_first=(), partial_trace=False):
    """store_feature ops for events [a:b) of every feature, random order;
    the traces are stored by one or several calls with disjoint sets of trace
    names (partial_trace: only a random non-empty subset of the names)"""
    from . import gen
    ops = []
    names = list(feats)
    rng.shuffle(names)
    for name in names:
        data = feats[name]
        if name == "contour":
            ops.append(["contour", [[int(x) for x in c.ravel()]
                                    for c in data[a:b]]])
        elif name == "trace":
            keys = list(data.keys())
            rng.shuffle(keys)
            if partial_trace:
                keys = keys[:rng.randint(1, len(keys))]
            ngroups = rng.randint(1, len(keys))
            cuts = sorted(rng.sample(range(1, len(keys)), ngroups - 1))
            for g0, g1 in zip([0] + cuts, cuts + [len(keys)]):
                op = ["trace", [gen.TRACE_LEN], 2,
                      [[TID[k], data[k].desc(a, b)] for k in keys[g0:g1]]]
                # later groups go anywhere among the calls made so far
                ops.insert(rng.randint(0, len(ops)) if g0 else len(ops), op)
        elif name in ("image", "image_bg", "mask"):
            isbool = int(name == "mask" and data.kind == 1)
            if b - a == 1 and rng.random() < 0.5:
                # a single event given as a 2-d array
                ops.append(["arr", FID[name], isbool, list(gen.IMG_SHAPE),
                            list(gen.IMG_SHAPE), 1, data.desc(a, b)])
            else:
                ops.append(["image", FID[name], isbool, list(gen.IMG_SHAPE),
                            1, data.desc(a, b)])
        elif name in ("vtmp", "qpi_amp", "qpi_oah", "qpi_pha"):
            shape = list(VTMP_SHAPE if name == "vtmp" else QPI_SHAPE)
            isz = {"vtmp": 8, "qpi_oah": 1}.get(name, rng.choice([4, 8]))
            if data.kind == 7:
                isz = 8
            if b - a == 1 and rng.random() < 0.6:
                dshape = shape       # shape == data.shape: one event
            else:
                dshape = [b - a] + shape
            ops.append(["arr", FID[name], 0, shape, dshape, isz,
                        data.desc(a, b)])
        else:
            part = data[a:b]
            isint = part.dtype.kind in "iu"
            ops.append(["scalar", FID[name], int(isint),
                        enc_scalar_array(part)])
    return ops


ALLKINDS = ["scalar", "uint", "image", "image_bg", "mask", "contour", "trace"]
ALLEXTRA = ["index", "vtmp", "fl2_max", "userdef2", "uintmask", "qpi_amp",
            "qpi_oah", "qpi_pha"]


def make_features(np, rng, n, kinds, special, extra, names=None):
    """a gen.random_dataset_spec dataset plus the kinds gen does not know;
    with `names`: new data for exactly these features"""
    from . import gen
    if names is not None:
        full = make_features(np, rng, n, ALLKINDS, special,
                             [e for e in ALLEXTRA if e != "uintmask" or
                              "uintmask" in extra] +
                             (["intscalar"] if "intscalar" in extra else []) +
                             [e for e in extra if e.startswith("tr:")] +
                             (["lateonly"] if "lateonly" in extra else []) +
                             (["qpi_big"] if "qpi_big" in extra else []),
                             None)
        for name in names:
            if name not in full and name in ("fl1_max", "fl1_npeaks"):
                full[name] = np.array([rng.randint(0, 3000) for _ in range(n)],
                                      dtype=np.uint32)
            if name not in full and name == "frame":
                full[name] = np.cumsum([rng.randint(1, 4) for _ in range(n)]
                                       ).astype(np.uint64)
        return {name: full[name] for name in names}
    spec = gen.random_dataset_spec(
        rng, n, kinds=kinds, special=special,
        nscalars=(len(gen.FLOAT_SCALARS) if kinds is ALLKINDS else None))
    feats = {k: v for k, v in spec["features"].items() if k in FID}
    if "lateonly" in extra:
        # only features that sort behind "trace" (or the traces alone): the
        # event count then comes from the first trace dataset
        late = {k: v for k, v in feats.items() if k in ("trace", "userdef1",
                                                        "userdef2")}
        if "trace" in late:
            feats = late
    if not any(f in feats for f in ("area_um", "aspect", "bright_avg",
                                    "deform", "trace")):
        feats["deform"] = gen.dyadic(rng, n, 0, 80)
    if "index" in extra:
        feats["index"] = np.zeros(n, dtype=np.int64) + 7
    npx = gen.IMG_SHAPE[0] * gen.IMG_SHAPE[1]
    for name in ("image", "image_bg"):
        if name in feats:
            feats[name] = Gen(0, rng.randint(0, 999), npx)
    if "mask" in feats:
        feats["mask"] = Gen(4 if "uintmask" in extra else 1,
                            rng.randint(0, 999), npx)
    if "trace" in feats:
        tkeys = list(feats["trace"]) + [e[3:] for e in extra
                                        if e.startswith("tr:")]
        feats["trace"] = {k: Gen(2, rng.randint(0, 999), gen.TRACE_LEN)
                          for k in tkeys}
    if "vtmp" in extra:
        feats["vtmp"] = Gen(3, rng.randint(0, 999),
                            VTMP_SHAPE[0] * VTMP_SHAPE[1])
    for name in ("qpi_amp", "qpi_pha"):
        if name in extra:
            # kind 7: values beyond float32's 24 significant bits (rounded
            # by the float32 dataset; given as float64 arrays)
            feats[name] = Gen(7 if "qpi_big" in extra else 3,
                              rng.randint(0, 999),
                              QPI_SHAPE[0] * QPI_SHAPE[1])
    if "qpi_oah" in extra:
        feats["qpi_oah"] = Gen(0, rng.randint(0, 999),
                               QPI_SHAPE[0] * QPI_SHAPE[1])
    if "fl2_max" in extra:
        feats["fl2_max"] = np.array([rng.choice([0, 1, 2 ** 32 - 1,
                                                 rng.randint(0, 70000)])
                                     for _ in range(n)], dtype=np.int64)
    if "userdef2" in extra:
        feats["userdef2"] = gen.inject_special(rng, gen.dyadic(rng, n, 0, 4000),
                                             0.3, 0.1)
    if "intscalar" in extra:
        # an integer-typed array for a float feature (all batches)
        feats["userdef1"] = np.array([rng.randint(-5, 500) for _ in range(n)],
                                     dtype=np.int64)
    return feats


def gen_case(rng, thorough=False):
    np = _np()
    from . import gen
    ops = []
    allkinds = ["scalar", "uint", "image", "image_bg", "mask", "contour",
                "trace"]
    kinds = ["scalar"] + [k for k in allkinds[1:] if rng.random() < 0.45]
    extra = [e for e in ("index", "vtmp", "fl2_max", "userdef2", "uintmask")
             if rng.random() < 0.3]
    extra += [e for e in ("qpi_amp", "qpi_oah", "qpi_pha")
              if rng.random() < 0.15]
    if rng.random() < 0.4:
        extra.append("qpi_big")
    extra += ["tr:" + t for t in ("fl2_raw", "fl2_median", "fl3_raw")
              if rng.random() < 0.4]
    if "trace" in kinds and rng.random() < 0.3:
        extra.append("lateonly")
    if rng.random() < 0.12:
        extra.append("intscalar")
    special = rng.random() < 0.6
    int_first = rng.random() < 0.06      # -> C01-dtype-frozen
    # n-d data in another dtype than the one frozen by the first array
    trace_wide = rng.random() < 0.06     # int32 beyond int16 -> C01-nd-dtype-frozen
    trace_i32 = rng.random() < 0.12      # int32 arrays with int16 values: fine
    vtmp_intfirst = rng.random() < 0.1   # int64 first, fractions later -> finding
    trace_i32_first = rng.random() < 0.12  # int32 traces from the start (wide values)
    overlong = rng.random() < 0.08       # -> C01-log-truncated
    nsessions = rng.choice([1, 1, 2, 2, 3, 4])
    total = 0
    feats = None
    first = True
    for si in range(nsessions):
        if first:
            mode = rng.choice([2, 2, 0, 1])
        else:
            mode = rng.choice([0, 0, 0, 1, 1, 2])
        if rng.random() < 0.5:
            ops.append(["config", rng.choice(CSBS)])
        ops.append(["open", mode])
        if mode == 2 or first:
            total = 0
            ops.append(["meta", "base", rand_meta(rng, True)])
        elif rng.random() < 0.3:
            ops.append(["meta", "", rand_meta(rng, False)])
        if mode == 1 and total > 0:
            # replace whole features by new data of the same length; the same
            # writer instance may replace a feature several times (the
            # contour group is then deleted and re-created under the same
            # HDF5 path while the instance still holds its size cache)
            for rep in range(rng.choice([1, 1, 2, 2, 3])):
                new = make_features(np, rng, total, kinds, special, extra,
                                    list(feats))
                sel = [f for f in new if f in feats and rng.random() < 0.7]
                sub = {f: new[f] for f in sel}
                ops += feature_ops(np, rng, sub, 0, total,
                                   partial_trace=rng.random() < 0.5)
                if rng.random() < 0.5:
                    ops.append(["log", rng.randrange(len(LOGS)),
                                rand_lines(rng)])
        else:
            n = rng.choice([1, 2, 9, 10, 11, 12, 20, 21, 23, 30, 31, 41]
                           if not thorough else
                           [1, 2, 9, 10, 11, 20, 21, 30, 45, 64, 99, 100, 101])
            if total == 0:
                feats = make_features(np, rng, n, kinds, special, extra)
                cur = feats
            else:
                cur = make_features(np, rng, n, kinds, special, extra,
                                    list(feats))
            start = 0
            parts = composition(rng, n)
            for pi, b in enumerate(parts):
                if rng.random() < 0.15:
                    ops.append(["config", rng.choice(CSBS)])
                fops = feature_ops(np, rng, cur, start, start + b)
                if int_first and total == 0 and pi == 0:
                    # integer-typed first batch of a float feature; the later
                    # batches hold fractional values
                    for o in fops:
                        if o[0] == "scalar" and FEATS[o[1]] not in UINT32 | \
                                UINT64 and o[2] == 0:
                            o[2] = 1
                            o[3] = [[0, 8 * rng.randint(-3, 90)] for _ in o[3]]
                            break
                for o in fops:
                    later = total > 0 or pi > 0
                    if o[0] == "trace" and trace_i32_first:
                        o[2] = 103
                        for ent in o[3]:
                            if isinstance(ent[1], dict):
                                ent[1]["gen"][0] = 5
                    elif o[0] == "trace" and later and (trace_wide or
                                                        trace_i32):
                        o[2] = 103
                        if trace_wide:
                            for ent in o[3]:
                                if isinstance(ent[1], dict):
                                    ent[1]["gen"][0] = 5
                    if o[0] == "arr" and FEATS[o[1]] == "vtmp" and \
                            vtmp_intfirst and not later and \
                            isinstance(o[6], dict):
                        o[5] = 106
                        o[6]["gen"][0] = 6
                # interleave logs, tables, metadata
                for _ in range(rng.choice([0, 0, 1, 2])):
                    fops.insert(rng.randint(0, len(fops)), rand_side_op(
                        rng, overlong and (pi > 0 or si > 0)))
                if rng.random() < 0.04 and mode != 1 and "vtmp" in cur:
                    # neither shape == data.shape nor shape == data.shape[1:]
                    fops.insert(rng.randint(0, len(fops)),
                                ["arr", FID["vtmp"], 0, list(VTMP_SHAPE),
                                 [2, 3, 2], 8, {"gen": [3, 1, 0, 2, 6]}])
                if rng.random() < 0.04 and mode != 1:
                    fops.insert(rng.randint(0, len(fops)),
                                ["scalar", FID[rng.choice(
                                    ["deform", "index", "area_um"])], 0, []])
                ops += fops
                start += b
            # a replace-mode session on a new file: every round replaces the
            # previous one (create, then delete + re-create in one instance)
            total = parts[-1] if mode == 1 else total + n
        ops.append(["close"])
        first = False
    flags = [n for n, v in (("int-first scalar", int_first),
                            ("over-long log line", overlong),
                            ("trace int32 beyond int16", trace_wide),
                            ("trace int32 in range", trace_i32),
                            ("trace int32 from the start", trace_i32_first),
                            ("user-shaped int64 first", vtmp_intfirst),
                            ("qpi beyond float32", "qpi_big" in extra and any(
                                e in extra for e in ("qpi_amp", "qpi_pha"))),
                            ("trace group is the first feature",
                             "lateonly" in extra)) if v]
    return dict(ops=ops, flags=flags)


def rand_side_op(rng, overlong):
    r = rng.random()
    if r < 0.04:
        return ["log", rng.randrange(len(LOGS)), []]      # a log without lines
    if r < 0.55:
        return ["log", rng.randrange(len(LOGS)),
                rand_lines(rng, long_first=rng.random() < 0.15,
                           overlong=overlong)]
    if r < 0.8:
        ncol = rng.randint(1, len(COLS))
        nrow = rng.randint(1, 5)
        cols = rng.sample(range(len(COLS)), ncol)
        return ["table", rng.randrange(len(TABLES)), cols,
                [[rng.choice([rng.randint(-400, 400), 8 * rng.randint(-9, 9)])
                  for _ in cols] for _ in range(nrow)],
                rng.choice([0, 0, 1, 2])]
    return ["meta", "", rand_meta(rng, False)]


def rand_meta(rng, base):
    """list of [key id, value (ints; floats as multiples of 1/8 times 8),
    form]; form 1 = pass an int for a float key / a str for an int key"""
    kvs = []
    for k in range(5, len(META)):
        if rng.random() < (0.5 if base else 0.3):
            big = False
            if META[k][2] is int:
                v = rng.randint(0, 30)
                if rng.random() < 0.3:
                    # integers a float64 cannot hold: they must come back exactly
                    big = True
                    v = rng.choice([2 ** 53 + 1, 2 ** 62 + 3, -(2 ** 53) - 1,
                                    2 ** 63 - 1, 2 ** 63 - 2 - rng.randint(0, 9),
                                    2 ** 53 + 2 * rng.randint(1, 99) + 1])
            else:
                v = rng.choice([8 * rng.randint(1, 3000), rng.randint(1, 900)])
            # form 1: a str for an int key / an int for a float key (small
            # values only: a string goes through float); form 2: numpy int64
            form = rng.choice([0, 2]) if big else (
                0 if META[k][0] == "user" else rng.choice([0, 0, 1]))
            kvs.append([k, v, form])
    if not base and rng.random() < 0.15:
        kvs.append([4, rng.randint(1, 3), 0])
    if base and rng.random() < 0.5:
        # wrong or missing values for the keys rectify_metadata completes
        # from the stored images / traces (form 9: the key is left out)
        r = rng.random()
        for k in (1, 2):
            kvs.append([k, rng.randint(50, 99), 0] if r < 0.5 else [k, 0, 9])
    if base and rng.random() < 0.5:
        kvs.append([3, rng.randint(2, 40), 0] if rng.random() < 0.5
                   else [3, 0, 9])
    return kvs


# --------------------------------------------------------------------------
# running the implementation
# --------------------------------------------------------------------------
def meta_dict(kind, kvs):
    from . import gen
    with_fl = True
    meta = gen.base_meta(with_fl=with_fl) if kind == "base" else {}
    if kind == "base":
        # keys this check observes are given explicitly below or left out
        meta["fluorescence"].pop("channel count", None)
        meta["fluorescence"].pop("laser count", None)
    for k, v, form in kvs:
        sec, key, typ = META[k]
        if form == 9:
            meta.get(sec, {}).pop(key, None)
            continue
        if typ is int:
            val = str(v) if form == 1 else int(v)
            if form == 2:
                import numpy
                val = numpy.int64(v)
        else:
            val = v / 8
            if form and val == int(val):
                val = int(val)
        meta.setdefault(sec, {})[key] = val
    return meta


def model_meta(kind, kvs):
    """what the model is told: the observed keys of the dict passed"""
    md = meta_dict(kind, kvs)
    out = []
    for k, (sec, key, typ) in enumerate(META):
        if sec in md and key in md[sec]:
            v = md[sec][key]
            out.append([k, int(v) if typ is int else int(float(v) * 8)])
    return out


class Expect:
    """In-memory record of what was passed to the writer (property oracle)."""

    def __init__(self):
        self.reset()
        self.mode = 0

    def reset(self):
        self.feat = {}       # name -> list of events
        self.isint = {}
        self.trace = {}
        self.logs = {}
        self.tables = {}
        self.meta = {}
        self.meta_all = {}   # (section, key) -> value as passed
        self.tabdt = {}      # table -> column dtypes of a recarray
        self.index = 0

    def put(self, store, key, events):
        if self.mode == 1:
            store[key] = list(events)
        else:
            store.setdefault(key, []).extend(events)
        if not store[key]:
            del store[key]


def run_impl(case, scratch, keep=False):
    """Execute the history on the real writer, observe the file.
    Returns (flat, failures [(key, desc)], info)"""
    np = _np()
    import h5py
    import dclab
    from dclab.rtdc_dataset import writer as W
    register()
    path = os.path.join(scratch, "c01-%d-%d.rtdc" % (os.getpid(),
                                                      id(case) % 100000))
    if os.path.exists(path):
        os.unlink(path)
    old_csb = W.CHUNK_SIZE_BYTES
    hw = None
    errs = []
    exp = Expect()
    import random as _random
    form_rng = _random.Random(len(case["ops"]) * 7919 + 13)
    info = dict(calls={}, maxrows=0)
    try:
        for o in case["ops"]:
            kind = o[0]
            err = 0
            try:
                if kind == "config":
                    W.CHUNK_SIZE_BYTES = o[1]
                elif kind == "open":
                    hw = W.RTDCWriter(path, mode=MODES[o[1]])
                    exp.mode = o[1]
                    if o[1] == 2:
                        exp.reset()
                elif kind == "close":
                    hw.__exit__(None, None, None)
                    hw = None
                elif kind == "scalar":
                    name = FEATS[o[1]]
                    data = dec_scalar_array(o[3], o[2])
                    if name in UINT32 and o[2] and len(data) % 2 == 0 and \
                            all(k < 8 * 2 ** 32 for _, k in o[3]):
                        data = data.astype(np.uint32)
                    if name in UINT64 and o[2] and len(data) % 2 == 0:
                        data = data.astype(np.uint64)
                    info["calls"][name] = info["calls"].get(name, 0) + 1
                    if name == "index":
                        if exp.mode == 1:
                            exp.index = 0
                        exp.index += len(data)
                    else:
                        exp.put(exp.feat, name, list(data))
                    fr = form_rng.random()
                    if len(data) == 1 and name != "index" and fr < 0.3:
                        hw.store_feature(name, data[0])        # a 0-d value
                        info["forms"] = info.get("forms", 0) + 1
                    elif name != "index" and fr < 0.45 and \
                            data.dtype in (np.float64, np.int64):
                        hw.store_feature(name, data.tolist())  # a list
                        info["forms"] = info.get("forms", 0) + 1
                    else:
                        hw.store_feature(name, data)
                elif kind == "image":
                    name = FEATS[o[1]]
                    shape = tuple(o[3])
                    rows = expand(o[5])
                    if name == "vtmp":
                        data = (np.array(rows, dtype=np.float64) / 8).reshape(
                            (len(rows),) + shape)
                    else:
                        data = np.array(rows, dtype=np.uint8).reshape(
                            (len(rows),) + shape)
                        if o[2]:
                            data = data.astype(bool)
                    info["calls"][name] = info["calls"].get(name, 0) + 1
                    info["maxrows"] = max(info["maxrows"], len(data))
                    if name == "mask":
                        exp.put(exp.feat, name, list(data != 0))
                    else:
                        exp.put(exp.feat, name, list(data))
                    if name == "vtmp":
                        if len(data) == 1:
                            # the single-event form: shape == data.shape
                            hw.store_feature(name, data[0], shape=shape)
                        else:
                            hw.store_feature(name, data, shape=shape)
                    elif len(data) and form_rng.random() < 0.25:
                        # a list (or tuple) of 2-d images
                        seq = [np.array(x) for x in data]
                        hw.store_feature(name, seq if form_rng.random() < 0.5
                                         else tuple(seq))
                        info["listimg"] = info.get("listimg", 0) + 1
                    else:
                        hw.store_feature(name, data)
                elif kind == "arr":
                    name = FEATS[o[1]]
                    shape, dshape, isz = tuple(o[3]), tuple(o[4]), o[5]
                    rows = expand(o[6])
                    flat = np.array([v for r in rows for v in r])
                    code = dt_code(isz)
                    if name in SCALE8:
                        arr = (flat / 8).astype(NP_DTYPES[code])
                    else:
                        arr = flat.astype(NP_DTYPES[code])
                        if o[2]:
                            arr = arr.astype(bool)
                    arr = arr.reshape(dshape)
                    item = shape if name == "vtmp" else (
                        gen_img_shape() if name in ("image", "image_bg",
                                                    "mask") else QPI_SHAPE)
                    info["calls"][name] = info["calls"].get(name, 0) + 1
                    good = dshape == tuple(item) or dshape[1:] == tuple(item)
                    if good:
                        events = list(arr.reshape((-1,) + tuple(item)))
                        if name in ("qpi_amp", "qpi_pha"):
                            # float32 is the documented type of the feature
                            events = [e.astype(np.float32) for e in events]
                        if name == "mask":
                            events = [e != 0 for e in events]
                        exp.put(exp.feat, name, events)
                        info["single"] = info.get("single", 0) + int(
                            dshape == tuple(item))
                    if name == "vtmp":
                        hw.store_feature(name, arr, shape=shape)
                    else:
                        hw.store_feature(name, arr)
                elif kind == "contour":
                    data = [np.array(c, dtype=np.int32).reshape(-1, 2)
                            for c in o[1]]
                    info["calls"]["contour"] = info["calls"].get(
                        "contour", 0) + 1
                    exp.put(exp.feat, "contour", data)
                    if len(data) == 1 and form_rng.random() < 0.5:
                        # a single contour given as a 2-d array
                        hw.store_feature("contour", data[0])
                        info["forms"] = info.get("forms", 0) + 1
                    else:
                        hw.store_feature("contour", data)
                elif kind == "trace":
                    data = {}
                    for tr, rows in o[3]:
                        rows = expand(rows)
                        data[TRACES[tr]] = np.array(
                            rows, dtype=NP_DTYPES[dt_code(o[2])]).reshape(
                                len(rows), o[1][0])
                    info["calls"]["trace"] = info["calls"].get("trace", 0) + 1
                    for tr, arr in data.items():
                        if not len(arr):
                            break
                        exp.put(exp.trace, tr, list(arr))
                    hw.store_feature("trace", data)
                elif kind == "log":
                    name = LOGS[o[1]]
                    exp.put(exp.logs, name, o[2])
                    fr = form_rng.random()
                    if len(o[2]) == 1 and fr < 0.3:
                        hw.store_log(name, o[2][0])            # a str
                        info["forms"] = info.get("forms", 0) + 1
                    elif len(o[2]) == 1 and fr < 0.5:
                        hw.store_log(name, o[2][0].encode())   # bytes
                        info["forms"] = info.get("forms", 0) + 1
                    elif fr < 0.65:
                        hw.store_log(name, [ln.encode() for ln in o[2]])
                    else:
                        hw.store_log(name, list(o[2]))
                elif kind == "table":
                    name = TABLES[o[1]]
                    tab = {COLS[c]: [r[j] / 8 for r in o[3]]
                           for j, c in enumerate(o[2])}
                    created = name not in exp.tables
                    if created:
                        exp.tables[name] = tab
                        exp.tabdt.pop(name, None)
                    if len(o) > 4 and o[4]:
                        # the same table as a np.recarray (written as-is);
                        # form 2: int32 / float32 columns keep their dtype
                        dts = []
                        for j, v in enumerate(tab.values()):
                            if o[4] == 2 and all(float(x).is_integer()
                                                 for x in v):
                                dts.append(np.int32)
                            elif o[4] == 2 and j % 2:
                                dts.append(np.float32)
                            else:
                                dts.append(np.float64)
                        if created:
                            exp.tabdt[name] = [np.dtype(d) for d in dts]
                        tab = np.rec.fromarrays(
                            [np.array(v, dtype=d) for v, d in
                             zip(tab.values(), dts)], names=list(tab.keys()))
                    hw.store_table(name, tab)
                elif kind == "meta":
                    md = meta_dict(o[1], o[2])
                    for k, (sec, key, typ) in enumerate(META):
                        if sec in md and key in md[sec]:
                            exp.meta[k] = typ(md[sec][key])
                    for sec in md:
                        for key, val in md[sec].items():
                            exp.meta_all[(sec, key)] = val
                    hw.store_metadata(md)
            except ValueError:
                err = 1
            errs.append(err)
        if hw is not None:
            hw.__exit__(None, None, None)
            hw = None
    finally:
        W.CHUNK_SIZE_BYTES = old_csb
        if hw is not None:
            try:
                hw.close()
            except Exception:
                pass
    flat = []
    failures = []
    try:
        with h5py.File(path, "r") as h5:
            flat = observe_raw(np, h5)
        flat += [-10] + errs
        failures = oracle(np, dclab, path, exp)
    finally:
        if not keep and os.path.exists(path):
            os.unlink(path)
    return flat, failures, info


def gen_img_shape():
    from . import gen
    return tuple(gen.IMG_SHAPE)


def rows_flat(rows):
    out = [len(rows)]
    for r in rows:
        out.append(len(r))
        out += r
    return out


def observe_raw(np, h5):
    """The flat encoding of Model/C01.v:obs_flat from the file itself."""
    from dclab.rtdc_dataset.fmt_hdf5.events import H5MaskEvent
    out = []
    ev = h5["events"] if "events" in h5 else {}
    for name in FEATS:
        if name not in ev:
            out.append(0)
            continue
        obj = ev[name]
        if name == "contour":
            n = len(obj)
            out += [1, n]
            for k in range(n):
                if str(k) in obj:
                    c = [int(x) for x in obj[str(k)][:].ravel()]
                    out += [len(c)] + c
                else:
                    out.append(-1)
        elif name == "trace":
            out.append(1)
            for tr in TRACES:
                if tr in obj:
                    out += [1, h5_dt_code("trace", obj[tr].dtype)] + digest(
                        enc_rows(obj[tr][:]))
                else:
                    out.append(0)
        elif obj.ndim == 1:
            code = {"float64": 0, "int64": 1, "uint32": 2,
                    "uint64": 3}.get(str(obj.dtype), 9)
            vals = enc_scalar_array(obj[:])
            out += [1, code, len(vals)]
            for t, k in vals:
                out += [t, k]
        else:
            if name == "mask":
                rows = enc_rows(H5MaskEvent(obj)[:].astype(np.uint8))
            elif obj.dtype.kind == "f" or name in SCALE8:
                rows = enc_rows(obj[:], scale=8)
            else:
                rows = enc_rows(obj[:])
            out += [2, h5_dt_code(name, obj.dtype)] + digest(rows)
    out.append(-7)
    lg = h5["logs"] if "logs" in h5 else {}
    for name in LOGS:
        if name in lg and lg[name].size:
            out += [1] + rows_flat([list(bytes(b)) for b in lg[name]])
        else:
            out.append(0)
    out.append(-8)
    tb = h5["tables"] if "tables" in h5 else {}
    for name in TABLES:
        if name in tb:
            arr = tb[name][:].ravel()
            cols = [COLS.index(c) for c in arr.dtype.names]
            rows = [[int(float(arr[c][i]) * 8) for c in arr.dtype.names]
                    for i in range(len(arr))]
            out += [1, len(cols)] + cols + rows_flat(rows)
        else:
            out.append(0)
    out.append(-9)
    for sec, key, typ in META:
        ak = "%s:%s" % (sec, key)
        if ak in h5.attrs:
            v = h5.attrs[ak]
            out += [1, int(v) if typ is int else int(float(v) * 8)]
        else:
            out.append(0)
    return out


def oracle(np, dclab, path, exp):
    """What dclab reads back vs. what was passed to the writer."""
    from . import gen
    fails = []
    want_feats = dict(exp.feat)
    if exp.trace:
        want_feats["trace"] = exp.trace
    if exp.index:
        want_feats["index"] = None
    lengths = set(len(v) for k, v in exp.feat.items())
    lengths |= set(len(v) for v in exp.trace.values())
    if exp.index:
        lengths.add(exp.index)
    n = lengths.pop() if len(lengths) == 1 else None
    try:
        ds = dclab.new_dataset(path)
    except BaseException as e:
        return [("open", "dclab.new_dataset raised %r" % (e,))]
    with ds:
        got = sorted(ds.features_innate)
        if got != sorted(want_feats):
            fails.append(("features", "features read back %s, written %s" % (
                got, sorted(want_feats))))
        if n is not None and not exp.index:
            # the index feature is then computed: it enumerates as well
            try:
                if list(ds["index"][:]) != list(range(1, n + 1)):
                    fails.append(("index", "computed index is not 1..%d" % n))
            except BaseException as e:
                fails.append(("index", "ds['index'] raised %r" % (e,)))
        if n is not None and len(ds) != n:
            fails.append(("len", "len(ds) = %d, %d events were written" % (
                len(ds), n)))
        for name, events in want_feats.items():
            if name not in got:
                continue
            try:
                if name == "index":
                    arr = ds["index"][:]
                    if list(arr) != list(range(1, exp.index + 1)):
                        fails.append(("index", "index is %s..., expected 1..%d"
                                      % (list(arr[:5]), exp.index)))
                    continue
                if name == "trace":
                    d = gen.feature_equal(
                        ds["trace"], {k: np.array(v) for k, v in
                                      events.items()})
                    if d and d.startswith("trace ") and d.endswith(" differs"):
                        # one trace differs: the failure is that of this trace
                        fails.append(("feature:trace:" + d.split()[1],
                                      "feature trace: " + d))
                        continue
                elif name == "contour":
                    d = gen.feature_equal(ds["contour"], events)
                    if d is None:
                        cobj = ds["contour"]
                        nn = len(events)
                        for kk in sorted({0, nn // 2, nn - 1}):
                            if not gen.arr_equal(cobj[kk], events[kk]):
                                d = "contour[%d] differs" % kk
                            if not gen.arr_equal(cobj[kk - nn], events[kk]):
                                d = "contour[%d] (negative index) differs" % (
                                    kk - nn)
                        it = list(cobj)
                        if len(it) != nn or any(
                                not gen.arr_equal(x, y)
                                for x, y in zip(it, events)):
                            d = "iterating over the contours differs"
                else:
                    want = np.array(events)
                    d = gen.feature_equal(ds[name], want)
                    if d is None and name in SCALARS:
                        dt = ds[name][:].dtype
                        if name in UINT32 and dt != np.uint32:
                            d = "dtype %s, documented uint32" % dt
                        if name in UINT64 and dt != np.uint64:
                            d = "dtype %s, documented uint64" % dt
                    if d is None and name == "mask" and \
                            ds["mask"][0].dtype != bool:
                        d = "mask is not boolean"
                    # the same through raw h5py
                    if d is None and name != "mask":
                        raw = ds.h5file["events"][name][:]
                        if not gen.arr_equal(raw, want):
                            d = "raw h5py data differ from what dclab returns"
            except BaseException as e:
                d = "reading raised %r" % (e,)
            if d:
                fails.append(("feature:" + name, "feature %s: %s" % (name, d)))
        try:
            lognames = sorted(ds.logs.keys())
        except BaseException as e:
            lognames = []
            fails.append(("logs", "logs.keys raised %r" % (e,)))
        if lognames != sorted(exp.logs):
            fails.append(("logs", "logs read back %s, written %s" % (
                lognames, sorted(exp.logs))))
        for name, lines in exp.logs.items():
            if name not in lognames:
                continue
            try:
                gotl = list(ds.logs[name])
                d = None
                if gotl != list(lines):
                    bad = [i for i in range(min(len(gotl), len(lines)))
                           if gotl[i] != lines[i]]
                    d = "%d lines read, %d written; first differing line %s" % (
                        len(gotl), len(lines), bad[:1])
                    if bad:
                        d += " (%d -> %d bytes)" % (
                            len(lines[bad[0]].encode()),
                            len(gotl[bad[0]].encode()))
            except UnicodeDecodeError as e:
                d = "reading raised UnicodeDecodeError (%s)" % e.reason
            except BaseException as e:
                d = "reading raised %r" % (e,)
            if d:
                fails.append(("log:" + name, "log %s: %s" % (name, d)))
        try:
            tabnames = sorted(ds.tables.keys())
        except BaseException as e:
            tabnames = []
        if tabnames != sorted(exp.tables):
            fails.append(("tables", "tables read back %s, written %s" % (
                tabnames, sorted(exp.tables))))
        for name, tab in exp.tables.items():
            if name not in tabnames:
                continue
            arr = gen.table_array(ds.tables[name]).ravel()
            if list(arr.dtype.names) != list(tab.keys()):
                fails.append(("table:" + name, "table %s columns %s, written "
                              "%s" % (name, arr.dtype.names, list(tab))))
                continue
            if name in exp.tabdt and [arr.dtype[c] for c in tab] != \
                    exp.tabdt[name]:
                fails.append(("table:" + name, "table %s: column dtypes %s, "
                              "the recarray had %s" % (
                                  name, [str(arr.dtype[c]) for c in tab],
                                  [str(d) for d in exp.tabdt[name]])))
            for c in tab:
                if not gen.arr_equal(arr[c], np.array(tab[c], dtype=float)):
                    fails.append(("table:" + name, "table %s column %s "
                                  "differs" % (name, c)))
        for k, v in exp.meta.items():
            sec, key, typ = META[k]
            if k <= 4:
                continue   # auto-completed keys are checked below
            have = ds.config[sec].get(key)
            if have is None or have != v or not isinstance(
                    have, (typ, np.integer if typ is int else np.floating)) \
                    or isinstance(have, bool):
                fails.append(("meta:%s:%s" % (sec, key),
                              "metadata %s:%s read back %r (%s), written %r "
                              "(documented type %s)" % (
                                  sec, key, have, type(have).__name__, v,
                                  typ.__name__)))
        # every other key given to store_metadata (strings, floats, ints)
        mine = set((sec, key) for sec, key, _ in META)
        auto = {("experiment", "event count"), ("imaging", "roi size x"),
                ("imaging", "roi size y"),
                ("fluorescence", "samples per event"),
                ("fluorescence", "channel count"),
                ("setup", "software version")}
        for (sec, key), v in exp.meta_all.items():
            if (sec, key) in mine or (sec, key) in auto:
                continue
            have = ds.config[sec].get(key) if sec in ds.config else None
            same = have is not None and (
                (isinstance(v, str) and have == v) or
                (not isinstance(v, str) and not isinstance(have, str)
                 and float(have) == float(v)))
            if not same:
                fails.append(("meta:%s:%s" % (sec, key), "metadata %s:%s read "
                              "back %r, written %r" % (sec, key, have, v)))
        from .gen import TRACE_LEN
        spe = ds.config["fluorescence"].get("samples per event") \
            if "fluorescence" in ds.config else None
        want_spe = len(exp.trace[sorted(exp.trace)[0]][0]) if exp.trace \
            else exp.meta_all.get(("fluorescence", "samples per event"))
        if spe != want_spe:
            fails.append(("meta:samples", "fluorescence:samples per event = "
                          "%r, expected %r (stored traces / value written)" % (
                              spe, want_spe)))
        if not ("image" in exp.feat or "mask" in exp.feat):
            for key in ("roi size x", "roi size y"):
                if ds.config["imaging"].get(key) != exp.meta_all.get(
                        ("imaging", key)):
                    fails.append(("meta:roi", "imaging:%s changed without "
                                  "image data" % key))
        if n is not None:
            ec = ds.config["experiment"].get("event count")
            if ec != n:
                fails.append(("meta:event count", "experiment:event count = "
                              "%r, %d events stored" % (ec, n)))
        if "image" in exp.feat or "mask" in exp.feat:
            from .gen import IMG_SHAPE
            if (ds.config["imaging"].get("roi size x"),
                    ds.config["imaging"].get("roi size y")) != (
                        IMG_SHAPE[1], IMG_SHAPE[0]):
                fails.append(("meta:roi", "roi size does not match the "
                              "stored images"))
    return fails


# --------------------------------------------------------------------------
# finding matchers (mirror Model/C01.v:hist_ok)
# --------------------------------------------------------------------------
def triggers(case):
    """Replay the bookkeeping the guard of the partial theorem uses: which
    logs received an appended line longer than their frozen width, which
    float features were created from an integer-typed array and later given
    a value that an integer cannot hold."""
    mode = 0
    width = {}
    dtype = {}
    nddt = {}        # n-d dataset ("trace:<name>" or feature) -> dtype code
    logs = set()
    feats = set()
    for o in case["ops"]:
        if o[0] == "open":
            mode = o[1]
            if mode == 2:
                width, dtype, nddt = {}, {}, {}
        elif o[0] in ("image", "arr", "trace"):
            if o[0] == "trace":
                items = [("trace:" + TRACES[t], expand(rows), dt_code(o[2]),
                          None) for t, rows in o[3]]
                if mode == 1:
                    for key, _, _, _ in items:
                        nddt.pop(key, None)
            else:
                name = FEATS[o[1]]
                rows = expand(o[5] if o[0] == "image" else o[6])
                code = dt_code(o[4] if o[0] == "image" else o[5])
                if name == "mask" and o[2]:
                    rows = [[v * 255 for v in r] for r in rows]
                items = [(name, rows, code, forced_nd(name))]
                if mode == 1:
                    nddt.pop(name, None)
                if o[0] == "arr" and forced_nd(name) is None and \
                        list(o[4]) != list(o[3]) and \
                        list(o[4][1:]) != list(o[3]):
                    continue        # bad shape: the call raises, no dataset
            for key, rows, code, forced in items:
                if not rows:
                    break
                frozen = key in nddt
                dt = nddt.setdefault(key, forced if forced is not None
                                     else code)
                if frozen and forced is None and any(
                        not nd_fits(dt, v) for r in rows for v in r):
                    feats.add(key)
        elif o[0] == "log":
            name = LOGS[o[1]]
            lens = [len(s.encode()) for s in o[2]]
            if mode == 1 or name not in width:
                width[name] = max([100] + lens)
            elif any(ln > width[name] for ln in lens):
                logs.add(name)
        elif o[0] == "scalar":
            name = FEATS[o[1]]
            if name in UINT32 or name in UINT64:
                continue
            if mode == 1:
                dtype.pop(name, None)
            if not o[3]:
                continue
            if name not in dtype:
                dtype[name] = o[2]
            if dtype[name] and any(t != 0 or k % 8 for t, k in o[3]):
                feats.add(name)
    return logs, feats


def classify(case, key):
    logs, feats = triggers(case)
    if key.startswith("log:") and key[4:] in logs:
        return FINDING_LOG
    if key.startswith("feature:") and key[8:] in feats:
        return FINDING_NDDTYPE if key[8:].startswith("trace:") or \
            key[8:] == "vtmp" else FINDING_DTYPE
    return None


# --------------------------------------------------------------------------
# rendering for Coq
# --------------------------------------------------------------------------
def zl(xs):
    return common.zlist(xs)


def zll(rows):
    if isinstance(rows, dict):
        return "(gen_rows %d %d %d %d %d)" % tuple(rows["gen"])
    return common.clist([zl(r) for r in rows])


def render_op(o):
    k = o[0]
    if k == "open":
        return "OOpen %d" % o[1]
    if k == "close":
        return "OClose"
    if k == "config":
        return "OConfig %d" % o[1]
    if k == "scalar":
        return "OScalar %d %s %s" % (
            o[1], common.blit(o[2]),
            common.clist(["(%s, %s)" % (common.zlit(t), common.zlit(v))
                          for t, v in o[3]]))
    if k == "image":
        return "OImage %d %s %s (ndt_of %d) %s" % (
            o[1], common.blit(o[2]), zl(o[3]), dt_code(o[4]), zll(o[5]))
    if k == "arr":
        return "OArr %d %s %s %s (ndt_of %d) (concat %s)" % (
            o[1], common.blit(o[2]), zl(o[3]), zl(o[4]), dt_code(o[5]),
            zll(o[6]))
    if k == "contour":
        return "OContour %s" % zll(o[1])
    if k == "trace":
        return "OTrace %s (ndt_of %d) %s" % (zl(o[1]), dt_code(o[2]), common.clist(
            ["(%d, %s)" % (tr, zll(rows)) for tr, rows in o[3]]))
    if k == "log":
        return "OLog %d %s" % (o[1], zll([list(s.encode()) for s in o[2]]))
    if k == "table":
        return "OTable %d %s %s" % (o[1], zl(o[2]), zll(o[3]))
    if k == "meta":
        return "OMeta %s" % common.clist(
            ["(%d, %s)" % (a, common.zlit(b)) for a, b in model_meta(o[1],
                                                                    o[2])])
    raise ValueError(k)


def render(case):
    return common.clist(["(%s)" % render_op(o) for o in case["ops"]])


HEADER = ("From Coq Require Import ZArith List Bool.\nImport ListNotations.\n"
          "From Verif Require Import Model.C01.\n")


def load_corpus():
    d = os.path.join(common.VERIF, "corpus", PROP)
    cases = []
    if os.path.isdir(d):
        for fn in sorted(os.listdir(d)):
            if fn.endswith(".json"):
                cases.append(json.load(open(os.path.join(d, fn)))["case"])
    return cases


def exhaustive_sweep(rng, nmax):
    """Every composition of N = 1..nmax events into successive append calls
    (2^(N-1) each), every feature kind in each case, and for each composition
    every position of one writer re-open (or none). Returns (cases, counts)"""
    np = _np()
    cases = []
    counts = {}
    for n in range(1, nmax + 1):
        feats = make_features(np, rng, n, ["scalar", "uint", "image", "mask",
                                           "contour", "trace"], True,
                              ["index", "vtmp", "qpi_amp"])
        k0 = len(cases)
        for bits in range(2 ** (n - 1)):
            bounds = [0] + [i + 1 for i in range(n - 1) if bits >> i & 1] + [n]
            parts = list(zip(bounds[:-1], bounds[1:]))
            for reopen in [None] + list(range(1, len(parts))):
                ops = [["config", 512], ["open", 2], ["meta", "base", []]]
                for j, (a, b) in enumerate(parts):
                    if reopen == j:
                        ops += [["close"], ["open", 0]]
                    ops += feature_ops(np, rng, feats, a, b)
                ops.append(["close"])
                cases.append(dict(ops=ops))
        counts["N=%d" % n] = len(cases) - k0
    return cases, counts


def _work(args):
    case, scratch = args
    try:
        return run_impl(case, scratch)
    except BaseException as e:   # harness problem, reported as a mismatch
        return [-99], [("harness", "run_impl crashed: %r" % (e,))], dict(
            calls={}, maxrows=0)


def run(run):
    import multiprocessing
    ncases = 1200 if run.thorough else 120
    cases = load_corpus()
    run.count("corpus", len(cases))
    nmax = 7 if run.thorough else 4
    sweep, counts = exhaustive_sweep(run.rng, nmax)
    cases += sweep
    run.extra["exhaustive_sweep"] = dict(
        exhaustive=True, cases=len(sweep), per_event_count=counts,
        scope="every composition of N <= %d events into successive append "
              "calls x every position of one writer re-open (or none); each "
              "case holds float/uint scalars, index, image, mask, contour, "
              "trace, a user-shaped and a float32 image feature; "
              "CHUNK_SIZE_BYTES=512" % nmax)
    while len(cases) < ncases:
        cases.append(gen_case(run.rng, run.thorough))
    import dclab  # noqa: F401 (imported before the fork)
    import h5py  # noqa: F401
    with multiprocessing.get_context("fork").Pool(min(8, common.NCPU)) as pool:
        results = pool.map(_work, [(c, run.scratch) for c in cases],
                           chunksize=4)
    for c, (flat, fails, info) in zip(cases, results):
        nontrivial = any(v >= 2 for v in info["calls"].values()) or \
            info["maxrows"] > 10
        run.record_case(c, nontrivial)
        for o in c["ops"]:
            run.count("op:" + o[0] + (":%s" % MODES[o[1]] if o[0] == "open"
                                      else ""))
        run.count("single-event-form", info.get("single", 0))
        run.count("list/tuple of images", info.get("listimg", 0))
        for fl in c.get("flags", []):
            run.count("class:" + fl)
        for o in c["ops"]:
            if o[0] == "meta" and any(len(kv) > 2 and kv[0] in (1, 2, 3)
                                      for kv in o[2]):
                run.count("base metadata with wrong/missing roi size or "
                          "samples per event")
            if o[0] == "table" and len(o) > 4 and o[4] == 2:
                run.count("table:recarray int32/float32 columns")
        run.count("argument-forms(0-d, list, str, bytes, 2-d contour)",
                  info.get("forms", 0))
        for o in c["ops"]:
            if o[0] == "table" and len(o) > 4 and o[4]:
                run.count("table:recarray")
            if o[0] == "arr" and len(o[4]) == 3 and o[4][1:] == [3, 2]:
                run.count("arr:bad-shape")
        for name, k in info["calls"].items():
            run.count("feature:" + name)
            run.count("calls-per-feature:%s" % ("1" if k == 1 else "2-4" if
                                                k < 5 else "5+"))
    model = common.coq_map(run.scratch, "c01", HEADER, "run_flat",
                           [render(c) for c in cases], shard=8)
    for c, m, (flat, fails, info) in zip(cases, model, results):
        run.corr_checked += 1
        agree = (m == flat)
        if not agree:
            run.mismatch(c, first_diff(m, flat), None)
        for key, desc in fails:
            # a failure is a listed finding only if the trigger concerns
            # exactly this dataset AND the model (which implements the
            # conversions of the findings) predicts what was read back
            run.oracle_failure(c, desc, classify(c, key) if agree else None)


def first_diff(m, i):
    k = 0
    while k < min(len(m), len(i)) and m[k] == i[k]:
        k += 1
    return dict(position=k, model=m[max(0, k - 6):k + 6],
                impl=i[max(0, k - 6):k + 6], lens=[len(m), len(i)])


# --------------------------------------------------------------------------
def _fail_keys(case, scratch):
    try:
        return run_impl(case, scratch)[1]
    except BaseException:
        return []


def shrink(run, failure):
    case = failure["case"]
    scratch = run.scratch
    fails = _fail_keys(case, scratch)
    target = None
    for key, desc in fails:
        if classify(case, key) is None or classify(case, key) not in \
                run.finding_ids():
            target = key
            break
    if target is None:
        return failure
    ops = list(case["ops"])
    changed = True
    rounds = 0
    while changed and rounds < 200:
        changed = False
        for i in range(len(ops)):
            rounds += 1
            if ops[i][0] in ("open",):
                continue
            cand = dict(ops=ops[:i] + ops[i + 1:])
            got = _fail_keys(cand, scratch)
            if any(k == target and len(got) == 1 for k, _ in got):
                ops = cand["ops"]
                changed = True
                break
    small = dict(ops=ops)
    got = [d for k, d in _fail_keys(small, scratch) if k == target]
    return dict(case=small, desc=got[0] if got else failure["desc"],
                finding=None)


def search(run, broken):
    """Proof or correspondence broken and the oracle was quiet so far: a
    larger sweep of the property oracle on the real code."""
    for _ in range(3000 if run.thorough else 600):
        c = gen_case(run.rng, True)
        flat, fails, _ = run_impl(c, run.scratch)
        for key, desc in fails:
            fid = classify(c, key)
            if fid is None or fid not in run.finding_ids():
                return shrink(run, dict(case=c, desc=desc))
    return None


def replay(payload):
    import tempfile
    case = payload.get("case")
    if not case or "ops" not in case:
        print("replay: nothing executable in this file (kind=%s): %s" % (
            payload.get("kind"), json.dumps(payload.get("broken"))[:2000]))
        return 1
    scratch = tempfile.mkdtemp(prefix="verif-C01-replay-", dir=os.environ.get(
        "VERIF_SCRATCH", "/var/tmp"))
    try:
        flat, fails, _ = run_impl(case, scratch)
    finally:
        import shutil
        shutil.rmtree(scratch, ignore_errors=True)
    print("case: %d ops: %s" % (len(case["ops"]),
                                json.dumps(case["ops"])[:3000]))
    if fails:
        for key, desc in fails:
            print("FAILS:", desc, "[%s]" % (classify(case, key) or "new"))
        return 1
    print("passes on the current tree")
    return 0
