"""C02 — HDF5/TSV export contains exactly the selected events and features.

Correspondence (real code vs Model/C02.v evaluated by vm_compute):
  * `Export.hdf5` on dict / hdf5 / hierarchy / tdms-fixture / basin-backed
    sources with filter masks around the export chunk size, feature subsets
    with duplicates, temporary non-scalar features; the exported file is read
    back with raw h5py and every event is reduced to a checksum token;
  * `yield_filtered_array_stacks` called directly with sliceable (ndarray,
    h5py.Dataset) and integer-only sources and arbitrary index lists;
  * `Export.tsv` parsed back.
Property oracle (model independent): the file re-opened with dclab and with
h5py holds, per requested feature, source[feat][i] for i in flatnonzero(mask)
in order; event count, metadata, logs, tables.
"""
import json
import os
import random
import re
import zipfile
import zlib

from . import common

PROP = "C02"
RULE = ("export cases: source kind x feature subset (scalar, uint, index, "
        "image, image_bg, mask, contour, trace, temporary non-scalar; with "
        "duplicates) x mask whose size is one of 0, 1, c-1, c, c+1, 2c, 2c+1, "
        "all, random for the chunk size c configured through "
        "writer.CHUNK_SIZE_BYTES x filtered/unfiltered x skip_checks; stack "
        "cases: route x chunk size x arbitrary in-range index list; tsv cases. "
        "A case is non-trivial when at least one event of a non-scalar feature "
        "or two events of a scalar feature are exported (stacks: at least two "
        "chunks); distinct = different (source description, mask, features, "
        "flags, chunk bytes)")
TRUSTED_BASE = [
    "RTDCWriter.store_feature appends what it is given to the feature's "
    "dataset (property C01); the model's file content is the concatenation of "
    "the store_feature calls",
    "h5py/HDF5 store what a slice assignment is given; numpy fancy/boolean "
    "indexing (modelled as take/mask_select)",
    "the consumer of yield_filtered_array_stacks uses each chunk before the "
    "generator is resumed (the slow route reuses one buffer)",
    "events are compared through a crc32 token of their float64 bytes in the "
    "correspondence (the oracle compares the arrays themselves)",
    "source objects: sliceable = hasattr(data, '__array__'), fancy = "
    "data[int array] works (probed on the source, an input of the model)",
    "not modelled: basin export, compression, the random run identifier "
    "suffix (oracle checks its shape), float formatting of %.10e (oracle "
    "checks the 0.5e-10 relative bound)",
]
ASSUMPTIONS = [
    "len(ds.filter.all) == len(ds); scalar features have len(ds) events",
    "datasets and requested non-contour features are not empty",
    "requested features exist in the dataset",
    "direct stack calls use in-range, non-negative indices",
    "events are limited to the shortest requested feature (the documented "
    "LimitingExportSizeWarning behaviour) in the oracle",
]

ALLOW_SHORT_SCALAR = False    # set by run(): finding listed?
ALLOW_IMG_CAST = False
NONSCALAR_TEMP = "c02_vec"
SCALAR_TEMP = "c02_tsc"
TDMS_FIXTURES = ["fmt-tdms_minimal_2016", "fmt-tdms_fl-image_2016",
                 "fmt-tdms_2fl-no-image_2017"]
RECTIFIED = {("experiment", "event count"), ("experiment", "run identifier"),
             ("setup", "software version"), ("imaging", "roi size x"),
             ("imaging", "roi size y"), ("fluorescence", "samples per event"),
             ("fluorescence", "channel count")}

F_NONSLICE = "C02-nonsliceable-source"
F_UINT = "C02-uint-cast-negative"
F_SCALAR = "C02-short-scalar-indexerror"
F_IMG = "C02-image-cast-uint8"
# features the writer stores as unsigned integers (writer.FEATURES_UINT32/64)
UINT_FEATS = {"fl1_max", "fl1_npeaks", "fl2_max", "fl2_npeaks", "fl3_max",
              "fl3_npeaks", "index", "ml_class", "nevents", "frame",
              "index_online"}
F_SHORT = "C02-short-features-indexerror"


# --------------------------------------------------------------------------
# helpers
# --------------------------------------------------------------------------
def uint8_exact(ev):
    """can the event be stored as uint8 without loss?"""
    import numpy as np
    a = np.asarray(ev, dtype=np.float64)
    return bool(np.all((a >= 0) & (a <= 255) & (a == np.floor(a))))


def zl(xs):
    xs = list(xs)
    return common.zlist(xs) if xs else "(@nil Z)"


FEATS_NIL = "(@nil (Z * Z * list (Z * Z * Z * Z * list Z)))"


def kind_of(feat):
    if feat == "index":
        return 1
    if feat == "contour":
        return 2
    if feat in ("image", "image_bg", "mask"):
        return 3
    if feat == "trace":
        return 4
    if feat in (NONSCALAR_TEMP, "qpi_pha", "qpi_amp"):
        return 5
    return 0


def tok(ev):
    import numpy as np
    a = np.asarray(ev)
    if a.dtype == bool:
        a = a.astype(np.uint8)
    a = np.ascontiguousarray(a.astype(np.float64))
    if a.size and np.isnan(a).any():
        a = np.where(np.isnan(a), np.nan, a)
    return zlib.crc32(a.tobytes() + repr(a.shape).encode())


def register_temp():
    import dclab
    for name, sc in ((NONSCALAR_TEMP, False), (SCALAR_TEMP, True)):
        try:
            dclab.register_temporary_feature(name, is_scalar=sc)
        except Exception:
            pass


def unzip_fixture(name, dest):
    z = os.path.join(common.REPO, "tests", "data", name + ".zip")
    d = os.path.join(dest, name)
    if not os.path.isdir(d):
        os.makedirs(d)
        with zipfile.ZipFile(z) as arc:
            arc.extractall(d)
    return d


def parts_of(ds, feat):
    """[(key name, data object)] as export iterates them"""
    data = ds[feat]
    if feat == "trace":
        return [(k, data[k]) for k in data.keys()]
    return [("", data)]


def probe_part(data, feat):
    import numpy as np
    sl = hasattr(data, "__array__")
    try:
        data[np.array([0])]
        fancy = True
    except NotImplementedError:
        fancy = False
    except Exception:
        fancy = True
    if feat in ("contour",) or kind_of(feat) in (0, 1):
        esize = 8
    else:
        shp = tuple(data.shape[1:])
        esize = int(np.prod(shp)) * np.dtype(data.dtype).itemsize
    return sl, fancy, max(1, int(esize))


# --------------------------------------------------------------------------
# logs and tables of generated sources (ground truth kept in memory; written
# with raw h5py so that the source does not depend on the writer under test)
# --------------------------------------------------------------------------
ONE_BYTE = "abc xyz-_:=;0123456789ABC"
TWO_BYTE = "\u00b5\u00e4\u00f6\u00fc\u00b0\u00df\u00e9\u03b1\u03b2\u03bb"
THREE_BYTE = "\u20ac\u2192\u2026\u2713\u3042\u4e2d"


def gen_log_line(rng):
    """a line whose character and UTF-8 byte lengths lie around 100"""
    kind = rng.choice(["ascii", "two", "two", "three", "mix", "mix"])
    n = rng.choice([0, 1, 33, 34, 49, 50, 51, 67, 99, 100, 101, 102, 150,
                    rng.randint(2, 160)])
    if kind == "ascii":
        pool = ONE_BYTE
    elif kind == "two":
        pool = TWO_BYTE
    elif kind == "three":
        pool = THREE_BYTE
    else:
        pool = ONE_BYTE + TWO_BYTE + THREE_BYTE
    line = "".join(rng.choice(pool) for _ in range(n))
    if kind == "mix" and n > 4 and rng.random() < 0.5:
        # byte length just above 100 with fewer than 100 characters
        line = line[:rng.choice([95, 97, 99])]
    return line.rstrip("\x00")


def gen_logs(rng):
    logs = {}
    for k in range(rng.randint(1, 3)):
        logs["log-%s" % "abc"[k]] = [gen_log_line(rng)
                                     for _ in range(rng.randint(1, 5))]
    return logs


def gen_tables(rng):
    import numpy as np
    tables = {}
    for k in range(rng.randint(1, 2)):
        ncol = rng.randint(1, 4)
        rows = rng.randint(1, 7)
        names = ["col_%d" % i for i in range(ncol)]
        fmts = [rng.choice([np.float64, np.float64, np.int32, np.float32])
                for _ in range(ncol)]
        arr = np.zeros(rows, dtype=np.dtype({"names": names, "formats": fmts}))
        for nm in names:
            arr[nm] = [rng.randint(-400, 400) / 4 for _ in range(rows)]
        attrs = {"unit": rng.choice(["s", "\u00b5m", "mbar"]),
                 "scale": rng.randint(1, 9) / 2}
        tables["tab-%d" % k] = (np.rec.array(arr), attrs)
    return tables


def write_raw_logs_tables(path, logs, tables, empty_log=False):
    import numpy as np
    import h5py
    with h5py.File(path, "a") as h5:
        lg = h5.require_group("logs")
        for name, lines in logs.items():
            bl = [ln.encode("utf-8") for ln in lines]
            width = max([len(b) for b in bl] + [1])
            lg.create_dataset(name, data=np.array(bl, dtype="S%d" % width))
        if empty_log:
            lg.create_dataset("log-empty", shape=(0,), dtype="S100")
        tg = h5.require_group("tables")
        for name, (arr, attrs) in tables.items():
            t = tg.create_dataset(name, data=np.asarray(arr))
            for k, v in attrs.items():
                t.attrs[k] = v


# --------------------------------------------------------------------------
# sources
# --------------------------------------------------------------------------
def build_source(src, workdir):
    """Returns (dataset, list of objects to keep alive, ground truth of logs
    and tables or None)."""
    import numpy as np
    import dclab
    from . import gen
    register_temp()
    rng = random.Random(src["seed"])
    t = src["type"]
    keep = []
    truth = None
    if t in ("tdms", "hier-tdms"):
        from dclab.rtdc_dataset import fmt_tdms
        d = unzip_fixture(src["fixture"], workdir)
        f = fmt_tdms.get_tdms_files(d)[0]
        root = dclab.new_dataset(f)
        root.config["setup"]["software version"] = "verifgen 1.0"
    else:
        spec = gen.random_dataset_spec(rng, src["n"], kinds=tuple(src["kinds"]),
                                       special=src.get("special", False),
                                       run_id="verif-run-%d" % src["seed"])
        n = src["n"]
        if src.get("fl"):
            # fluorescence measurement: fl1..flK maxima, declared channel
            # count (may be missing or differ from K)
            frng = random.Random(src["seed"] + 13)
            for i in range(1, src["fl"]["channels"] + 1):
                spec["features"]["fl%d_max" % i] = np.array(
                    [frng.randint(0, 3000) for _ in range(n)], dtype=np.uint32)
            fmeta = gen.base_meta(with_fl=True)["fluorescence"]
            fmeta["channels installed"] = 3
            fmeta["laser count"] = 2
            fmeta["lasers installed"] = 2
            fmeta["laser 2 lambda"] = 561.0
            fmeta["laser 2 power"] = 20.0
            fmeta["channel 2 name"] = "FL2"
            fmeta["channel 3 name"] = "FL3"
            if src["fl"].get("count") is None:
                fmeta.pop("channel count")
            else:
                fmeta["channel count"] = src["fl"]["count"]
            spec["meta"]["fluorescence"] = fmeta
        if src.get("wide"):
            # dtypes wider than what the fixtures use: int32 traces with
            # values beyond int16, a float32 scalar
            wrng = random.Random(src["seed"] + 29)
            if "trace" in spec["features"]:
                spec["features"]["trace"] = {
                    k: (v.astype(np.int32)
                        + np.array([[wrng.choice([0, 70000, -70000, 2 ** 20])
                                     for _ in range(v.shape[1])]
                                    for _ in range(v.shape[0])],
                                   dtype=np.int32))
                    for k, v in spec["features"]["trace"].items()}
            fsc = sorted(f for f in spec["features"] if f in gen.FLOAT_SCALARS)
            if fsc:
                spec["features"][fsc[-1]] = \
                    spec["features"][fsc[-1]].astype(np.float32)
        if src.get("qpi"):
            qrng = random.Random(src["seed"] + 31)
            spec["features"]["qpi_pha"] = np.array(
                [[[qrng.randint(-40, 40) / 8 for _ in range(gen.IMG_SHAPE[1])]
                  for _ in range(gen.IMG_SHAPE[0])] for _ in range(n)],
                dtype=np.float32)
        if src.get("imgwide"):
            # image data that do not fit uint8 (uint16 camera, float
            # background): the writer stores images as uint8
            irng = random.Random(src["seed"] + 37)
            if "image" in spec["features"]:
                spec["features"]["image"] = np.array(
                    [[[irng.choice([0, 7, 255, 256, 300, 2261])
                       for _ in range(gen.IMG_SHAPE[1])]
                      for _ in range(gen.IMG_SHAPE[0])] for _ in range(n)],
                    dtype=np.uint16)
            if "image_bg" in spec["features"]:
                spec["features"]["image_bg"] = np.array(
                    [[[irng.choice([-24, -4, 0, 20, 23, 800, 2044, 2400]) / 8
                       for _ in range(gen.IMG_SHAPE[1])]
                      for _ in range(gen.IMG_SHAPE[0])] for _ in range(n)],
                    dtype=np.float32)
        if src.get("neg_uint"):
            # a feature the writer stores as uint32 holding negative values
            # (as the int16 fl2_max of tdms measurements does)
            spec["features"]["fl2_max"] = np.array(
                [(-17 if i % 2 else 40 + i) for i in range(n)], dtype=np.int16)
        if t in ("dict", "hier-dict"):
            root = dclab.new_dataset(dict(spec["features"]))
            root.config["setup"]["software version"] = "verifgen 1.0"
            root.config["setup"]["medium"] = "CellCarrierB"
            root.config["experiment"]["sample"] = "verif dict"
            root.config["experiment"]["run index"] = 1
            root.config["imaging"]["pixel size"] = 0.34
            root.config["user"]["note"] = "carried"
            if src.get("fl"):
                for k, v in spec["meta"]["fluorescence"].items():
                    root.config["fluorescence"][k] = v
            for key, val in (src.get("badmeta") or {}).items():
                sec, kk = key.split(":")
                if val is not None:
                    root.config[sec][kk] = val
            lrng = random.Random(src["seed"] + 7)
            truth = dict(logs=gen_logs(lrng), tables=gen_tables(lrng))
            for name, lines in truth["logs"].items():
                root.logs[name] = list(lines)
            for name, (arr, attrs) in truth["tables"].items():
                root.tables[name] = arr
            truth["tables"] = {k: (v[0], None)
                               for k, v in truth["tables"].items()}
        else:
            path = os.path.join(workdir, "src.rtdc")
            lrng = random.Random(src["seed"] + 7)
            truth = dict(logs=gen_logs(lrng), tables=gen_tables(lrng))
            if "logs" in src:
                truth["logs"] = {k: list(v) for k, v in src["logs"].items()}
            empty_log = lrng.random() < 0.3
            if t == "basin":
                # the full data live in src.rtdc; the dataset under test is a
                # small file with two scalars and a basin pointing to it
                gen.write_spec(path, spec)
                from dclab.rtdc_dataset.writer import RTDCWriter
                small = os.path.join(workdir, "small.rtdc")
                scal = [f for f in spec["features"] if kind_of(f) == 0][:2]
                with RTDCWriter(small, mode="reset") as hw:
                    hw.store_metadata(spec["meta"])
                    for f in scal:
                        hw.store_feature(f, spec["features"][f])
                    hw.store_basin(basin_name="full", basin_type="file",
                                   basin_format="hdf5", basin_locs=[path],
                                   basin_descr="verif basin")
                write_raw_logs_tables(small, truth["logs"], truth["tables"],
                                      empty_log)
                root = dclab.new_dataset(small)
            else:
                gen.write_spec(path, spec)
                write_raw_logs_tables(path, truth["logs"], truth["tables"],
                                      empty_log)
                if src.get("imgwide"):
                    import h5py
                    with h5py.File(path, "a") as h5:
                        ev = h5["events"]
                        for f in ("image", "image_bg"):
                            if f in ev and f in spec["features"]:
                                v = spec["features"][f]
                                del ev[f]
                                ev.create_dataset(
                                    f, data=v, chunks=True,
                                    maxshape=(None,) + v.shape[1:])
                if src.get("badmeta"):
                    # roi size / samples per event that disagree with the
                    # stored data, or are missing (rectify_metadata's job)
                    import h5py
                    with h5py.File(path, "a") as h5:
                        for key, val in src["badmeta"].items():
                            if val is None:
                                h5.attrs.pop(key, None)
                            else:
                                h5.attrs[key] = val
                if src.get("wide"):
                    # store the wide features with raw h5py so that the source
                    # does not depend on the writer under test
                    import h5py
                    with h5py.File(path, "a") as h5:
                        ev = h5["events"]
                        for k, v in spec["features"].get("trace", {}).items():
                            del ev["trace"][k]
                            ev["trace"].create_dataset(
                                k, data=v, maxshape=(None, v.shape[1]),
                                chunks=True)
                        for f, v in spec["features"].items():
                            if isinstance(v, np.ndarray) and \
                                    v.dtype == np.float32 and v.ndim == 1:
                                del ev[f]
                                ev.create_dataset(f, data=v, maxshape=(None,),
                                                  chunks=True)
                if src.get("short"):
                    # aborted acquisition: some features hold fewer events
                    import h5py
                    with h5py.File(path, "a") as h5:
                        ev = h5["events"]
                        for f, drop in src["short"].items():
                            if f not in ev:
                                continue
                            if f == "trace":
                                # one drop for all traces or one per trace
                                for k in ev[f]:
                                    dk = drop.get(k, 0) if isinstance(
                                        drop, dict) else drop
                                    ev[f][k].resize(
                                        max(1, ev[f][k].shape[0] - dk), axis=0)
                            else:
                                ev[f].resize(max(1, ev[f].shape[0] - drop),
                                             axis=0)
                root = dclab.new_dataset(path)
        if src.get("temp"):
            v = np.array([[rng.randint(-9, 9) / 4 for _ in range(3)]
                          for _ in range(n)])
            dclab.set_temporary_feature(root, NONSCALAR_TEMP, v)
            dclab.set_temporary_feature(
                root, SCALAR_TEMP,
                np.array([rng.randint(-50, 50) / 8 for _ in range(n)]))
    keep.append(root)
    ds = root
    rootmap = np.arange(len(root))
    if t.startswith("hier-"):
        pm = np.ones(len(root), dtype=bool)
        if "parent_keep" in src:
            pm[:] = False
            pm[[i for i in src["parent_keep"] if i < len(pm)]] = True
        for i in src.get("parent_drop", []):
            if i < len(pm):
                pm[i] = False
        root.filter.manual[:] = pm
        root.apply_filter()
        ds = dclab.new_dataset(root)
        keep.append(ds)
        # ground truth by explicit index arithmetic, not by the child's view
        rootmap = np.flatnonzero(pm)
        if src.get("levels", 1) >= 2:
            pm2 = np.ones(len(ds), dtype=bool)
            for i in src.get("parent_drop2", []):
                if i < len(pm2):
                    pm2[i] = False
            ds.filter.manual[:] = pm2
            ds.apply_filter()
            ds = dclab.new_dataset(ds)
            keep.append(ds)
            rootmap = rootmap[np.flatnonzero(pm2)]
        assert len(rootmap) == len(ds), "hierarchy setup"
    truth_root = dict(root=root, rootmap=rootmap)
    if truth is None:
        truth = {}
    truth["_root"] = truth_root
    return ds, keep, truth


LAST_FILTER_FALLBACK = False


def apply_filters(ds, mask, flt):
    """Set the manual mask and, when asked, real filter settings (box range,
    polygon, remove invalid events, limit events); returns ds.filter.all and
    whether it differs from ds.filter.manual."""
    import numpy as np
    import dclab
    ds.filter.manual[:] = mask
    if flt:
        fsc = [f for f in sorted(ds.features_innate)
               if kind_of(f) == 0 and f not in UINT_FEATS
               and f in ds.features_scalar][:3]
        cfgf = ds.config["filtering"]
        if flt.get("box") and fsc:
            f = fsc[0]
            v = np.sort(np.asarray(ds[f][:], dtype=float))
            v = v[np.isfinite(v)]
            if len(v):
                qlo, qhi = flt["box"]
                lo = v[min(len(v) - 1, int(qlo * len(v)))]
                hi = v[min(len(v) - 1, int(qhi * len(v)))]
                if lo < hi:
                    cfgf[f + " min"] = float(lo)
                    cfgf[f + " max"] = float(hi)
        if flt.get("invalid"):
            cfgf["remove invalid events"] = True
        if flt.get("limit"):
            cfgf["limit events"] = int(flt["limit"])
        if flt.get("disable"):
            # filtering switched off: all events, whatever else is set
            cfgf["enable filters"] = False
        if flt.get("polygon") and len(fsc) >= 2:
            fx, fy = fsc[-1], fsc[-2]
            x = np.asarray(ds[fx][:], dtype=float)
            y = np.asarray(ds[fy][:], dtype=float)
            x, y = x[np.isfinite(x)], y[np.isfinite(y)]
            if len(x) and len(y):
                a, b = flt["polygon"]
                x0, x1 = x.min() - 1, x.min() + a * (x.max() - x.min()) + .06
                y0, y1 = y.min() - 1, y.min() + b * (y.max() - y.min()) + .06
                pf = dclab.PolygonFilter(
                    axes=(fx, fy),
                    points=[[x0, y0], [x1, y0], [x1, y1], [x0, y1]])
                ds.polygon_filter_add(pf)
    global LAST_FILTER_FALLBACK
    LAST_FILTER_FALLBACK = False
    try:
        ds.apply_filter()
    except Exception:
        LAST_FILTER_FALLBACK = True
        # computing the filters is not C02's subject (C03/C06): some sources
        # cannot evaluate every ancillary feature ('remove invalid events'
        # on dict data with contours); fall back to weaker settings
        ds.config["filtering"]["remove invalid events"] = False
        try:
            ds.apply_filter()
        except Exception:
            for k in list(ds.config["filtering"].keys()):
                if k.endswith(" min") or k.endswith(" max"):
                    ds.config["filtering"].pop(k)
            ds.config["filtering"]["polygon filters"] = []
            ds.apply_filter()
    fall = np.array(ds.filter.all, dtype=bool)
    if flt and flt.get("disable") and \
            ds.config["filtering"]["enable filters"] is False:
        # the property's "all events when filtering is off", stated
        # independently of what dclab computes
        fall = np.ones(len(ds), dtype=bool)
    return fall, bool(np.any(fall != np.array(ds.filter.manual, dtype=bool)))


def root_format(ds):
    while ds.format == "hierarchy":
        ds = ds.hparent
    return ds.format


# --------------------------------------------------------------------------
# export case: implementation + oracle + model rendering
# --------------------------------------------------------------------------
def run_export_case(case, workdir):
    """Returns dict(flat, coq, fail, finding, nontrivial, info)."""
    import warnings
    import numpy as np
    import h5py
    import dclab
    from dclab.rtdc_dataset import writer
    from . import gen
    warnings.simplefilter("ignore")
    os.makedirs(workdir, exist_ok=True)
    old_cfg = writer.CHUNK_SIZE_BYTES
    writer.CHUNK_SIZE_BYTES = case["cfg"]
    res = dict(flat=None, coq=None, fail=None, finding=None, nontrivial=False,
               info={})
    try:
        ds, keep, truth = build_source(case["src"], workdir)
        n = len(ds)
        mask = np.zeros(n, dtype=bool)
        for i in case["mask"]:
            if i < n:
                mask[i] = True
        mask, real_filter = apply_filters(ds, mask, case.get("filters"))
        if not case.get("filters"):
            assert not real_filter, "filter setup"
        res["info"]["real_filter"] = real_filter
        res["info"]["filter_fallback"] = LAST_FILTER_FALLBACK
        troot = truth["_root"]["root"]
        rootmap = truth["_root"]["rootmap"]
        prefix = case.get("prefix", "src_")

        def truth_event(f, key, i):
            # the event of the ROOT dataset that event i of ds stands for
            rd = troot["trace"][key] if f == "trace" else troot[f]
            return rd[int(rootmap[int(i)])]
        fmode = case.get("fmode", "list")
        basins = bool(case.get("basins", False))
        if fmode == "default":
            feats_req = list(ds.features_innate)
        elif fmode == "empty":
            feats_req = []
        else:
            feats_req = [f for f in case["features"] if f in ds]
            if "contour" in feats_req and "contour" not in ds.features_innate:
                try:            # ancillary contour (computed from the mask)
                    ds["contour"][0]
                except Exception:
                    feats_req = [f for f in feats_req if f != "contour"]
        uniq = sorted(set(feats_req))
        names = {f: i for i, f in enumerate(uniq)}
        trnames = sorted(set(k for f in uniq if f == "trace"
                             for k in ds["trace"].keys()))
        trrank = {k: i + 1 for i, k in enumerate(trnames)}
        filtered = bool(case["filtered"])
        skip = bool(case["skip_checks"])
        # --- source description for model and oracle ----------------------
        src_tok = {}
        src_dtype = {}
        coq_feats = []
        lens = []
        nonslice_feats = []
        for f in uniq:
            k = kind_of(f)
            cparts = []
            for key, data in parts_of(ds, f):
                sl, fancy, esize = probe_part(data, f)
                ln = len(data)
                lens.append(ln)
                if k == 1:
                    toks = [int(data[i]) for i in range(ln)]
                else:
                    toks = [tok(truth_event(f, key, i)) for i in range(ln)]
                src_tok[(f, key)] = toks
                src_dtype[(f, key)] = np.dtype(getattr(data, "dtype", None)
                                               or np.asarray(data[0]).dtype) \
                    if k != 2 else None
                if not fancy:
                    nonslice_feats.append(f)
                cparts.append("(%d, %d, %d, %d, %s)" % (
                    trrank.get(key, 0), sl, fancy, esize, zl(toks)))
            coq_feats.append("(%d, %d, %s)" % (names[f], k,
                                                common.clist(cparts)))
        src_count = int(ds.config["experiment"].get("event count", n))
        coq = "((%d, %d, %d, %d), %s, %s, (%d, %d), %s)" % (
            case["cfg"], ds.format == "hdf5", n, src_count,
            common.clist(coq_feats) if coq_feats else FEATS_NIL,
            common.blist(mask) if len(mask) else "(@nil bool)", filtered, skip,
            zl([names[f] for f in feats_req]
                         if fmode != "default" else []))
        # metadata of the source
        rid_src = ds.config["experiment"].get("run identifier")
        mid = ds.get_measurement_identifier()
        sample_src = ds.config["experiment"].get("sample")
        stok = lambda x: zlib.crc32(str(x).encode("utf-8"))  # noqa: E731
        want_logs = bool(case.get("logs", False))
        want_tables = bool(case.get("tables", False))
        # (contents are only rendered when the flag is set: nothing may be
        # stored otherwise, which the prefixed-name counts observe)
        log_names = list(ds.logs.keys()) if want_logs else []
        tab_names = list(ds.tables.keys()) if want_tables else []

        def table_tokens(tab):
            arr = gen.table_array(tab)
            cols = list(arr.dtype.names or [])
            rows = [stok(cols)]
            for r in range(len(arr)):
                rows.append(stok([float(arr[c][r]) for c in cols]
                                 if cols else np.asarray(arr[r]).tolist()))
            return rows
        def lbytes(ln):
            return list(ln if isinstance(ln, bytes) else
                        str(ln).encode("utf-8"))
        src_logs = [[lbytes(ln) for ln in ds.logs[nm]] for nm in log_names]
        src_tabs = [table_tokens(ds.tables[nm]) for nm in tab_names]

        def texts(lst):
            return common.clist("(%d, %s)" % (i, zl(t))
                                for i, t in enumerate(lst)) if lst \
                else "(@nil (Z * list Z))"

        def logtexts(lst):
            return common.clist(
                "(%d, %s)" % (i, common.clist(zl(ln) for ln in t) if t
                              else "(@nil (list Z))")
                for i, t in enumerate(lst)) if lst \
                else "(@nil (Z * list (list Z)))"
        ch_src = ds.config["fluorescence"].get("channel count") \
            if "fluorescence" in ds.config else None
        coq = "(%s, (%d, %s), (%d, %d, %d), (%s, %s, %d), (%s, %s), (%s, %s))" % (
            coq, fmode != "default",
            zl([names[f] for f in ds.features_innate if f in names]),
            want_logs, want_tables, basins,
            zl([stok(rid_src)] if rid_src is not None else []),
            zl([stok(mid)] if rid_src is None and mid is not None
                         else []),
            stok(sample_src) if sample_src is not None else 0,
            logtexts(src_logs), texts(src_tabs),
            zl([int(ch_src)] if ch_src is not None else []),
            zl([names[f] for f in ("fl1_max", "fl2_max", "fl3_max")
                if f in names]))
        res["coq"] = coq
        # --- expected selection (property) ---------------------------------
        idx = np.flatnonzero(mask) if filtered else np.arange(n)
        lmin = min(lens) if lens else n
        exp_idx = idx[idx < lmin]
        unequal = bool(lens) and min(lens) != max(lens)

        def exp_for(ln):
            # with skip_checks the common-length limit is off: the selected
            # events that exist in this array
            return idx[idx < (ln if skip else lmin)]
        # --- run the implementation -----------------------------------------
        out = os.path.join(workdir, "out.rtdc")
        py_spec = -1 if skip else (0 if not lens else (
            len(exp_idx) if filtered else lmin))
        err = None
        try:
            ds.export.hdf5(out[:-5] if case.get("nosuffix") else out,
                           features=(None if fmode == "default"
                                     else list(feats_req)),
                           filtered=filtered,
                           logs=want_logs, tables=want_tables, basins=basins,
                           meta_prefix=prefix,
                           skip_checks=skip, override=True)
        except NotImplementedError as e:
            err = (1, e)
        except IndexError as e:
            err = (2, e)
        except KeyError as e:
            err = (4, e)
        except Exception as e:
            err = (9, e)
        if err is not None:
            res["flat"] = [1, err[0], py_spec]
            res["fail"] = "export raised %r" % (err[1],)
            rf = root_format(ds)
            no_filter_arr = (not filtered) and (
                skip or not lens or min(lens) == max(lens))
            if (err[0] == 1 and rf == "tdms" and nonslice_feats
                    and any(kind_of(f) == 3 for f in nonslice_feats)
                    and (ds.format == "hierarchy" or no_filter_arr)):
                res["finding"] = F_NONSLICE
            elif (err[0] == 2 and "boolean index did not match" in str(err[1])
                  and any(kind_of(f) == 0 and len(ds[f]) != n for f in uniq)
                  and (filtered or (not skip and min(lens) != max(lens)))):
                res["finding"] = F_SCALAR
            elif (err[0] == 2 and filtered and lens and lmin < n
                  and (skip or min(lens) == max(lens))
                  and len(idx) and idx.max() >= lmin):
                res["finding"] = F_SHORT
            return res
        # --- read back: raw h5py -> flat; dclab -> oracle -----------------
        flat = []
        fails = []
        part_diff = {}
        part_eidx = {}
        part_fail_msgs = []
        with h5py.File(out, "r") as h5:
            count = h5.attrs.get("experiment:event count")
            flat += [0, int(count) if count is not None else -1]
            ev = h5.get("events", {})
            for f in uniq:
                k = kind_of(f)
                for key, _ in parts_of(ds, f):
                    if f not in ev or (f == "trace" and key not in ev[f]):
                        toks = []
                    elif f == "contour":
                        grp = ev[f]
                        toks = [tok(grp[str(i)][:]) for i in range(len(grp))]
                    elif f == "trace":
                        toks = [tok(r) for r in ev[f][key][:]]
                    elif f == "mask":
                        toks = [tok(r != 0) for r in ev[f][:]]
                    elif k == 1:
                        toks = [int(v) for v in ev[f][:]]
                    else:
                        toks = [tok(r) for r in ev[f][:]]
                    flat += [names[f], trrank.get(key, 0), len(toks)] + toks
                    if toks and k != 2 and k != 3 and k != 1 and \
                            not (k == 0 and f in UINT_FEATS):
                        dso = ev[f][key] if f == "trace" else ev[f]
                        if np.dtype(dso.dtype) != src_dtype[(f, key)]:
                            fails.append(
                                "feature %s%s is stored as %s, the source "
                                "holds %s" % (f, "/" + key if key else "",
                                              dso.dtype, src_dtype[(f, key)]))
                    e_idx = exp_for(len(src_tok[(f, key)]))
                    if k == 1:
                        want = list(range(1, len(e_idx) + 1))
                    else:
                        want = [src_tok[(f, key)][i] for i in e_idx]
                    part_eidx[(f, key)] = e_idx
                    if toks != want:
                        part_diff[(f, key)] = (
                            [i for i in range(len(want)) if toks[i] != want[i]]
                            if len(toks) == len(want) else
                            ("len", len(toks), len(want), len(idx)))
                        part_fail_msgs.append(len(fails))
                        fails.append(
                            "h5py: feature %s%s holds %d events, expected the "
                            "%d selected ones%s" % (
                                f, "/" + key if key else "", len(toks),
                                len(want), "" if len(toks) != len(want) else
                                " (first difference at position %d)" % next(
                                    i for i in range(len(want))
                                    if toks[i] != want[i])))
            extra = sorted(k for k in set(ev.keys()) - set(uniq)
                           if not (basins and k.startswith("basinmap")))
            if extra:
                fails.append("features %s were not requested" % extra)
            # metadata part of the flat encoding
            rid_out = h5.attrs.get("experiment:run identifier")
            if isinstance(rid_out, bytes):
                rid_out = rid_out.decode("utf-8")
            flat.append(-2)
            if rid_out is None:
                flat += [0]
            elif not filtered and rid_out == rid_src:
                flat += [1, 1, stok(rid_out), 0]
            else:
                mm = re.fullmatch(r"(.*)-([0-9a-f]{4})", str(rid_out))
                if mm:
                    flat += [1] + ([0] if mm.group(1) == "None" else
                                   [1, stok(mm.group(1))]) + [1]
                else:
                    flat += [1, 1, stok(rid_out), 0]
            smp_out = h5.attrs.get("experiment:sample")
            if isinstance(smp_out, bytes):
                smp_out = smp_out.decode("utf-8")
            flat.append(stok(smp_out) if smp_out is not None else 0)
            hlogs = h5.get("logs", {})
            htabs = h5.get("tables", {})
            flat.append(len([k for k in prefixed(hlogs.keys(), prefix)
                             if hlogs[k].size]))
            flat.append(len(prefixed(htabs.keys(), prefix)))
            for nm in log_names:
                key = prefix + nm
                lines = []
                if want_logs and key in hlogs:
                    # the stored bytes (fixed-length strings, NUL padded)
                    lines = [lbytes(ln) for ln in hlogs[key][:]]
                flat += [len(lines)]
                for ln in lines:
                    flat += [len(ln)] + ln
            for nm in tab_names:
                key = prefix + nm
                rows = table_tokens(htabs[key][:]) \
                    if (want_tables and key in htabs) else []
                flat += [len(rows)] + rows
            ch_out = h5.attrs.get("fluorescence:channel count")
            flat += [0] if ch_out is None else [1, int(ch_out)]
        flat.append(py_spec)
        res["flat"] = flat
        exp_count = len(exp_idx) if uniq else (
            int(mask.sum()) if filtered else src_count)
        count_defined = not (skip and unequal)
        if not count_defined and basins:
            # features of different lengths plus a basin map feature: which
            # length rectify_metadata picks is not part of the model
            res["coq"] = None
        if count_defined and flat[1] != exp_count:
            fails.append("event count attribute is %d, %d events were "
                         "selected" % (flat[1], exp_count))
        # dclab view of the exported file
        try:
            with dclab.new_dataset(out) as od:
                if count_defined and len(od) != exp_count:
                    fails.append("len(exported) = %d, expected %d" % (
                        len(od), exp_count))
                if len(exp_idx):
                    for f in uniq:
                        if f not in od.features_innate:
                            fails.append("dclab: feature %s missing" % f)
                            continue
                        for key, data in parts_of(ds, f):
                            got = od[f][key] if f == "trace" else od[f]
                            e_idx = exp_for(len(data))
                            if kind_of(f) == 1:
                                ok = list(np.asarray(got[:])) == list(
                                    range(1, len(e_idx) + 1))
                            elif f == "trace" or kind_of(f) == 0 or \
                                    count_defined:
                                ok = len(np.asarray(got[:])) == len(e_idx) \
                                    if kind_of(f) == 0 else True
                                ok = ok and all(
                                    gen.arr_equal(got[j],
                                                  truth_event(f, key, i))
                                    for j, i in enumerate(e_idx))
                                if count_defined and f != "contour":
                                    ok = ok and len(got) == len(e_idx)
                                if ok and count_defined and len(e_idx) and \
                                        kind_of(f) >= 2:
                                    # negative index and iteration
                                    ok = gen.arr_equal(
                                        got[-1], truth_event(f, key,
                                                             e_idx[-1]))
                                    if f == "contour":
                                        ok = ok and sum(
                                            1 for _ in got) == len(e_idx)
                            else:
                                ok = all(gen.arr_equal(got[j],
                                                       truth_event(f, key, i))
                                         for j, i in enumerate(e_idx))
                            if not ok:
                                fails.append("dclab: feature %s%s differs "
                                             "from source[flatnonzero(mask)]"
                                             % (f, "/" + key if key else ""))
                m = meta_diff(ds, od, filtered)
                if m:
                    fails.append(m)
                m = logs_tables_diff(ds, od, case.get("logs", False),
                                     case.get("tables", False), truth, prefix)
                if m:
                    fails.append(m)
        except BaseException as e:  # e.g. OldFormatNotSupportedError
            if isinstance(e, (KeyboardInterrupt, SystemExit)):
                raise
            fails.append("exported file cannot be read back: %r" % (e,))
        if fails:
            res["fail"] = "; ".join(fails[:4])
            # which messages speak about which feature
            def names_only(feats_ok, allow_count=False):
                for m in fails:
                    if any(("feature %s " % f) in m or ("feature %s/" % f) in m
                           or ("feature %s:" % f) in m for f in feats_ok):
                        continue
                    if allow_count and (m.startswith("event count attribute")
                                        or m.startswith("len(exported)")):
                        continue
                    return False
                return True

            def selected_values(f):
                return np.asarray(troot[f][:])[
                    rootmap[part_eidx.get((f, ""), exp_idx)]]
            # the writer casts some features to unsigned integers: negative
            # source values (tdms fixture: fl2_max = -17) do not survive
            lossy = [f for f in uniq if f in UINT_FEATS and kind_of(f) == 0
                     and len(exp_idx) and (selected_values(f) < 0).any()]
            # images are stored as uint8: other source values saturate
            castimg = [f for f in uniq if f in ("image", "image_bg")
                       and src_dtype.get((f, "")) is not None
                       and src_dtype[(f, "")] != np.uint8]
            short_image = (filtered and lens and lmin < n and len(idx)
                           and (skip or min(lens) == max(lens))
                           and idx.max() >= lmin
                           and root_format(ds) == "tdms" and "image" in uniq)
            if short_image and names_only(["image"], allow_count=True) and \
                    part_diff.get(("image", ""), [None])[0] == "len" and \
                    part_diff[("image", "")][1] == len(idx):
                # same cause as F_SHORT, but the tdms image column answers an
                # index beyond its length with a dummy image instead of
                # raising: every selected event was exported
                res["finding"] = F_SHORT
                res["coq"] = None      # the model raises IndexError here
            elif lossy and names_only(lossy) and all(
                    isinstance(dv, list) and f in lossy and all(
                        selected_values(f)[q] < 0 for q in dv)
                    for (f, _k), dv in part_diff.items()):
                res["finding"] = F_UINT
                res["coq"] = None      # the model keeps values unchanged
            elif castimg and names_only(castimg) and all(
                    isinstance(dv, list) and f in castimg and all(
                        not uint8_exact(truth_event(
                            f, "", part_eidx[(f, "")][q])) for q in dv)
                    for (f, _k), dv in part_diff.items()):
                res["finding"] = F_IMG
                res["coq"] = None      # the model keeps values unchanged
        nons = sum(len(exp_idx) for f in uniq if kind_of(f) >= 2)
        res["nontrivial"] = bool(nons >= 1 or (uniq and len(exp_idx) >= 2))
        res["info"].update(nsel=int(len(exp_idx)), fmt=ds.format)
        return res
    finally:
        writer.CHUNK_SIZE_BYTES = old_cfg
        try:
            dclab.PolygonFilter.clear_all_filters()
        except Exception:
            pass


RECT_RULES = {("imaging", "roi size x"), ("imaging", "roi size y"),
              ("fluorescence", "samples per event"),
              ("fluorescence", "channel count")}


def rectified_value(ds, od, sec, k, src):
    """What the property allows for the keys rectify_metadata touches:
    carried over from the source, except where the writer legitimately
    corrects them from the stored data (image shape, trace length) or adds
    a missing channel count."""
    stored = set(od.features_innate) if len(od) else set()
    if k == "channel count":
        if src is not None:
            return src
        nfl = sum(("fl%d_max" % i) in stored for i in (1, 2, 3))
        return nfl or None
    if k == "samples per event":
        if "trace" in stored:
            tr = ds["trace"]
            return int(len(tr[sorted(tr.keys())[0]][0]))
        return src
    for f in ("image", "mask"):
        if f in stored:
            shp = ds[f][0].shape
            return int(shp[1] if k == "roi size x" else shp[0])
    return src


def meta_diff(ds, od, filtered):
    import numpy as np
    from dclab import definitions as dfn
    for sec in list(dfn.CFG_METADATA) + ["user"]:
        if sec == "fmt_tdms":
            continue        # reader-internal section of the tdms format
        a = dict(ds.config[sec]) if sec in ds.config else {}
        b = dict(od.config[sec]) if sec in od.config else {}
        for k in sorted(set(a) | set(b)):
            if (sec, k) in RECTIFIED:
                if (sec, k) in RECT_RULES:
                    want = rectified_value(ds, od, sec, k, a.get(k))
                    got = b.get(k)
                    if want != got:
                        return ("metadata [%s] %s is %r in the exported "
                                "file, the source has %r (expected %r)" % (
                                    sec, k, got, a.get(k), want))
                continue
            if k not in a or k not in b:
                return "metadata [%s] %s not carried over (%r vs %r)" % (
                    sec, k, a.get(k), b.get(k))
            try:
                same = bool(np.all(np.asarray(a[k]) == np.asarray(b[k])))
            except Exception:
                same = a[k] == b[k]
            if not same:
                return "metadata [%s] %s: %r became %r" % (sec, k, a[k], b[k])
    rid_a = ds.config["experiment"].get("run identifier")
    rid_b = od.config["experiment"].get("run identifier")
    if filtered:
        base = ds.get_measurement_identifier()
        if not (isinstance(rid_b, str) and re.fullmatch(
                re.escape(str(base)) + r"-[0-9a-f]{4}", rid_b)):
            return "run identifier %r is not %r-xxxx" % (rid_b, base)
    elif rid_a != rid_b:
        return "run identifier %r became %r" % (rid_a, rid_b)
    sv_a = ds.config["setup"].get("software version", "")
    sv_b = od.config["setup"].get("software version", "")
    if not sv_b.startswith(sv_a):
        return "software version %r does not extend %r" % (sv_b, sv_a)
    return None


def prefixed(names, prefix):
    """names that carry the prefix (the export's own log does not count)"""
    return [k for k in names if k.startswith(prefix)
            and not k.startswith("dclab-export_")]


def logs_tables_diff(ds, od, logs, tables, truth=None, prefix="src_"):
    import numpy as np
    from . import gen
    if truth is not None and "logs" in truth:
        # the source itself must show what was put into it
        for name, lines in truth["logs"].items():
            if name not in ds.logs.keys() or list(ds.logs[name]) != lines:
                return "source log %s is not what was written" % name
        if logs:
            for name, lines in truth["logs"].items():
                key = prefix + name
                try:
                    got = list(od.logs[key]) if key in od.logs.keys() else None
                except Exception as e:
                    return "log %s cannot be read back: %r" % (name, e)
                if got != lines:
                    bad = [i for i in range(min(len(got or []), len(lines)))
                           if got[i] != lines[i]]
                    return ("log %s not carried over unchanged (%s lines, "
                            "expected %d; first differing line %s: %d "
                            "characters / %d bytes)" % (
                                name, None if got is None else len(got),
                                len(lines), bad[:1],
                                len(lines[bad[0]]) if bad else -1,
                                len(lines[bad[0]].encode()) if bad else -1))
        if tables:
            for name, (arr, attrs) in truth["tables"].items():
                key = prefix + name
                if key not in od.tables.keys():
                    return "table %s not carried over" % name
                xb = gen.table_array(od.tables[key])
                if xb.dtype.names != arr.dtype.names:
                    return "table %s columns %s became %s" % (
                        name, arr.dtype.names, xb.dtype.names)
                for col in arr.dtype.names:
                    if not gen.arr_equal(np.asarray(arr[col]), xb[col]):
                        return "table %s column %s differs" % (name, col)
                if attrs is not None:
                    oattrs = dict(od.tables[key].attrs)
                    for k, v in attrs.items():
                        if k not in oattrs or oattrs[k] != v:
                            return "table %s attribute %s not carried" % (
                                name, k)
    if logs:
        for name in ds.logs.keys():
            key = prefix + name
            if key not in od.logs.keys():
                return "log %s not carried over" % name
            if list(od.logs[key]) != list(ds.logs[name]):
                return "log %s differs" % name
    else:
        bad = prefixed(od.logs.keys(), prefix)
        if bad:
            return "logs %s stored although not requested" % bad
    if tables:
        for name in ds.tables.keys():
            key = prefix + name
            if key not in od.tables.keys():
                return "table %s not carried over" % name
            xa = gen.table_array(ds.tables[name])
            xb = gen.table_array(od.tables[key])
            if xa.dtype.names != xb.dtype.names:
                return "table %s columns differ" % name
            for col in (xa.dtype.names or []):
                if not gen.arr_equal(xa[col], xb[col]):
                    return "table %s column %s differs" % (name, col)
    elif len(list(od.tables.keys())):
        return "tables stored although not requested"
    return None


# --------------------------------------------------------------------------
# direct calls of yield_filtered_array_stacks
# --------------------------------------------------------------------------
class IntOnly:
    """A source like the tdms image column: integer indexing only."""

    def __init__(self, arr):
        self._a = arr
        self.shape = arr.shape
        self.dtype = arr.dtype

    def __len__(self):
        return len(self._a)

    def __getitem__(self, i):
        import numbers
        if not isinstance(i, numbers.Integral):
            raise NotImplementedError("integers only")
        return self._a[int(i)]


def run_stacks_case(case, workdir):
    import numpy as np
    import h5py
    from dclab.rtdc_dataset import writer, export
    n, w, salt = case["n"], case["w"], case["salt"]
    arr = (np.arange(n * w, dtype=np.int32).reshape(n, w) * 3 + salt)
    idx = list(case["idx"])
    old_cfg = writer.CHUNK_SIZE_BYTES
    writer.CHUNK_SIZE_BYTES = case["cfg"]
    h5 = None
    try:
        if case["route"] == 1:
            data = IntOnly(arr)
        elif case.get("h5"):
            os.makedirs(workdir, exist_ok=True)
            h5 = h5py.File(os.path.join(workdir, "stack.h5"), "w")
            data = h5.create_dataset("d", data=arr)
        else:
            data = arr
        chunks = [np.array(c, copy=True) for c in
                  export.yield_filtered_array_stacks(data, np.array(
                      idx, dtype=int) if case.get("asarray") else idx)]
    finally:
        writer.CHUNK_SIZE_BYTES = old_cfg
        if h5 is not None:
            h5.close()
    esize = w * 4
    c = max(10, case["cfg"] // esize)
    flat = []
    for ch in chunks:
        flat += [int(r[0]) for r in ch]
    fail = None
    got = np.concatenate(chunks) if chunks else np.zeros((0, w), np.int32)
    want = arr[idx] if idx else np.zeros((0, w), np.int32)
    if got.shape != want.shape or not np.array_equal(got, want):
        fail = ("concatenated stacks differ from data[indices]: %d events, "
                "expected %d" % (len(got), len(want)))
    elif any(len(ch) == 0 for ch in chunks):
        fail = "a stack is empty (the writer rejects empty data)"
    coq = "(%d, %d, %d, %s, %s)" % (case["route"], case["cfg"], esize,
                                     zl(int(v) for v in arr[:, 0]),
                                     zl(idx))
    return dict(flat=flat, coq=coq, fail=fail, finding=None,
                nontrivial=len(chunks) >= 2, info=dict(c=c))


# --------------------------------------------------------------------------
# direct calls of store_filtered_feature: every non-scalar kind x both routes
# x selection sizes k*c-1, k*c, k*c+1 (k = 1, 2, 3); a fixed grid, part of
# every run
# --------------------------------------------------------------------------
SFF_FEATS = ["image", "image_bg", "mask", "trace", NONSCALAR_TEMP]


def sff_grid(rng):
    cases = []
    for feat in SFF_FEATS + ["contour"]:
        for route in ((1,) if feat == "contour" else (0, 1)):
            for k in (1, 2, 3):
                for dl in (-1, 0, 1):
                    cases.append(dict(kind="sff", feat=feat, route=route, k=k,
                                      dl=dl, seed=rng.randint(0, 10 ** 6)))
    return cases


def run_sff_case(case, workdir):
    import warnings
    import numpy as np
    import h5py
    from dclab.rtdc_dataset import writer, export
    from dclab.rtdc_dataset.writer import RTDCWriter
    from . import gen
    warnings.simplefilter("ignore")
    register_temp()
    os.makedirs(workdir, exist_ok=True)
    rng = random.Random(case["seed"])
    feat, route = case["feat"], case["route"]
    c = 10
    size = case["k"] * c + case["dl"]
    n = size + rng.randint(1, 4)
    idx = sorted(rng.sample(range(n), size))
    filt = np.zeros(n, dtype=bool)
    filt[idx] = True
    if feat in ("image", "image_bg"):
        parts = {"": np.array([[[rng.randint(0, 255) for _ in range(9)]
                                for _ in range(6)] for _ in range(n)],
                              dtype=np.uint8)}
    elif feat == "mask":
        parts = {"": np.array([[[rng.random() < .4 for _ in range(9)]
                                for _ in range(6)] for _ in range(n)],
                              dtype=bool)}
    elif feat == "trace":
        parts = {tr: np.array([[rng.randint(-99, 999) for _ in range(12)]
                               for _ in range(n)], dtype=np.int16)
                 for tr in ("fl1_raw", "fl1_median")}
    elif feat == "contour":
        parts = {"": [gen.random_contour(rng) for _ in range(n)]}
    else:
        parts = {"": np.array([[rng.randint(-9, 9) / 4 for _ in range(3)]
                               for _ in range(n)], dtype=np.float32)}
    wrap = (lambda a: IntOnly(a)) if (route == 1 and feat != "contour") \
        else (lambda a: a)
    data = ({k: wrap(v) for k, v in parts.items()} if feat == "trace"
            else wrap(parts[""]))
    trrank = {"": 0, "fl1_median": 1, "fl1_raw": 2}
    old_cfg = writer.CHUNK_SIZE_BYTES
    writer.CHUNK_SIZE_BYTES = 1
    out = os.path.join(workdir, "sff.rtdc")
    try:
        with RTDCWriter(out, mode="append") as hw:
            hw.store_metadata(gen.base_meta(with_fl=True))
            export.store_filtered_feature(hw, feat, data, filt)
    finally:
        writer.CHUNK_SIZE_BYTES = old_cfg
    flat = [0]
    fail = None
    cparts = []
    with h5py.File(out, "r") as h5:
        ev = h5["events"]
        for key, arr in parts.items():
            src = [tok(arr[i]) for i in range(n)]
            if feat == "contour":
                got = [tok(ev[feat][str(i)][:]) for i in range(len(ev[feat]))]
            elif feat == "trace":
                got = [tok(r) for r in ev[feat][key][:]]
            elif feat == "mask":
                got = [tok(r != 0) for r in ev[feat][:]]
            else:
                got = [tok(r) for r in ev[feat][:]]
            flat += [0, trrank[key], len(got)] + got
            if feat in ("trace", NONSCALAR_TEMP):
                dso = ev[feat][key] if feat == "trace" else ev[feat]
                if np.dtype(dso.dtype) != arr.dtype and fail is None:
                    fail = ("store_filtered_feature(%s, route %d) stored %s, "
                            "the source holds %s" % (feat, route, dso.dtype,
                                                     arr.dtype))
            if got != [src[i] for i in idx] and fail is None:
                fail = ("store_filtered_feature(%s, route %d): %d events "
                        "stored, expected the %d selected ones in order" % (
                            feat, route, len(got), len(idx)))
            if feat == "contour":
                sl, fancy, esize = 0, 0, 8
            else:
                sl = fancy = int(route == 0)
                esize = int(np.prod(arr.shape[1:])) * arr.dtype.itemsize
            cparts.append("(%d, %d, %d, %d, %s)" % (trrank[key], sl, fancy,
                                                     esize, zl(src)))
    coq = "(1, (0, %d, %s), %s)" % (kind_of(feat), common.clist(cparts),
                                    common.blist(filt))
    return dict(flat=flat, coq=coq, fail=fail, finding=None, nontrivial=True,
                info={})


# --------------------------------------------------------------------------
# images are stored as uint8 (finding C02-image-cast-uint8): the stored pixels
# against the model's conversion
# --------------------------------------------------------------------------
def run_imgcast_case(case, workdir):
    import warnings
    import numpy as np
    import h5py
    import dclab
    warnings.simplefilter("ignore")
    os.makedirs(workdir, exist_ok=True)
    rng = random.Random(case["seed"])
    n, feat = 5, case["feat"]
    if case["dtype"] == "uint16":
        arr = np.array([[[rng.choice([0, 1, 254, 255, 256, 300, 2261, 65535])
                          for _ in range(4)] for _ in range(3)]
                        for _ in range(n)], dtype=np.uint16)
    else:
        arr = np.array([[[rng.choice([-24, -4, -1, 0, 3, 20, 23, 2039, 2040,
                                      2044, 2400]) / 8
                          for _ in range(4)] for _ in range(3)]
                        for _ in range(n)], dtype=np.float32)
    ds = dclab.new_dataset({feat: arr, "deform": np.arange(1, n + 1) / 8})
    ds.config["setup"]["software version"] = "verifgen 1.0"
    sel = sorted(rng.sample(range(n), 3))
    m = np.zeros(n, dtype=bool)
    m[sel] = True
    ds.filter.manual[:] = m
    ds.apply_filter()
    out = os.path.join(workdir, "cast.rtdc")
    ds.export.hdf5(out, features=[feat], filtered=case["filtered"],
                   override=True)
    want = arr[sel] if case["filtered"] else arr
    with h5py.File(out, "r") as h5:
        got = h5["events"][feat][:]
    flat = [int(v) for v in got.ravel()]
    coq = zl(int(round(float(v) * 8)) for v in want.ravel())
    fail = None
    if got.shape != want.shape or not np.array_equal(
            got.astype(np.float64), want.astype(np.float64)):
        fail = ("feature %s (%s): exported values differ from the selected "
                "source values (source range %s..%s, stored %s..%s as %s)" % (
                    feat, arr.dtype, want.min(), want.max(), got.min(),
                    got.max(), got.dtype))
    return dict(flat=flat, coq=coq, fail=fail,
                finding=F_IMG if fail and got.shape == want.shape else None,
                nontrivial=True, info={})


# --------------------------------------------------------------------------
# override=False on an existing file: OSError, file untouched
# --------------------------------------------------------------------------
def run_override_case(case, workdir):
    import warnings
    import numpy as np
    import dclab
    warnings.simplefilter("ignore")
    os.makedirs(workdir, exist_ok=True)
    ds = dclab.new_dataset({"deform": np.arange(1, 6) / 8,
                            "area_um": np.arange(5.) + 1})
    ds.config["setup"]["software version"] = "verifgen 1.0"
    ext = ".tsv" if case["what"] == "tsv" else ".rtdc"
    name = "exists" + ("" if case["nosuffix"] else ext)
    target = os.path.join(workdir, "exists" + ext)
    blob = b"precious bytes %d" % case["seed"]
    with open(target, "wb") as fd:
        fd.write(blob)
    fail = None
    try:
        if case["what"] == "tsv":
            ds.export.tsv(os.path.join(workdir, name), ["deform"],
                          override=False)
        else:
            ds.export.hdf5(os.path.join(workdir, name), ["deform"],
                           override=False)
        fail = "export with override=False replaced an existing file"
    except OSError:
        pass
    if fail is None and open(target, "rb").read() != blob:
        fail = "export with override=False raised but changed the file"
    return dict(flat=None, coq=None, fail=fail, finding=None, nontrivial=True,
                info={})


# --------------------------------------------------------------------------
# tsv
# --------------------------------------------------------------------------
def ftok(v):
    import numpy as np
    if np.isnan(v):
        return 10 ** 9 + 1
    if v == np.inf:
        return 10 ** 9 + 2
    if v == -np.inf:
        return 10 ** 9 + 3
    k = float(v) * 8
    if k != int(k):
        raise ValueError("not dyadic: %r" % v)
    return int(k)


def parse_tsv(path):
    raw = open(path, "rb").read()
    bom = raw.startswith(b"\xef\xbb\xbf")
    lines = raw.decode("utf-8-sig").split("\n")
    head = [ln for ln in lines if ln.startswith("#")]
    rows = [[float(x) for x in ln.split("\t")] for ln in lines
            if ln and not ln.startswith("#")]
    return bom, head, rows


def run_tsv_case(case, workdir):
    import warnings
    import numpy as np
    warnings.simplefilter("ignore")
    os.makedirs(workdir, exist_ok=True)
    ds, keep, truth = build_source(case["src"], workdir)
    n = len(ds)
    mask = np.zeros(n, dtype=bool)
    for i in case["mask"]:
        if i < n:
            mask[i] = True
    mask, real_filter = apply_filters(ds, mask, case.get("filters"))
    req = [f for f in case["features"] if f.lower() in ds.features_scalar]
    if case.get("anc"):
        # features that are not stored but computed (ancillary)
        anc = sorted(set(ds.features_scalar) - set(ds.features_innate)
                     - {"index"})
        req = req + anc[:3]
    if not req:
        req = sorted(ds.features_scalar)[:2]
    uniq = sorted(set(f.lower() for f in req))
    names = {f: i for i, f in enumerate(uniq)}
    filtered = bool(case["filtered"])
    dyadic = not case.get("real")
    cols = {}
    coq_feats = []
    for f in uniq:
        v = np.asarray(ds[f][:], dtype=np.float64)
        cols[f] = v
        if dyadic:
            coq_feats.append("(%d, %d, [(0, 1, 1, 8, %s)])" % (
                names[f], 1 if f == "index" else 0,
                zl(ftok(x) for x in v)))
    out = os.path.join(workdir, "out.tsv")
    ds.export.tsv(out, features=list(req), filtered=filtered, override=True,
                  meta_data={"verif": "c02"})
    bom, head, rows = parse_tsv(out)
    idx = np.flatnonzero(mask) if filtered else np.arange(n)
    fail = None
    if not bom:
        fail = "no UTF-8 BOM"
    elif ("# " + "\t".join(uniq)) not in head:
        fail = "header line with the feature names %s is missing" % uniq
    elif len(rows) != len(idx):
        fail = "%d rows, %d events selected" % (len(rows), len(idx))
    else:
        for r, i in zip(rows, idx):
            if len(r) != len(uniq):
                fail = "row with %d columns, %d features" % (len(r), len(uniq))
                break
            for j, f in enumerate(uniq):
                x = cols[f][i]
                y = r[j]
                if np.isnan(x) or np.isinf(x):
                    ok = (np.isnan(x) and np.isnan(y)) or x == y
                else:
                    ok = abs(x - y) <= 0.5e-10 * abs(x) * (1 + 1e-6)
                if not ok:
                    fail = ("event %d feature %s: %r written as %r" %
                            (i, f, x, y))
                    break
            if fail:
                break
    flat = coq = None
    if dyadic:
        flat = [0]
        try:
            for r in rows:
                flat += [len(r)] + [ftok(x) for x in r]
        except ValueError:
            flat = [7]
        coq = "(%s, %s, %d, %s)" % (common.clist(coq_feats),
                                    common.blist(mask), filtered,
                                    zl([names[f.lower()]
                                                  for f in req]))
    try:
        import dclab
        dclab.PolygonFilter.clear_all_filters()
    except Exception:
        pass
    return dict(flat=flat, coq=coq, fail=fail, finding=None,
                nontrivial=len(idx) >= 2 and len(uniq) >= 1,
                info=dict(real_filter=real_filter))


# --------------------------------------------------------------------------
# generators
# --------------------------------------------------------------------------
def pick_mask(rng, n, c, limit=None):
    """indices of a mask over n events whose size is chosen around c; the
    selected events lie below `limit` mostly (short features of tdms)"""
    pool_n = n if limit is None else min(n, limit)
    sizes = [0, 1, c - 1, c, c + 1, 2 * c, 2 * c + 1, pool_n,
             rng.randint(0, pool_n), rng.randint(0, pool_n)]
    k = max(0, min(pool_n, rng.choice(sizes)))
    sel = rng.sample(range(pool_n), k)
    if limit is not None and limit < n and rng.random() < 0.5:
        sel += rng.sample(range(limit, n), min(n - limit, rng.randint(1, 5)))
    return sorted(sel)


def gen_export_case(rng, thorough=False):
    r = rng.random()
    if r < 0.16:
        t = "dict"
    elif r < 0.40:
        t = "hdf5"
    elif r < 0.52:
        t = "hier-dict"
    elif r < 0.66:
        t = "hier-hdf5"
    elif r < 0.76:
        t = "basin"
    elif r < 0.92:
        t = "tdms"
    else:
        t = "hier-tdms"
    cfg = rng.choice([1, 1, 600, 702, 1000, 1300])
    case = dict(kind="export", cfg=cfg,
                filtered=rng.random() < 0.75,
                skip_checks=False,
                logs=rng.random() < 0.5, tables=rng.random() < 0.5)
    if t in ("tdms", "hier-tdms"):
        fx = rng.choice(TDMS_FIXTURES if thorough else TDMS_FIXTURES[:2]
                        + TDMS_FIXTURES[:1])
        src = dict(type=t, fixture=fx, seed=rng.randint(0, 10 ** 6))
        if fx == "fmt-tdms_minimal_2016":
            n, short = 156, 14
            avail = ["mask", "contour", "pos_x", "size_x", "frame", "index"]
        elif fx == "fmt-tdms_fl-image_2016":
            n, short = 44, 12
            avail = ["mask", "contour", "trace", "image", "pos_x", "frame",
                     "fl1_max"]
        else:
            n, short = 137, 137
            avail = ["trace", "pos_x", "size_y", "fl2_max", "index"]
        k = rng.randint(1, 4)
        feats = rng.sample(avail, min(k, len(avail)))
        if "image" in feats:
            short = min(short, 3)
        if t == "hier-tdms":
            # the child consists of events for which all features exist
            # (the fixtures' image/contour data are truncated)
            short = min(short, 40)
            drop = rng.sample(range(short), rng.randint(0, min(2, short - 1)))
            src["parent_keep"] = [i for i in range(short) if i not in drop]
            n = short = len(src["parent_keep"])
        case["mask"] = pick_mask(rng, n, 10, limit=short)
    else:
        kinds = ["scalar"]
        for kd, p in (("uint", .4), ("image", .6), ("image_bg", .25),
                      ("mask", .5), ("contour", .5), ("trace", .5)):
            if rng.random() < p:
                kinds.append(kd)
        # chunk size of the feature the mask is tuned to
        esz = rng.choice([54, 54, 24, 24])
        c = max(10, cfg // esz)
        n = rng.choice([1, 2, rng.randint(3, c), 2 * c + 1 + rng.randint(0, 6),
                        2 * c + 1 + rng.randint(0, 6), 2 * c + 3])
        src = dict(type=t, n=n, kinds=kinds, seed=rng.randint(0, 10 ** 6),
                   special=rng.random() < 0.3,
                   temp=(t != "basin" and rng.random() < 0.4))
        if t != "basin" and rng.random() < 0.35:
            # fluorescence section; the declared channel count may be
            # missing or differ from the number of fl*_max features
            nch = rng.choice([1, 2, 3, 3])
            src["fl"] = dict(channels=nch,
                             count=rng.choice([None, nch, 3, 3, 2]))
        if t != "basin" and rng.random() < 0.3:
            src["wide"] = True          # int32 traces, a float32 scalar
        if t != "basin" and rng.random() < 0.2:
            src["qpi"] = True           # qpi_pha: float32 image feature
        if t in ("hdf5", "dict", "hier-hdf5", "hier-dict") and \
                rng.random() < 0.3:
            bm = {}
            r4 = rng.random()
            if r4 < 0.6:
                bm["imaging:roi size x"] = rng.choice([None, 99, 5]) \
                    if t.endswith("hdf5") else rng.choice([99, 5])
                bm["imaging:roi size y"] = rng.choice([77, 3])
            if r4 > 0.3:
                bm["fluorescence:samples per event"] = rng.choice([7, 1000])
            src["badmeta"] = bm
        if ALLOW_IMG_CAST and t in ("hdf5", "dict", "hier-hdf5") and \
                ("image" in kinds or "image_bg" in kinds) and \
                rng.random() < 0.25:
            src["imgwide"] = True
        nn = n
        if t.startswith("hier-"):
            src["parent_drop"] = sorted(rng.sample(range(n),
                                                   rng.randint(0, min(3, n - 1))))
            nn = n - len(src["parent_drop"])
            if nn >= 2 and rng.random() < 0.5:
                # grand-child
                src["levels"] = 2
                src["parent_drop2"] = sorted(rng.sample(
                    range(nn), rng.randint(0, min(2, nn - 1))))
                nn -= len(src["parent_drop2"])
        case["mask"] = pick_mask(rng, nn, c)
        avail = ["index"] + gen_feature_names(src)
        if "mask" in kinds and "contour" not in kinds and t != "basin":
            avail.append("contour")     # ancillary: computed from the mask
        k = rng.randint(1, min(6, len(avail)))
        feats = rng.sample(avail, k)
        if src.get("fl"):
            flf = ["fl%d_max" % i for i in range(1, src["fl"]["channels"] + 1)]
            r3 = rng.random()
            if r3 < 0.65:
                # a subset of the fluorescence channels
                feats = [f for f in feats if f not in flf] + rng.sample(
                    flf, rng.randint(1, max(1, len(flf) - 1)))
            elif r3 < 0.8:
                feats = [f for f in feats if f not in flf] or ["index"]
        if rng.random() < 0.1:
            feats = [f for f in feats if f == "trace"] or ["trace"]
            feats += [f for f in ("userdef1", "userdef2") if f in avail][:1]
        case["skip_checks"] = rng.random() < 0.15
        if t == "hdf5" and n >= 4 and rng.random() < 0.4:
            # unequal feature lengths; all-pass / real filter / unfiltered
            short = {}
            for f in avail:
                if f in ("image", "image_bg", "mask", "trace", "qpi_pha") \
                        and rng.random() < 0.7:
                    short[f] = rng.randint(1, min(6, n - 1))
            if "trace" in short and rng.random() < 0.7:
                # traces of different lengths, the alphabetically first one
                # (fl1_median) not being the shortest
                a = rng.randint(0, min(4, n - 2))
                short["trace"] = {"fl1_median": a,
                                  "fl1_raw": a + rng.randint(1, min(
                                      3, n - 1 - a))}
            scal = [f for f in avail if kind_of(f) == 0 and f != SCALAR_TEMP]
            if ALLOW_SHORT_SCALAR and scal and rng.random() < 0.3:
                short[rng.choice(scal)] = rng.randint(1, min(3, n - 1))
            if short:
                src["short"] = short
                feats = list(set(feats) | set(rng.sample(
                    sorted(short), rng.randint(1, len(short)))) | {"index"})
                r2 = rng.random()
                if r2 < 0.45:
                    case["filtered"], case["mask"] = True, list(range(n))
                elif r2 < 0.8:
                    case["filtered"] = True
                else:
                    case["filtered"] = False
                # without the length check only the fast path is defined
                case["skip_checks"] = (r2 < 0.45 or r2 >= 0.8) and \
                    rng.random() < 0.2
    # duplicates in the feature list
    if rng.random() < 0.4:
        feats = feats + [rng.choice(feats)]
        rng.shuffle(feats)
    case["src"] = src
    case["features"] = feats
    r = rng.random()
    case["fmode"] = "default" if r < 0.12 else ("empty" if r < 0.18 else "list")
    if t in ("tdms", "hier-tdms") and case["fmode"] == "default":
        case["fmode"] = "list"
    case["basins"] = bool(rng.random() < 0.3)
    case["prefix"] = rng.choice(["src_", "src_", "src_", "orig-", "", "x"])
    case["nosuffix"] = rng.random() < 0.2
    if rng.random() < 0.4:
        case["filters"] = gen_filters(rng)
        if src.get("short"):
            case["skip_checks"] = False
    return case


def gen_filters(rng):
    """real filter settings on top of the manual mask"""
    flt = {}
    r = rng.random()
    if r < 0.5:
        flt["box"] = sorted([rng.choice([0, .1, .2, .3]),
                             rng.choice([.6, .8, .9, .99])])
    if rng.random() < 0.35:
        flt["polygon"] = [rng.choice([.4, .7, 1.0]), rng.choice([.5, .8, 1.0])]
    if rng.random() < 0.4:
        flt["invalid"] = True
    if rng.random() < 0.2:
        flt["limit"] = rng.randint(1, 12)
    if not flt:
        flt["box"] = [0.2, 0.8]
    if rng.random() < 0.2:
        flt["disable"] = True
    return flt


def gen_feature_names(src):
    """names of the features a generated source will have (replays the
    generator of harness/gen.py with the source's seed)"""
    from . import gen
    rng = random.Random(src["seed"])
    spec = gen.random_dataset_spec(rng, src["n"], kinds=tuple(src["kinds"]),
                                   special=src.get("special", False))
    names = sorted(set(spec["features"]) | set(
        "fl%d_max" % i for i in range(1, src.get("fl", {}).get("channels", 0)
                                      + 1)))
    if src.get("qpi"):
        names.append("qpi_pha")
    if src.get("temp"):
        names += [NONSCALAR_TEMP, SCALAR_TEMP]
    return names


def gen_stacks_case(rng, thorough=False):
    w = rng.choice([1, 2, 5])
    esize = 4 * w
    c = rng.choice([10, 10, 11, 13, 17])
    cfg = 1 if c == 10 else c * esize + rng.randint(0, esize - 1)
    n = rng.randint(1, 3 * c)
    sizes = [0, 1, c - 1, c, c + 1, 2 * c - 1, 2 * c, 2 * c + 1, 3 * c,
             3 * c + 1, rng.randint(0, 4 * c)]
    k = rng.choice(sizes)
    route = rng.choice([0, 1])
    h5 = route == 0 and rng.random() < 0.25
    if h5:
        idx = sorted(rng.sample(range(n), min(k, n)))
    elif rng.random() < 0.5:
        idx = sorted(rng.sample(range(n), min(k, n)))
    else:
        idx = [rng.randrange(n) for _ in range(k)]
    return dict(kind="stacks", route=route, cfg=cfg, n=n, w=w,
                salt=rng.randint(0, 99), idx=idx, h5=h5,
                asarray=rng.random() < 0.5)


def gen_tsv_case(rng, thorough=False):
    t = rng.choice(["dict", "hdf5", "hier-hdf5", "hier-dict"])
    n = rng.choice([1, 2, 7, 19, rng.randint(3, 30)])
    src = dict(type=t, n=n, kinds=["scalar", "uint"],
               seed=rng.randint(0, 10 ** 6), special=rng.random() < 0.5,
               temp=rng.random() < 0.3)
    nn = n
    if t.startswith("hier-"):
        src["parent_drop"] = sorted(rng.sample(range(n),
                                               rng.randint(0, min(3, n - 1))))
        nn = n - len(src["parent_drop"])
    avail = [f for f in gen_feature_names(src) if f != NONSCALAR_TEMP]
    avail.append("index")
    feats = rng.sample(avail, rng.randint(1, min(5, len(avail))))
    if rng.random() < 0.4:
        feats.append(rng.choice(feats))
    if rng.random() < 0.3:
        feats[0] = feats[0].upper() if feats[0] != SCALAR_TEMP else feats[0]
    mask = pick_mask(rng, nn, max(2, nn // 2))
    case = dict(kind="tsv", src=src, mask=mask, features=feats,
                filtered=rng.random() < 0.7)
    if rng.random() < 0.5:
        case["filters"] = gen_filters(rng)
    if rng.random() < 0.25:
        # ancillary features (aspect, circ, time, ...): values are not
        # dyadic, oracle only
        case["anc"] = True
        case["real"] = True
        src["special"] = False
    return case


def gen_tsv_real_case(rng):
    """oracle only: the precision bound on non-dyadic values (tdms fixture)"""
    src = dict(type="tdms", fixture=TDMS_FIXTURES[0],
               seed=rng.randint(0, 10 ** 6))
    feats = rng.sample(["area_cvx", "deform", "pos_x", "size_x", "circ",
                        "time", "frame", "area_um", "index"], 4)
    return dict(kind="tsv", src=src, real=True, features=feats,
                mask=pick_mask(rng, 156, 40), filtered=rng.random() < 0.8)


# --------------------------------------------------------------------------
# driver
# --------------------------------------------------------------------------
RUNNERS = {"export": run_export_case, "sff": run_sff_case,
           "override": run_override_case, "imgcast": run_imgcast_case, "stacks": run_stacks_case,
           "tsv": run_tsv_case}
MODEL_FN = {"export": "export_full_flat", "sff": "sff_flat",
            "imgcast": "cast_flat", "stacks": "stacks_flat",
            "tsv": "tsv_flat"}
HEADER = ("From Coq Require Import ZArith List.\nImport ListNotations.\n"
          "From Verif Require Import Model.C02.\n")


def _work(args):
    i, case, scratch = args
    wd = os.path.join(scratch, "case%05d" % i)
    try:
        r = RUNNERS[case["kind"]](case, wd)
    except BaseException as e:      # dclab has errors deriving BaseException
        import traceback
        r = dict(flat=None, coq=None, fail=None, finding=None,
                 nontrivial=False, info={},
                 crash="%r\n%s" % (e, traceback.format_exc()[-1500:]))
    finally:
        import shutil
        shutil.rmtree(wd, ignore_errors=True)
    return r


def load_corpus(listed=None):
    d = os.path.join(common.VERIF, "corpus", PROP)
    cases = []
    if os.path.isdir(d):
        for fn in sorted(os.listdir(d)):
            if fn.endswith(".json"):
                e = json.load(open(os.path.join(d, fn)))
                if e.get("requires_finding") and \
                        e["requires_finding"] not in (listed or []):
                    continue
                cases.append(e["case"])
    return cases


def run_cases(cases, scratch):
    import multiprocessing as mp
    import dclab  # noqa: F401  (import before forking)
    import hdf5plugin  # noqa: F401
    ctx = mp.get_context("fork")
    jobs = [(i, c, scratch) for i, c in enumerate(cases)]
    # a deadline per result: a worker that dies (or hangs) must not block
    # the check for ever; what is missing is reported as a crashed case
    results = [None] * len(jobs)
    per_case = 240
    with ctx.Pool(min(common.NCPU, 14)) as pool:
        it = pool.imap(_work_indexed, jobs)
        lost = None
        for _ in range(len(jobs)):
            try:
                i, r = it.next(timeout=per_case)
            except mp.TimeoutError:
                lost = "no result within %d s (worker lost or hanging)" % \
                    per_case
                break
            except StopIteration:
                break
            results[i] = r
        if lost:
            pool.terminate()
    for i, r in enumerate(results):
        if r is None:
            results[i] = dict(flat=None, coq=None, fail=None, finding=None,
                              nontrivial=False, info={},
                              crash=lost or "no result")
    return results


def _work_indexed(args):
    return args[0], _work(args)


def run(run):
    global ALLOW_SHORT_SCALAR, ALLOW_IMG_CAST
    rng = run.rng
    ALLOW_SHORT_SCALAR = F_SCALAR in run.finding_ids()
    ALLOW_IMG_CAST = F_IMG in run.finding_ids()
    cases = load_corpus(run.finding_ids())
    run.count("corpus", len(cases))
    n_exp, n_st, n_tsv, n_real = ((1500, 1500, 400, 40) if run.thorough
                                  else (150, 160, 50, 6))
    cases += sff_grid(rng)
    if ALLOW_IMG_CAST:
        cases += [dict(kind="imgcast", feat=f, dtype=dt, filtered=fl,
                       seed=rng.randint(0, 10 ** 6))
                  for f, dt in (("image", "uint16"), ("image_bg", "float32"),
                                ("image", "float32"))
                  for fl in (True, False)]
    cases += [dict(kind="override", what=w, nosuffix=ns, seed=rng.randint(0, 99))
              for w in ("hdf5", "tsv") for ns in (False, True)]
    cases += [gen_export_case(rng, run.thorough) for _ in range(n_exp)]
    cases += [gen_stacks_case(rng, run.thorough) for _ in range(n_st)]
    cases += [gen_tsv_case(rng, run.thorough) for _ in range(n_tsv)]
    cases += [gen_tsv_real_case(rng) for _ in range(n_real)]
    import time as _t
    _t0 = _t.time()
    results = run_cases(cases, run.scratch)
    run.extra["t_impl_s"] = round(_t.time() - _t0, 1)
    by_kind = {"export": [], "stacks": [], "tsv": [], "sff": [],
               "imgcast": []}
    for c, r in zip(cases, results):
        run.record_case(c, r["nontrivial"])
        run.count("kind:" + c["kind"])
        if c["kind"] in ("export", "tsv") and \
                (c.get("filters") or {}).get("disable"):
            run.count("%s:enable-filters-off" % c["kind"])
        if r.get("info", {}).get("filter_fallback"):
            run.count("filter-setup-fell-back-to-weaker-settings")
        if c["kind"] in ("export", "tsv") and c.get("filters"):
            run.count("%s:real-filter:%s" % (
                c["kind"], "differs-from-manual"
                if r.get("info", {}).get("real_filter") else "same"))
        if c["kind"] == "export":
            run.count("src:" + c["src"]["type"])
            for opt in ("wide", "qpi", "imgwide", "badmeta"):
                if c["src"].get(opt):
                    run.count("src-opt:" + opt)
            if c["src"].get("levels", 1) >= 2:
                run.count("src-opt:hierarchy-2-levels")
            run.count("prefix:%r" % c.get("prefix", "src_"))
            run.count("filtered" if c["filtered"] else "unfiltered")
            run.count("nsel=%s" % bucket(r["info"].get("nsel")))
            for f in set(c["features"]):
                run.count("feat-kind:%d" % kind_of(f))
            if c["src"].get("short"):
                allp = c["filtered"] and len(c["mask"]) >= c["src"]["n"]
                run.count("unequal:%s%s" % (
                    "all-pass" if allp else
                    ("filter" if c["filtered"] else "unfiltered"),
                    ":skip" if c["skip_checks"] else ""))
            if c["src"].get("fl"):
                nfl = len([f for f in set(c["features"])
                           if f.startswith("fl") and f.endswith("_max")])
                run.count("fl:channels=%d:declared=%s:exported=%d" % (
                    c["src"]["fl"]["channels"], c["src"]["fl"]["count"], nfl))
            run.count("fmode:%s" % c.get("fmode", "list"))
            run.count("basins:%d" % bool(c.get("basins")))
        elif c["kind"] == "sff":
            run.count("sff:%s:%s:%dc%+d" % (c["feat"],
                                            "slow" if c["route"] else "fast",
                                            c["k"], c["dl"]))
        elif c["kind"] == "tsv":
            run.count("tsv:%s%s" % ("filtered" if c["filtered"] else
                                    "unfiltered", ":anc" if c.get("anc")
                                    else ""))
        elif c["kind"] == "stacks":
            run.count("route:%d" % c["route"])
            run.count("nidx/c=%s" % (len(c["idx"]) // r["info"].get("c", 10)
                                     if "info" in r else "?"))
        if r.get("crash"):
            run.broken.append(("harness(C02)", "case crashed: %s | %s" % (
                json.dumps(c)[:300], r["crash"][:600])))
            continue
        if r["fail"] is not None:
            run.count("oracle-fail:%s" % (r["finding"] or "new"))
            run.oracle_failure(c, r["fail"], r["finding"])
        if r["coq"] is not None and r["flat"] is not None:
            by_kind[c["kind"]].append((c, r))
    for kind, items in by_kind.items():
        if not items:
            continue
        model = common.coq_map(run.scratch, "c02_" + kind, HEADER,
                               MODEL_FN[kind], [r["coq"] for _, r in items],
                               shard=25 if kind == "export" else 100)
        for (c, r), m in zip(items, model):
            run.corr_checked += 1
            if kind == "export":
                # last number: export_guard (theorem C02_export_total_partial)
                guard, m = m[-1], m[:-1]
                if guard == 1:
                    run.count("guard:true")
                    if r["flat"][0] == 1:
                        run.mismatch(c, ["export_guard holds"],
                                     r["flat"][:3], what="guard")
                        continue
            if m != r["flat"]:
                run.mismatch(c, m[:200], r["flat"][:200])


def bucket(k):
    if k is None:
        return "err"
    if k <= 1:
        return str(k)
    if k < 9:
        return "2-8"
    if k <= 14:
        return str(k)
    if k < 20:
        return "15-19"
    if k <= 27:
        return "20-27"
    return "28+"


# --------------------------------------------------------------------------
def _run_one(case):
    import tempfile
    import shutil
    base = os.environ.get("VERIF_SCRATCH", "/var/tmp")
    wd = tempfile.mkdtemp(prefix="verif-C02-replay-", dir=base)
    try:
        return RUNNERS[case["kind"]](case, os.path.join(wd, "c"))
    finally:
        shutil.rmtree(wd, ignore_errors=True)


def shrink(run, failure):
    case = failure["case"]
    if case.get("kind") != "export":
        return failure
    fid = failure.get("finding")

    def fails(c):
        try:
            r = _run_one(c)
            return r["fail"] is not None and r["finding"] == fid
        except Exception:
            return False
    cur = dict(case)
    # fewer features, then a smaller mask
    feats = list(cur["features"])
    for f in list(feats):
        cand = [x for x in feats if x != f]
        if cand and fails(dict(cur, features=cand)):
            feats = cand
    cur["features"] = feats
    for flag in ("logs", "tables"):
        if cur.get(flag) and fails(dict(cur, **{flag: False})):
            cur[flag] = False
    mask = list(cur["mask"])
    for i in list(mask):
        cand = [x for x in mask if x != i]
        if fails(dict(cur, mask=cand)):
            mask = cand
    cur["mask"] = mask
    r = _run_one(cur)
    if r["fail"] is None:
        return failure
    return dict(case=cur, desc=r["fail"], finding=fid)


def search(run, broken):
    rng = run.rng
    cases = [gen_export_case(rng, True) for _ in range(900)]
    cases += [gen_stacks_case(rng, True) for _ in range(1500)]
    cases += [gen_tsv_case(rng, True) for _ in range(200)]
    results = run_cases(cases, run.scratch)
    for c, r in zip(cases, results):
        if r.get("fail") is not None and r.get("finding") is None:
            return shrink(run, dict(case=c, desc=r["fail"], finding=None))
    return None


def replay(payload):
    case = payload.get("case")
    if not case or "kind" not in case:
        print("replay: nothing executable in this file (kind=%s): %s" % (
            payload.get("kind"), json.dumps(payload.get("broken"))[:2000]))
        return 1
    r = _run_one(case)
    print("case:", json.dumps(case))
    print("implementation:", (r["flat"] or [])[:60])
    if r["fail"]:
        print("FAILS:", r["fail"], "[%s]" % (r["finding"] or "no known finding"))
        return 1
    print("passes on the current tree")
    return 0
