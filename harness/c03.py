"""C03 — the combined event filter equals the specification of the settings.

Correspondence (1): the real dataset object (`dclab.new_dataset(dict)`, or a
hierarchy child of one) driven through histories of setting changes and
`apply_filter()` calls, against Model/C03.v (`run_flat`, evaluated by
vm_compute): `.all/.box/.polygon/.invalid` after every application, `[9]`
for an application that raised ValueError.
Correspondence (2): the Coq SPECIFICATION (`spec_flat`: spec_all/spec_box/
spec_polygon/spec_invalid of the settings before each application) against
the stateless Python `reference`.
Property oracle (model independent): `reference`, a from-scratch evaluation
of `ds.config["filtering"]`, the polygon filter instances, the current
feature data and `filter.manual` in plain Python, compared with
`ds.filter.*` after every successful `apply_filter()`; two applications with
nothing changed in between must select the same events.
Oracles of the proof checked here: the seeded random choice of "limit events"
(distinct, in range, right count, deterministic, a function of pool size and
limit) and the polygon hash (per filter a function of, and injective in,
(axes, points, inverted)).
"""
import json
import os

from . import common

PROP = "C03"
RULE = ("random histories (1-60 operations) of set/change/delete range "
        "(bounds tied to data values, reversed, equal, infinite, NaN; both "
        "keys or a single key, earlier values restored, applications that "
        "raise because a range has one key only, `force` names an unknown "
        "feature, or a polygon filter has no instance / uses a feature "
        "without data (KeyError), followed by restoring earlier settings), "
        "add/remove/invert polygon filters, modify them in place (new "
        "vertices, or the SAME vertices on swapped/other axes), "
        "remove-invalid and enable switches, limit events (0, negative, "
        "below/at/above the number of qualifying events, 2**32 and above), "
        "manual exclusions, reset_filter and apply_filter (optionally with "
        "force), temporary features set on / deregistered from the dataset "
        "(ranges configured before the feature exists), replaced data of a "
        "temporary feature followed by apply_filter(force=[feature]), over "
        "in-memory datasets (15 % as hierarchy child) of 1-40 events and 1-4 "
        "scalar features (+index, 0-2 temporary also as polygon axes, in "
        "30 % a computed area_ratio with NaN where all stored features are "
        "finite, in 2.5 % the lazily computed emodulus (not in "
        "FEATURES_RAPID; no feature data are read by the harness before the "
        "last operation), in 25 % ml_score_xxx features with NaN + the "
        "ancillary ml_class) with "
        "dyadic values, ties, NaN and +-inf; a case is non-trivial when it "
        "applies at least twice with a settings change in between and some "
        "application selects a proper non-empty subset; distinct = different "
        "(data, polygons, ops)")
TRUSTED_BASE = [
    "oracle choice_spec: the seeded np.random.choice used by "
    "downsampling.downsample_rand (the COMPILED module; its source is "
    "C16's subject) returns `limit` distinct indices below the pool size and "
    "is a function of (pool size, limit) (checked on every observed pair "
    "and by calling the compiled module twice)",
    "oracle hash_inj: per polygon filter, PolygonFilter.hash (md5) is a "
    "function of and injective in (axes, points, inverted) (checked on the "
    "polygons of every case, including equal vertices on different axes)",
    "point-in-polygon classification is data of the case (property C15); "
    "the inside mask is computed by dclab's points_in_poly on fresh arrays",
    "float comparisons are exact on the generated dyadic values; rounding is "
    "not modelled",
    "not modelled: warnings; IndexError/wrap-around of filter.manual[i] for "
    "i outside 0..n-1 (model: no-op; never generated); exceptions other "
    "than the three modelled ones (e.g. TypeError for a non-numeric bound: "
    "bounds are numbers in the model; since 54aee2a every failed update "
    "resets the caches, which is what the model's raise does); "
    "Filter.__getitem__ and wholesale replacement of filter.manual are not "
    "operations of the model",
    "deliberately pinned although not in the property text: an unknown name "
    "in `force` raises; a half-set range of a known feature raises "
    "(model fidelity, C03_apply_raises_iff); NaN bounds are not generated",
    "Model/C03.v box_seq, sortZ and the variants V0-V3 describe EARLIER "
    "versions of Filter.update; they occur only in the four *_refuted "
    "theorems that document the repaired defects and are compared with no "
    "code",
]
ASSUMPTIONS = [
    "the selection is specified after applications that do not raise; an "
    "application raises exactly when `force` names an unknown feature, a "
    "KNOWN feature has a range with only one of its two keys, or a "
    "registered polygon filter has no instance / an axis without data "
    "(theorem C03_apply_raises_iff); it never raises because of the limit; "
    "a failed application resets the caches",
    "replacing the DATA of a feature (set_temporary_feature on an existing "
    "temporary feature; not an operation of C03's quantifier) is modelled "
    "(ReplaceTemp, ghost state `stale`): the caches carry no data hash, so "
    "the theorems for such histories carry the guard `stale = []`, which "
    "apply_filter(force=[feature]) establishes (C03_force_refreshes); the "
    "generator always forces replaced features; the unforced case is the "
    "Coq witness C03_replaced_data_unforced_stale (observed on HEAD: data "
    "[0,1,2,3] -> [1,1,5,5], range [1,2]: filter.all stays [F,T,T,F])",
    "the classification of a polygon vertex set is fixed data of the case: "
    "the DATA of a feature used as polygon axis are never replaced (a "
    "polygon mask on replaced data stays stale even with force: the polygon "
    "cache has no data hash and `force` reaches box filters only; observed; "
    "data replacement is outside the property's operations). Temporary "
    "features as axes, deregistered and set again with the same data, are "
    "generated (pruning by axes in _init_rtdc_ds)",
    "range keys of a deregistered temporary feature are not SET and the "
    "feature is not forced (ConfigurationDict refuses keys of unknown "
    "features); popping them and leaving them half-set is generated: "
    "Filter.update ignores them",
    "hierarchy children are exercised without temporary features (setting "
    "one on a child rejuvenates it, which is an application of its own)",
]

POOL = ["area_um", "aspect", "bright_avg", "deform", "tilt", "pos_x"]

T_SETRANGE, T_DELRANGE, T_ADDPOLY, T_RMPOLY, T_MODPOLY, T_INVPOLY, \
    T_INVALID, T_ENABLE, T_LIMIT, T_MANUAL, T_RESET, T_APPLY, \
    T_SETMIN, T_SETMAX, T_DELMIN, T_DELMAX, T_ADDFEAT, T_DELFEAT, \
    T_REPLTEMP = range(19)
OPNAMES = ["SetRange", "DelRange", "AddPoly", "RmPoly", "ModPoly",
           "InvertPoly", "SetInvalid", "SetEnable", "SetLimit", "EditManual",
           "Reset", "Apply", "SetMin", "SetMax", "DelMin", "DelMax",
           "AddFeat", "DelFeat", "ReplaceTemp"]
UNKNOWN_FEATURE = "nosuchfeat"   # not a dclab feature: apply_filter(force=) raises
UNKNOWN_ID = 999
TEMP = ["vtmp_a", "vtmp_b"]      # temporary features (registered on demand)
VARIANT = 4                      # repairs of Filter.update present in the model
NO_INSTANCE = 777                # a polygon filter id without instance
OPAQUE = ("emodulus",)           # values only matter as NaN / inf / finite
RANGE_TAGS = (T_SETRANGE, T_DELRANGE, T_SETMIN, T_SETMAX, T_DELMIN, T_DELMAX)


# --------------------------------------------------------------------------
# values
# --------------------------------------------------------------------------
def fv2float(p):
    t, k = p
    if t == 0:
        return k / 8.0
    if t == 1:
        return float("nan")
    return float("inf") if t == 2 else float("-inf")


def float2fv(v):
    import math
    if math.isnan(v):
        return [1, 0]
    if v == float("inf"):
        return [2, 0]
    if v == float("-inf"):
        return [3, 0]
    k = v * 8
    if k != int(k):
        raise ValueError("value %r is not a multiple of 1/8" % (v,))
    return [0, int(k)]


# --------------------------------------------------------------------------
# generator
# --------------------------------------------------------------------------
def gen_column(rng, n):
    lo = rng.choice([-8, 0, 0])
    hi = lo + rng.choice([4, 8, 16, 40])
    p_nan = rng.choice([0, 0, 0.1, 0.3])
    p_inf = rng.choice([0, 0, 0.05, 0.2])
    col = []
    for _ in range(n):
        r = rng.random()
        if r < p_nan:
            col.append([1, 0])
        elif r < p_nan + p_inf:
            col.append([rng.choice([2, 3]), 0])
        else:
            col.append([0, rng.randint(lo, hi)])
    return col


def gen_bound(rng, col):
    r = rng.random()
    fin = [p[1] for p in col if p[0] == 0] or [0]
    if r < 0.55:
        return [0, rng.choice(fin)]                       # tie with a value
    if r < 0.75:
        return [0, rng.choice(fin) + rng.choice([-1, 1])]
    if r < 0.85:
        return [0, rng.randint(min(fin) - 3, max(fin) + 3)]
    return [rng.choice([2, 3]), 0]


def gen_points(rng, colx, coly):
    fx = [p[1] for p in colx if p[0] == 0] or [0]
    fy = [p[1] for p in coly if p[0] == 0] or [0]
    k = rng.randint(3, 6)
    pts = []
    for _ in range(k):
        pts.append([rng.randint(min(fx) - 2, max(fx) + 2),
                    rng.randint(min(fy) - 2, max(fy) + 2)])
    return pts          # in units of 1/8


def gen_case(rng, thorough=False, maxops=60):
    n = rng.choice([1, 2, 3, 5, 5, 8, 8, 12, 12, 20, 30, 40])
    names = list(POOL)
    rng.shuffle(names)
    nf = rng.randint(1, 4)
    present = sorted(names[:nf])
    absent = sorted(names[nf:nf + 1])
    data = {f: gen_column(rng, n) for f in present}
    # "index" is always a feature of the dataset
    cols = dict(data)
    cols["index"] = [[0, 8 * (i + 1)] for i in range(n)]
    computed = []
    if rng.random() < 0.3:
        # a COMPUTED scalar feature with NaN where every stored feature is
        # finite: area_ratio = area_cvx / area_msd (NaN where area_msd == 0)
        msd = [rng.choice([0, 1, 1, 2]) for _ in range(n)]
        cvx = [2 * rng.randint(0, 12) for _ in range(n)]     # even k/8
        data["area_msd"] = [[0, 8 * m] for m in msd]
        data["area_cvx"] = [[0, k] for k in cvx]
        cols["area_msd"], cols["area_cvx"] = data["area_msd"], data["area_cvx"]
        cols["area_ratio"] = [[0, k // m] if m else [1, 0]
                              for k, m in zip(cvx, msd)]
        computed = ["area_cvx", "area_msd", "area_ratio"]
    if rng.random() < 0.25:
        # ml_score_xxx: scalar features that are valid by name pattern only
        # (plus the ancillary ml_class computed from them)
        for name in ["ml_score_abc", "ml_score_xy1"][:rng.choice([1, 1, 2])]:
            p_nan = rng.choice([0, 0.2, 0.4])
            data[name] = [[1, 0] if rng.random() < p_nan
                          else [0, rng.randint(0, 8)] for _ in range(n)]
            cols[name] = data[name]
            computed.append(name)
        computed.append("ml_class")
    kind = "child" if rng.random() < 0.15 else "dict"
    emod = False
    if kind == "dict" and rng.random() < 0.025:
        # a genuinely LAZY ancillary scalar feature (not in FEATURES_RAPID):
        # emodulus from area_um + deform with the LUT settings; NaN outside
        # the LUT while area_um and deform are finite
        emod = True
        for f in ("area_um", "deform"):
            if f not in data:
                data[f] = [[0, rng.randint(0, 40)] for _ in range(n)]
                cols[f] = data[f]
                computed.append(f)
        if "area_um" in absent or "deform" in absent:
            absent = []
    present = sorted(set(present + computed))
    temp = {}
    temp_alt = {}
    # temporary features (not on hierarchy children: setting one there
    # rejuvenates the child, which is an application of its own)
    for name in TEMP[:rng.choice([0, 1, 1, 2]) if kind == "dict" else 0]:
        temp[name] = gen_column(rng, n)
        cols[name] = temp[name]
    axes_pool = [f for f in present if f != "ml_class"] + ["index"]
    nver = rng.randint(1, 4)
    versions = []
    for _ in range(nver):
        pool = axes_pool
        c = rng.random()
        if c < 0.12 and temp:
            pool = axes_pool + sorted(temp)      # polygon on a temporary feature
        elif c < 0.2 and absent:
            pool = axes_pool + absent            # ... on a feature the dataset lacks
        ax = [rng.choice(pool), rng.choice(pool)]
        versions.append(dict(axes=ax, points=gen_points(
            rng, cols.get(ax[0], [[0, 0], [0, 8]]),
            cols.get(ax[1], [[0, 0], [0, 8]]))))
    # the same vertices on other axes (swapped, or one axis replaced)
    twins = {}
    for v in range(nver):
        if rng.random() < 0.6:
            ax = list(versions[v]["axes"])
            if ax[0] != ax[1] and rng.random() < 0.6:
                ax2 = [ax[1], ax[0]]
            else:
                ax2 = [ax[0], rng.choice(axes_pool)]
                if ax2 == ax:
                    ax2 = [rng.choice(axes_pool), ax[1]]
            if ax2 != ax:
                versions.append(dict(axes=ax2,
                                     points=[list(p) for p in
                                             versions[v]["points"]]))
                twins[v] = len(versions) - 1
                twins[len(versions) - 1] = v
    nver = len(versions)
    npoly = rng.choice([0, 1, 2, 2, 3])
    reg = [[i, rng.randrange(nver), rng.choice([0, 0, 1])]
           for i in range(npoly)]
    pv = {i: v for i, v, _ in reg}          # current version of a polygon
    axis_feats = set(a for v in versions for a in v["axes"])
    for name in temp:
        # data are replaced only for features that are no polygon axis (the
        # polygon cache has no data hash and `force` does not reach it)
        if name not in axis_feats and rng.random() < 0.6:
            temp_alt[name] = [gen_column(rng, n)
                              for _ in range(rng.randint(1, 2))]
    tstate = {name: "unset" for name in temp}   # unset / present / deregistered
    noem = [f for f in present if f not in OPAQUE]
    rfeats = noem + ["index"] + absent + sorted(temp)   # features ranges may name
    ops = []
    nops = rng.randint(1, maxops)
    have = set()
    polys_in = []
    hist = {}            # feature -> ranges set so far
    keys = {}            # feature -> which of its two keys are set

    def is_bad(pid):
        """a registered polygon filter that raises KeyError: no instance, or
        an axis without data (absent feature, temporary feature never set)"""
        if pid == NO_INSTANCE:
            return True
        return any(a in absent or tstate.get(a) == "unset"
                   for a in versions[pv[pid]]["axes"])

    def track(op):
        t, f = op[0], (op[1][0] if op[1] else None)
        if t in (T_SETRANGE,):
            keys[f] = {"min", "max"}
        elif t == T_DELRANGE:
            keys[f] = set()
        elif t in (T_SETMIN, T_SETMAX):
            keys.setdefault(f, set()).add("min" if t == T_SETMIN else "max")
        elif t in (T_DELMIN, T_DELMAX):
            keys.setdefault(f, set()).discard(
                "min" if t == T_DELMIN else "max")

    for _ in range(nops):
        if ops:
            track(ops[-1])
        # ranges of a deregistered temporary feature cannot be edited
        rfeats = [f for f in noem + ["index"] + absent + sorted(temp)
                  if tstate.get(f) != "deregistered"]
        dereg_keys = [f for f in temp if tstate[f] == "deregistered"
                      and keys.get(f)]
        if dereg_keys and rng.random() < 0.15:
            # popping a key of a deregistered temporary feature works (its
            # ranges are ignored, also when left with one key)
            f = rng.choice(sorted(dereg_keys))
            which = rng.choice(sorted(keys[f]))
            ops.append([T_DELMIN if which == "min" else T_DELMAX, [f], []])
            continue
        if temp and rng.random() < 0.07:
            name = rng.choice(sorted(temp))
            if tstate[name] == "present" and rng.random() < 0.5:
                ops.append([T_DELFEAT, [name], []])
                tstate[name] = "deregistered"
            elif tstate[name] == "present" and name in temp_alt \
                    and rng.random() < 0.6:
                # other data for an existing temporary feature
                k = rng.randrange(len(temp_alt[name]) + 1)
                ops.append([T_REPLTEMP, [name, k], []])
            else:
                ops.append([T_ADDFEAT, [name], []])
                tstate[name] = "present"
            continue
        badp = [p_ for p_ in polys_in if is_bad(p_)]
        if badp and rng.random() < 0.4:
            # get rid of a polygon filter that makes every application raise
            pid = rng.choice(badp)
            ops.append([T_RMPOLY, [pid], []])
            polys_in.remove(pid)
            continue
        half = sorted(f for f, ks in keys.items() if len(ks) == 1
                      and tstate.get(f) != "deregistered")
        if half and rng.random() < 0.4:
            # complete or drop the range that has one key only
            f = rng.choice(half)
            col = cols.get(f, [[0, 0], [0, 8]])
            has = next(iter(keys[f]))
            if rng.random() < 0.6:
                ops.append([T_SETMAX if has == "min" else T_SETMIN, [f],
                            [gen_bound(rng, col)]])
            else:
                ops.append([T_DELMIN if has == "min" else T_DELMAX, [f], []])
            continue
        r = rng.random()
        if r < 0.04 and [f for f in hist if f in rfeats]:
            # back to a range this feature had before
            f = rng.choice(sorted(f for f in hist if f in rfeats))
            lo, hi = rng.choice(hist[f])
            ops.append([T_SETRANGE, [f], [lo, hi]])
            have.add(f)
        elif r < 0.08:
            # one key only: changes one bound of a range or leaves a range
            # with a single key (apply_filter then raises ValueError)
            f = rng.choice(rfeats)
            col = cols.get(f, [[0, 0], [0, 8]])
            t = rng.choice([T_SETMIN, T_SETMAX, T_SETMIN, T_SETMAX,
                            T_DELMIN, T_DELMAX])
            if t in (T_SETMIN, T_SETMAX):
                ops.append([t, [f], [gen_bound(rng, col)]])
            else:
                ops.append([t, [f], []])
        elif r < 0.22:
            f = rng.choice(rfeats if rng.random() < 0.9 or not absent else absent)
            col = cols.get(f, [[0, 0], [0, 8]])
            lo, hi = gen_bound(rng, col), gen_bound(rng, col)
            c = rng.random()
            if c < 0.12:
                hi = list(lo)
            elif lo[0] == 0 and hi[0] == 0 and \
                    ((lo[1] > hi[1]) != (c < 0.3)):
                lo, hi = hi, lo     # mostly ordered, sometimes reversed
            ops.append([T_SETRANGE, [f], [lo, hi]])
            hist.setdefault(f, []).append([lo, hi])
            have.add(f)
        elif r < 0.34:
            cand = sorted(f for f in have if f in rfeats)
            f = rng.choice(cand) if cand and rng.random() < 0.85 \
                else rng.choice(rfeats)
            ops.append([T_DELRANGE, [f], []])
            have.discard(f)
        elif r < 0.41 and npoly:
            pid = rng.randrange(npoly)
            if rng.random() < 0.04:
                pid = NO_INSTANCE            # KeyError at the next application
            ops.append([T_ADDPOLY, [pid], []])
            polys_in.append(pid)
        elif r < 0.46 and npoly:
            bad = [p_ for p_ in polys_in if is_bad(p_)]
            if bad and rng.random() < 0.6:
                pid = rng.choice(bad)        # get rid of the raising one
            else:
                pid = rng.choice(polys_in) if polys_in and \
                    rng.random() < 0.9 else rng.randrange(npoly)
            ops.append([T_RMPOLY, [pid], []])
            if pid in polys_in:
                polys_in.remove(pid)
        elif r < 0.50 and npoly:
            pid = rng.randrange(npoly)
            if pv[pid] in twins and rng.random() < 0.6:
                v = twins[pv[pid]]         # same vertices, other axes
            else:
                v = rng.randrange(nver)
            pv[pid] = v
            ops.append([T_MODPOLY, [pid, v], []])
        elif r < 0.54 and npoly:
            ops.append([T_INVPOLY, [rng.randrange(npoly)], []])
        elif r < 0.59:
            ops.append([T_INVALID, [rng.choice([0, 1, 1])], []])
        elif r < 0.63:
            ops.append([T_ENABLE, [rng.choice([0, 1, 1])], []])
        elif r < 0.70:
            k = rng.choice([0, 0, -1, 1, 2, n - 1, n, n + 1,
                            rng.randint(1, n + 2), max(1, n // 2),
                            max(1, n // 3), max(1, n // 2), 2 ** 32,
                            2 ** 32 + 3])
            ops.append([T_LIMIT, [k], []])
        elif r < 0.76:
            ops.append([T_MANUAL, [rng.randrange(n), rng.choice([0, 0, 1])],
                        []])
        elif r < 0.78:
            ops.append([T_RESET, [], []])
            polys_in = []
        else:
            force = []
            if rng.random() < 0.1:
                force = [rng.choice(rfeats)
                         for _ in range(rng.randint(1, 2))]
            if rng.random() < 0.02:
                force.append(UNKNOWN_FEATURE)       # raises ValueError
            ops.append([T_APPLY, force, []])
    if rng.random() < 0.12:
        # an application that raises between two settings of the same range
        g, f = rng.sample(noem + ["index"] + absent, 2)
        cg = cols.get(g, [[0, 0], [0, 8]])
        ra = [gen_bound(rng, cg), gen_bound(rng, cg)]
        rb = [gen_bound(rng, cg), gen_bound(rng, cg)]
        fix = rng.choice([[T_DELMIN, [f], []],
                          [T_SETMAX, [f], [gen_bound(rng, cg)]]])
        seq = [[T_DELRANGE, [f], []], [T_SETRANGE, [g], ra], [T_APPLY, [], []],
               [T_SETRANGE, [g], rb], [T_SETMIN, [f], [gen_bound(rng, cg)]],
               [T_APPLY, [], []], [T_SETRANGE, [g], ra], fix]
        k = rng.randint(0, len(ops))
        ops[k:k] = seq
    ops.append([T_APPLY, [], []])
    if rng.random() < 0.1:
        # an application that raises KeyError (polygon filter without
        # instance, or on a feature the dataset lacks) between two settings of
        # the same range
        if ops:
            track(ops[-1])
        # first a state in which an application succeeds
        for p_ in [p_ for p_ in polys_in if is_bad(p_)]:
            ops.append([T_RMPOLY, [p_], []])
        polys_in = [p_ for p_ in polys_in if not is_bad(p_)]
        for f, ks in sorted(keys.items()):
            if len(ks) == 1:
                ops.append([T_DELMIN if "min" in ks else T_DELMAX, [f], []])
                keys[f] = set()
        ops.append([T_ENABLE, [1], []])
        g = rng.choice(noem + ["index"])
        cg = cols.get(g, [[0, 0], [0, 8]])
        ra = [gen_bound(rng, cg), gen_bound(rng, cg)]
        rb = [gen_bound(rng, cg), gen_bound(rng, cg)]
        badv = [i for i, v in enumerate(versions)
                if any(a in absent for a in v["axes"])]
        if badv and npoly and rng.random() < 0.5:
            pid = rng.randrange(npoly)
            seq = [[T_SETRANGE, [g], ra], [T_APPLY, [], []],
                   [T_SETRANGE, [g], rb], [T_MODPOLY, [pid, rng.choice(badv)], []],
                   [T_ADDPOLY, [pid], []], [T_APPLY, [], []],
                   [T_RMPOLY, [pid], []], [T_SETRANGE, [g], ra]]
        else:
            seq = [[T_SETRANGE, [g], ra], [T_APPLY, [], []],
                   [T_SETRANGE, [g], rb], [T_ADDPOLY, [NO_INSTANCE], []],
                   [T_APPLY, [], []], [T_RMPOLY, [NO_INSTANCE], []],
                   [T_SETRANGE, [g], ra]]
        # at the end: the polygon bookkeeping stays valid
        ops = ops + seq + [[T_APPLY, [], []]]
    if temp_alt and rng.random() < 0.35:
        # replaced data with an active range: only force refreshes the mask
        f = rng.choice(sorted(temp_alt))
        cf = cols[f]
        seq = [[T_ADDFEAT, [f], []],
               [T_SETRANGE, [f], [gen_bound(rng, cf), gen_bound(rng, cf)]],
               [T_APPLY, [], []],
               [T_REPLTEMP, [f, rng.randrange(1, len(temp_alt[f]) + 1)], []],
               [T_APPLY, [], []]]
        k = rng.randint(0, len(ops))
        cand = ops[:k] + seq + ops[k:]
        if temp_discipline(cand):
            ops = cand
    case = dict(n=n, kind=kind, emod=emod, data=data, absent=absent,
                temp=temp, temp_alt=temp_alt, versions=versions, reg=reg,
                ops=ops)
    force_replaced(case)
    return case


def temp_discipline(ops):
    """The generator's restrictions on temporary features (ASSUMPTIONS): no
    range keys set, no force and no data replacement while deregistered."""
    keys = {}
    dereg = set()
    for t, a, _ in ops:
        f = a[0] if a else None
        if t in (T_SETRANGE, T_SETMIN, T_SETMAX) and f in dereg:
            return False          # ConfigurationDict refuses unknown features
        if t == T_SETRANGE:
            keys[f] = {"min", "max"}
        elif t == T_DELRANGE:
            keys[f] = set()
        elif t in (T_SETMIN, T_SETMAX):
            keys.setdefault(f, set()).add("min" if t == T_SETMIN else "max")
        elif t in (T_DELMIN, T_DELMAX):
            keys.setdefault(f, set()).discard(
                "min" if t == T_DELMIN else "max")
        elif t == T_ADDFEAT:
            dereg.discard(f)
        elif t == T_DELFEAT:
            dereg.add(f)
        elif t == T_REPLTEMP and f in dereg:
            return False
        elif t == T_APPLY and any(g in dereg for g in a):
            return False
    return True


def force_replaced(case):
    """After the data of a temporary feature were replaced, the box cache
    (no data hash) is refreshed only by apply_filter(force=[feature]): every
    application names the replaced features until one of them succeeded.
    (Replacing feature data is not an operation of the property; an
    unforced application after it is covered by the Coq witness
    C03_replaced_data_unforced_stale only.)"""
    keys = {}
    dereg = set()
    pending = set()
    for op in case["ops"]:
        t, a = op[0], op[1]
        f = a[0] if a else None
        if t == T_SETRANGE:
            keys[f] = {"min", "max"}
        elif t == T_DELRANGE:
            keys[f] = set()
        elif t in (T_SETMIN, T_SETMAX):
            keys.setdefault(f, set()).add("min" if t == T_SETMIN else "max")
        elif t in (T_DELMIN, T_DELMAX):
            keys.setdefault(f, set()).discard(
                "min" if t == T_DELMIN else "max")
        elif t == T_ADDFEAT:
            dereg.discard(f)
        elif t == T_DELFEAT:
            dereg.add(f)
        elif t == T_REPLTEMP:
            pending.add(f)
        elif t == T_RESET:
            pending.clear()
        elif t == T_APPLY:
            for g in sorted(pending):
                if g not in dereg and g not in a:
                    a.append(g)
            if True:
                # forced or pruned; a failed application clears the caches
                pending.clear()


# --------------------------------------------------------------------------
# implementation runner + property oracle
# --------------------------------------------------------------------------
def inside_fresh(cols, n, axes, points8):
    """points_in_poly on fresh copies (classification is C15's business); a
    vertex set on a feature without data classifies nothing (never used: the
    application raises KeyError)"""
    import numpy as np
    from dclab.external.skimage.measure import points_in_poly
    if axes[0] not in cols or axes[1] not in cols:
        return np.zeros(n, dtype=bool)
    pts = np.zeros((n, 2), dtype=np.float64)
    pts[:, 0] = np.array(cols[axes[0]], dtype=np.float64)
    pts[:, 1] = np.array(cols[axes[1]], dtype=np.float64)
    verts = np.array(points8, dtype=np.float64) / 8.0
    return np.array(points_in_poly(points=pts, verts=verts), dtype=bool)


def scalar_features(ds):
    """The scalar features of a dataset, by the definition of a scalar
    feature (not via RTDCBase.features_scalar, which is code under test):
    every available feature that dclab knows as scalar, incl. ml_score_xxx
    (valid by name pattern), temporary and plugin features."""
    from dclab import definitions as dfn
    return [f for f in ds.features if dfn.scalar_feature_exists(f)]


def reference(ds, manual, cache=None, volatile=()):
    """Stateless evaluation of the current settings; returns
    (box, invalid, polygon, qualifying) as lists of bool."""
    import math
    import numpy as np
    from dclab.polygon_filter import PolygonFilter
    from dclab.external.skimage.measure import points_in_poly
    cfg = ds.config["filtering"]
    n = len(ds)
    feats = scalar_features(ds)
    # the data of a feature other than a temporary one never change: read once
    cache = {} if cache is None else cache
    cols = {}
    for f in feats:
        if f in volatile or f not in cache:
            cache[f] = [float(x) for x in np.array(ds[f], dtype=np.float64)]
        cols[f] = cache[f]
    box = [True] * n
    for key in list(cfg.keys()):
        if not key.endswith(" min"):
            continue
        feat = key[:-4]
        if feat + " max" not in cfg or feat not in cols:
            continue
        lo, hi = cfg[feat + " min"], cfg[feat + " max"]
        if not (lo != hi):
            continue        # inactive
        if lo > hi:
            lo, hi = hi, lo
        for i, x in enumerate(cols[feat]):
            if math.isnan(x) or not (lo <= x <= hi):
                box[i] = False
    invalid = [True] * n
    if cfg["remove invalid events"]:
        for f in feats:
            for i, x in enumerate(cols[f]):
                if math.isnan(x) or math.isinf(x):
                    invalid[i] = False
    polygon = [True] * n
    for pid in cfg["polygon filters"]:
        pf = PolygonFilter.get_instance_from_id(pid)
        pts = np.zeros((n, 2), dtype=np.float64)
        # (the data of a deregistered temporary feature stay accessible)
        pts[:, 0] = np.array(ds[pf.axes[0]], dtype=np.float64)
        pts[:, 1] = np.array(ds[pf.axes[1]], dtype=np.float64)
        ins = points_in_poly(points=pts, verts=np.array(pf.points,
                                                        dtype=np.float64))
        for i in range(n):
            good = bool(ins[i]) != bool(pf.inverted)
            if not good:
                polygon[i] = False
    qual = [box[i] and invalid[i] and polygon[i] and bool(manual[i])
            for i in range(n)]
    return box, invalid, polygon, qual


def ranks_of(sel, pool):
    """ranks, among the True entries of pool, of the entries kept in sel"""
    ranks = []
    rnk = 0
    for s, q in zip(sel, pool):
        if q:
            if s:
                ranks.append(rnk)
            rnk += 1
    return ranks


def b2z(a):
    return [1 if x else 0 for x in a]


def run_impl(case, want_trace=False):
    """Execute the case on the real code.

    Returns dict(flat, fail, nontrivial, feats, rows, choice, hashes, notes)
    """
    import numpy as np
    import dclab
    from dclab import definitions as dfn
    from dclab.rtdc_dataset import feat_temp
    from dclab.polygon_filter import PolygonFilter

    PolygonFilter.clear_all_filters()
    n = case["n"]
    ddict = {f: np.array([fv2float(p) for p in col], dtype=np.float64)
             for f, col in case["data"].items()}
    ds = dclab.new_dataset(ddict)
    if case.get("kind") == "child":
        # a hierarchy child of an unfiltered parent: same events, the filter
        # object is a HierarchyFilter (runs Filter.update)
        parent_ds = ds
        ds = dclab.new_dataset(parent_ds)
    if case.get("emod"):
        # makes the ancillary feature emodulus available (computed lazily)
        ds.config["setup"]["channel width"] = 20.0
        ds.config["setup"]["flow rate"] = 0.04
        ds.config["imaging"]["pixel size"] = 0.34
        ds.config["calculation"]["emodulus lut"] = "LE-2D-FEM-19"
        ds.config["calculation"]["emodulus medium"] = "CellCarrier"
        ds.config["calculation"]["emodulus temperature"] = 23.0
        ds.config["calculation"]["emodulus viscosity model"] = \
            "buyukurganci-2022"
    temp = case.get("temp", {})
    for name in temp:
        if not dfn.scalar_feature_exists(name):
            dclab.register_temporary_feature(name, is_scalar=True)
    feats = scalar_features(ds)               # before any temporary feature
    # feature numbers are ordered like the names (np.unique sorts names)
    names = sorted(set(feats) | set(case["absent"]) | set(temp))
    # NO feature data are read before the last operation (lazily computed
    # ancillary features must be computed by the code under test)
    cols = {}
    stats = dict(axis_only_modpoly=0, huge_limit_applied=0, raise_valueerror=0,
                 raise_keyerror=0, raise_other=0)
    axis_only_pending = False
    refcache = {}
    have_data = set(feats)
    for name, col in temp.items():
        cols[name] = np.array([fv2float(p) for p in col], dtype=np.float64)
    # alternative data of temporary features: extra columns after the names
    temp_alt = case.get("temp_alt", {})
    altcols = []                         # (name, k) in column order
    for name in sorted(temp_alt):
        for k, col in enumerate(temp_alt[name]):
            altcols.append((name, k + 1))
            cols[(name, k + 1)] = np.array([fv2float(p) for p in col],
                                           dtype=np.float64)
    curtemp = {name: cols[name] for name in temp}
    versions = case["versions"]
    pfs = {}
    pfs[NO_INSTANCE] = NO_INSTANCE
    for pid, v, inv in case["reg"]:
        ver = versions[v]
        pfs[pid] = PolygonFilter(axes=tuple(ver["axes"]),
                                 points=np.array(ver["points"],
                                                 dtype=np.float64) / 8.0,
                                 inverted=bool(inv), unique_id=pid)
        assert pfs[pid].unique_id == pid
    pver = {pid: v for pid, v, inv in case["reg"]}
    hashes = {}          # (v, inv) -> set of hashes
    choice = {}          # (m, k) -> ranks (for the model)
    seen_ranks = {}      # (m, k) -> ranks (reproducibility oracle)
    flat = []
    fail = None
    applies = 0
    raised = 0
    proper = False
    changed_between = False
    dirty = False
    last_all = None
    choice_conflict = None
    spec_obs = []
    spec_flat = []
    cfg = ds.config["filtering"]
    trace = []
    for i, (tag, a, fv) in enumerate(case["ops"]):
        if tag == T_SETRANGE:
            cfg[a[0] + " min"] = fv2float(fv[0])
            cfg[a[0] + " max"] = fv2float(fv[1])
            dirty = True
        elif tag == T_DELRANGE:
            cfg.pop(a[0] + " min", None)
            cfg.pop(a[0] + " max", None)
            dirty = True
        elif tag in (T_SETMIN, T_SETMAX):
            cfg[a[0] + (" min" if tag == T_SETMIN else " max")] = \
                fv2float(fv[0])
            dirty = True
        elif tag in (T_DELMIN, T_DELMAX):
            cfg.pop(a[0] + (" min" if tag == T_DELMIN else " max"), None)
            dirty = True
        elif tag == T_ADDFEAT:
            if not dfn.scalar_feature_exists(a[0]):
                dclab.register_temporary_feature(a[0], is_scalar=True)
            dclab.set_temporary_feature(ds, a[0], curtemp[a[0]])
            have_data.add(a[0])
            dirty = True
        elif tag == T_REPLTEMP:
            curtemp[a[0]] = cols[(a[0], a[1])] if a[1] else cols[a[0]]
            dclab.set_temporary_feature(ds, a[0], curtemp[a[0]])
            have_data.add(a[0])
            dirty = True
        elif tag == T_DELFEAT:
            feat_temp.deregister_temporary_feature(a[0])
            dirty = True
        elif tag == T_ADDPOLY:
            ds.polygon_filter_add(pfs[a[0]])
            dirty = True
        elif tag == T_RMPOLY:
            try:
                ds.polygon_filter_rm(pfs[a[0]])
            except ValueError:
                pass
            dirty = True
        elif tag == T_MODPOLY:
            ver = versions[a[1]]
            if ver["points"] == versions[pver[a[0]]]["points"] and \
                    ver["axes"] != versions[pver[a[0]]]["axes"]:
                axis_only_pending = True
            pfs[a[0]].axes = tuple(ver["axes"])
            pfs[a[0]].points = np.array(ver["points"], dtype=np.float64) / 8.0
            pver[a[0]] = a[1]
            dirty = True
        elif tag == T_INVPOLY:
            pfs[a[0]].inverted = not pfs[a[0]].inverted
            dirty = True
        elif tag == T_INVALID:
            cfg["remove invalid events"] = bool(a[0])
            dirty = True
        elif tag == T_ENABLE:
            cfg["enable filters"] = bool(a[0])
            dirty = True
        elif tag == T_LIMIT:
            cfg["limit events"] = a[0]
            dirty = True
        elif tag == T_MANUAL:
            ds.filter.manual[a[0]] = bool(a[1])
            dirty = True
        elif tag == T_RESET:
            ds.reset_filter()
            dirty = True
            last_all = None
        else:
            for pid, pf in pfs.items():
                if pid != NO_INSTANCE:
                    hashes.setdefault((pid, pver[pid], bool(pf.inverted)),
                                      set()).add(pf.hash)
            if axis_only_pending:
                stats["axis_only_modpoly"] += 1
                axis_only_pending = False
            if cfg["enable filters"] and cfg["limit events"] >= 2 ** 32:
                stats["huge_limit_applied"] += 1
            try:
                ds.apply_filter(force=list(a) if a else None)
            except Exception as e:
                # an application may only fail for a reason visible in the
                # settings: a range of a known feature with one key, an
                # unknown name in `force`, a polygon filter without instance
                # or on a feature without data
                flat += [9]
                raised += 1
                kind_ = ("raise_valueerror" if isinstance(e, ValueError) else
                         "raise_keyerror" if isinstance(e, KeyError) else
                         "raise_other")
                stats[kind_] += 1
                half = [k for k in cfg.keys()
                        if dfn.scalar_feature_exists(k[:-4]) and
                        ((k.endswith(" min") and k[:-4] + " max" not in cfg)
                         or (k.endswith(" max")
                             and k[:-4] + " min" not in cfg))]
                badpoly = [pid for pid in cfg["polygon filters"]
                           if pid == NO_INSTANCE or any(
                               ax not in have_data for ax in pfs[pid].axes)]
                if not half and not badpoly and UNKNOWN_FEATURE not in a \
                        and fail is None:
                    fail = ("op %d: apply_filter raised %r although every "
                            "range of a known feature has both keys, `force` "
                            "names known features and every polygon filter "
                            "exists on features with data" % (i, e))
                spec_flat += [9]
                last_all = None
                continue
            badpoly = [pid for pid in cfg["polygon filters"]
                       if pid == NO_INSTANCE or any(
                           ax not in have_data for ax in pfs[pid].axes)]
            if badpoly:
                # a registered polygon filter cannot be evaluated: there is
                # no selection that equals "the conjunction of every
                # registered polygon filter"
                flat += [7]
                spec_flat += [9]
                if fail is None:
                    fail = ("op %d: apply_filter succeeded although the "
                            "registered polygon filter(s) %s have no instance "
                            "or use a feature without data" % (i, badpoly))
                last_all = None
                continue
            applies += 1
            if applies > 1 and dirty:
                changed_between = True
            was_dirty = dirty
            dirty = False
            flt = ds.filter
            got = dict(all=[bool(x) for x in flt.all],
                       box=[bool(x) for x in flt.box],
                       polygon=[bool(x) for x in flt.polygon],
                       invalid=[bool(x) for x in flt.invalid])
            flat += b2z(got["all"]) + b2z(got["box"]) + b2z(got["polygon"]) \
                + b2z(got["invalid"]) + [0]     # 0: no stale feature (ghost)
            # the value of the choice oracle, read off the implementation's
            # own arrays (pool = its box & invalid & polygon & manual)
            pre = [b and v and p and bool(mm) for b, v, p, mm in
                   zip(got["box"], got["invalid"], got["polygon"],
                       flt.manual)]
            if cfg["enable filters"] and 0 < cfg["limit events"] < sum(pre) \
                    and not any(s and not q for s, q in zip(got["all"], pre)):
                choice.setdefault((sum(pre), cfg["limit events"]),
                                  ranks_of(got["all"], pre))
            box, invalid, polygon, qual = reference(ds, flt.manual, refcache,
                                                    temp)
            spec_obs.append((box, invalid, polygon, qual,
                             bool(cfg["enable filters"]),
                             int(cfg["limit events"])))
            spec_flat.append(None)          # filled in below
            if want_trace:
                trace.append(dict(op=i, got=got, qual=qual))
            msg = None
            if not was_dirty and last_all is not None \
                    and got["all"] != last_all:
                msg = ("not reproducible: nothing was changed since the "
                       "previous application, filter.all went from %s to "
                       "%s" % (b2z(last_all), b2z(got["all"])))
            last_all = got["all"]
            if msg is not None:
                pass
            elif got["box"] != box:
                msg = "filter.box = %s, the ranges in the settings give %s" % (
                    b2z(got["box"]), b2z(box))
            elif got["invalid"] != invalid:
                msg = "filter.invalid = %s, expected %s" % (
                    b2z(got["invalid"]), b2z(invalid))
            elif got["polygon"] != polygon:
                msg = "filter.polygon = %s, the polygon filters give %s" % (
                    b2z(got["polygon"]), b2z(polygon))
            else:
                if not cfg["enable filters"]:
                    if got["all"] != [True] * n:
                        msg = "filters disabled but filter.all = %s" % (
                            b2z(got["all"]))
                else:
                    m = sum(qual)
                    k = cfg["limit events"]
                    if k > 0 and m > k:
                        sel = got["all"]
                        if any(s and not q for s, q in zip(sel, qual)):
                            msg = ("limit events: filter.all = %s selects "
                                   "events outside the qualifying %s" % (
                                       b2z(sel), b2z(qual)))
                        elif sum(sel) != k:
                            msg = ("limit events = %d, %d qualify, but %d "
                                   "remain" % (k, m, sum(sel)))
                        else:
                            ranks = ranks_of(sel, qual)
                            old = seen_ranks.setdefault((m, k), ranks)
                            if old != ranks:
                                # not a failure of the property (the kept
                                # subset may depend on more than the pool
                                # size) but of the proof's choice oracle
                                choice_conflict = (m, k, old, ranks)
                    elif got["all"] != qual:
                        msg = ("filter.all = %s, the settings give %s" % (
                            b2z(got["all"]), b2z(qual)))
            if 0 < sum(got["all"]) < n:
                proper = True
            if msg is not None and fail is None:
                fail = "op %d (application %d): %s" % (i, applies, msg)
    # rows for the model: per event the feature values and the raw inside
    # bits of every vertex set
    # only now: the data of the dataset's own features
    for f in feats:
        cols[f] = np.array(ds[f], dtype=np.float64)

    def enc(f, x):
        if f in OPAQUE and np.isfinite(x):
            return [0, 0]
        return float2fv(float(x))
    ins = [inside_fresh(cols, n, ver["axes"], ver["points"])
           for ver in versions]
    rows = []
    for e in range(n):
        rows.append(([enc(f, cols[f][e]) if f in cols else [1, 0]
                      for f in names + altcols],
                     [bool(x[e]) for x in ins]))
    # the specification's observation, from the stateless reference
    it = iter(spec_obs)
    sflat = []
    for x in spec_flat:
        if x is not None:
            sflat.append(9)
            continue
        box, invalid, polygon, qual, en, lim = next(it)
        if not en:
            sall = [True] * n
        elif 0 < lim < sum(qual):
            ranks = choice.get((sum(qual), lim), [])
            sall, rnk = [], 0
            for q in qual:
                sall.append(bool(q and rnk in ranks))
                rnk += 1 if q else 0
        else:
            sall = qual
        sflat += b2z(sall) + b2z(box) + b2z(polygon) + b2z(invalid)
    for name in temp:
        if not dfn.scalar_feature_exists(name):
            dclab.register_temporary_feature(name, is_scalar=True)
    res = dict(flat=flat, fail=fail,
               nontrivial=bool(proper and changed_between),
               feats=feats, names=names, altcols=altcols, rows=rows,
               choice=choice, hashes=hashes, applies=applies, raised=raised,
               spec_flat=sflat, choice_conflict=choice_conflict, stats=stats)
    if want_trace:
        res["trace"] = trace
    PolygonFilter.clear_all_filters()
    return res


# --------------------------------------------------------------------------
# rendering for Coq
# --------------------------------------------------------------------------
def r_fv(p):
    return "(%s, %s)" % (common.zlit(p[0]), common.zlit(p[1]))


def tlist(items, typ):
    """Coq list literal; an empty list carries its type"""
    items = list(items)
    if not items:
        return "(@nil (%s))" % typ
    return common.clist(items)


def render(case, res, variant=VARIANT):
    names = res["names"]
    nid = {f: i for i, f in enumerate(names)}
    rows = common.clist(
        "(%s, %s)" % (common.clist(r_fv(p) for p in vals),
                      common.blist(pins)) for vals, pins in res["rows"])
    altid = {nk: len(names) + i for i, nk in enumerate(res["altcols"])}
    feats = common.zlist(nid[f] for f in res["feats"])
    known = common.zlist(range(len(names)))
    vax = tlist(("(%d, %s)" % (i, common.zlist(nid.get(a_, UNKNOWN_ID)
                                                for a_ in ver["axes"]))
                 for i, ver in enumerate(case["versions"])), "Z * list Z")
    reg = tlist(("(%d, (%d, %d))" % (pid, v, inv)
                 for pid, v, inv in case["reg"]), "Z * (Z * Z)")
    tab = tlist(("(%d, %d, %s)" % (m, k, common.zlist(r))
                 for (m, k), r in sorted(res["choice"].items())),
                "Z * Z * list Z")
    ops = []
    for tag, a, fv in case["ops"]:
        if tag in RANGE_TAGS or tag in (T_ADDFEAT, T_DELFEAT):
            ints = [nid.get(a[0], UNKNOWN_ID)]
        elif tag == T_REPLTEMP:
            ints = [nid[a[0]], altid[(a[0], a[1])] if a[1] else nid[a[0]]]
        elif tag == T_APPLY:
            ints = [nid.get(f, UNKNOWN_ID) for f in a]
        else:
            ints = list(a)
        ops.append("(%d, %s, %s)" % (tag,
                                     tlist((common.zlit(x) for x in ints),
                                           "Z"),
                                     tlist((r_fv(p) for p in fv), "Z * Z")))
    return "(%d, %s, %s, %s, %s, %s, %s, %s)" % (
        variant, rows, feats, known, vax, reg, tab, common.clist(ops))


HEADER = ("From Coq Require Import ZArith List Bool.\nImport ListNotations.\n"
          "From Verif Require Import Model.C03.\n")


def load_corpus():
    d = os.path.join(common.VERIF, "corpus", PROP)
    cases = []
    if os.path.isdir(d):
        for fn in sorted(os.listdir(d)):
            if fn.endswith(".json"):
                cases.append(json.load(open(os.path.join(d, fn)))["case"])
    return cases


def classify(case, desc):
    """No finding is listed for C03: the stale-range defect is repaired by
    fixes_proposed/C03-removed-range-keys.diff."""
    return None


def check_choice_oracle(run, pairs):
    """choice_spec on the compiled downsampling module, for every (pool,
    limit) pair that occurred."""
    import numpy as np
    from dclab import downsampling
    for (m, k), ranks in sorted(pairs.items()):
        res = []
        for _ in range(2):
            _, idx = downsampling.downsample_rand(np.ones(m, dtype=bool),
                                                  samples=k, ret_idx=True)
            res.append([int(i) for i in np.where(idx)[0]])
        ok = (res[0] == res[1] and len(res[0]) == k
              and len(set(res[0])) == k
              and all(0 <= i < m for i in res[0]))
        ok2 = (len(ranks) == k and len(set(ranks)) == k
               and all(0 <= i < m for i in ranks))
        run.count("choice-oracle-pairs")
        if not ok or not ok2:
            run.broken.append(("oracle-hypothesis choice_spec",
                               "pool %d limit %d: downsample_rand gave %s / "
                               "%s, the filter kept ranks %s" % (
                                   m, k, res[0], res[1], ranks)))
            return
        if res[0] != ranks:
            run.notes.append("pool %d limit %d: Filter kept ranks %s, "
                             "downsample_rand on its own keeps %s" % (
                                 m, k, ranks, res[0]))


# --------------------------------------------------------------------------
# exhaustive small scope (thorough tier)
# --------------------------------------------------------------------------
EXH_ALPHABET = [
    ("SetRange area_um [1, 2]", [T_SETRANGE, ["area_um"], [[0, 8], [0, 16]]]),
    ("SetRange area_um [4, 3]", [T_SETRANGE, ["area_um"], [[0, 32], [0, 24]]]),
    ("DelRange area_um", [T_DELRANGE, ["area_um"], []]),
    ("SetMin deform 0.25", [T_SETMIN, ["deform"], [[0, 2]]]),
    ("SetMax deform 0.75", [T_SETMAX, ["deform"], [[0, 6]]]),
    ("DelMin deform", [T_DELMIN, ["deform"], []]),
    ("AddPoly 0", [T_ADDPOLY, [0], []]),
    ("InvertPoly 0", [T_INVPOLY, [0], []]),
    ("SetEnable 0", [T_ENABLE, [0], []]),
    ("Reset", [T_RESET, [], []]),
    ("AddFeat vtmp_a", [T_ADDFEAT, ["vtmp_a"], []]),
    ("SetRange vtmp_a [1, 2]", [T_SETRANGE, ["vtmp_a"], [[0, 8], [0, 16]]]),
    ("Apply", [T_APPLY, [], []]),
]
EXH_MAXLEN = 4
EXH_COUNT = sum(len(EXH_ALPHABET) ** k for k in range(1, EXH_MAXLEN + 1))
RULE += (". Thorough tier additionally: EXHAUSTIVE sweep of all %d operation "
         "sequences of length 1..%d over a %d-letter alphabet (EXH_ALPHABET) "
         "on one fixed 4-event dataset, each followed by a final Apply" % (
             EXH_COUNT, EXH_MAXLEN, len(EXH_ALPHABET)))


def exhaustive_cases():
    """every operation sequence of length 1..EXH_MAXLEN over EXH_ALPHABET
    (a final Apply is appended) on one 4-event dataset with area_um, deform
    (one NaN), index, a temporary feature and one polygon"""
    import itertools
    base = dict(
        n=4,
        data={"area_um": [[0, 8], [0, 16], [0, 24], [0, 32]],
              "deform": [[0, 2], [1, 0], [0, 4], [0, 6]]},
        absent=[], temp={"vtmp_a": [[0, 0], [0, 8], [0, 16], [0, 24]]},
        versions=[{"axes": ["area_um", "index"],
                   "points": [[4, 4], [20, 4], [20, 20], [4, 20]]}],
        reg=[[0, 0, 0]])
    for k in range(1, EXH_MAXLEN + 1):
        for seq in itertools.product(range(len(EXH_ALPHABET)), repeat=k):
            ops = [EXH_ALPHABET[i][1] for i in seq] + [[T_APPLY, [], []]]
            yield dict(base, ops=ops)


def _impl_full(case):
    res = run_impl(case)
    rend = render(case, res)
    res.pop("rows", None)
    return res, rend


def _pool_map(run, fn, cases, chunksize=8):
    """run the implementation on the cases in worker processes (the lazily
    computed emodulus costs seconds per dataset)"""
    import multiprocessing
    try:
        ctx = multiprocessing.get_context("fork")
        with ctx.Pool(min(12, common.NCPU)) as pool:
            return pool.map(fn, cases, chunksize=chunksize)
    except Exception as e:      # no fork / pool: serial
        run.notes.append("implementation ran serially: %r" % (e,))
        return [fn(c) for c in cases]


def _impl_job(case):
    res = run_impl(case)
    return res["flat"], render(case, res), res["fail"], res["nontrivial"]


def exhaustive_sweep(run):
    import multiprocessing
    cases = list(exhaustive_cases())
    assert len(cases) == EXH_COUNT
    try:
        ctx = multiprocessing.get_context("fork")
        with ctx.Pool(min(12, common.NCPU)) as pool:
            results = pool.map(_impl_job, cases, chunksize=200)
    except Exception as e:      # no fork / pool: serial
        run.notes.append("exhaustive sweep ran serially: %r" % (e,))
        results = [_impl_job(c) for c in cases]
    nfail = 0
    for c, (flat, rend, fail, nontrivial) in zip(cases, results):
        run.record_case(c, nontrivial, sample=False)
        if fail is not None:
            nfail += 1
            run.oracle_failure(c, fail, classify(c, fail))
    model = common.coq_map(run.scratch, "c03x", HEADER, "run_flat",
                           [r[1] for r in results], shard=250)
    ndis = 0
    for c, m, r in zip(cases, model, results):
        run.corr_checked += 1
        if m != r[0]:
            ndis += 1
            run.mismatch(c, m, r[0])
    run.count("exhaustive-sequences", len(cases))
    run.extra["exhaustive_small_scope"] = dict(
        exhaustive=True, max_len=EXH_MAXLEN,
        alphabet=[a[0] for a in EXH_ALPHABET], sequences=len(cases),
        dataset="4 events; area_um, deform (one NaN), index, temporary "
                "feature vtmp_a; one polygon",
        oracle_failures=nfail, disagreements=ndis)


def run(run):
    ncases = 3000 if run.thorough else 320
    cases = load_corpus()
    run.count("corpus", len(cases))
    while len(cases) < ncases:
        cases.append(gen_case(run.rng, run.thorough))
    rendered = []
    impl = []
    impl_spec = []
    allpairs = {}
    results = _pool_map(run, _impl_full, cases)
    for c, (res, rend) in zip(cases, results):
        impl.append(res["flat"])
        impl_spec.append(res["spec_flat"])
        rendered.append(rend)
        run.record_case(c, res["nontrivial"])
        run.count("events=%d" % c["n"])
        run.count("dataset:" + c.get("kind", "dict"))
        for key, val in res["stats"].items():
            run.count("applies:" + key, val)
        if c.get("emod"):
            run.count("cases:lazy-emodulus")
        if "area_msd" in c["data"]:
            run.count("cases:computed-area_ratio")
        if any(f.startswith("ml_score") for f in c["data"]):
            run.count("cases:ml_score")
        if c.get("temp"):
            run.count("cases:temporary-features")
        if any(a_ in c.get("temp", {}) for v_ in c["versions"]
               for a_ in v_["axes"]):
            run.count("cases:polygon-on-temporary-feature")
        if any(a_ in c["absent"] for v_ in c["versions"]
               for a_ in v_["axes"]):
            run.count("cases:polygon-on-absent-feature")
        run.count("features=%d" % len(res["feats"]))
        run.count("applies", res["applies"])
        run.count("applies-that-raised", res["raised"])
        for o in c["ops"]:
            run.count("op:" + OPNAMES[o[0]])
        # hash_inj: per filter the hash is a function of, and injective in,
        # (axes, points, inverted)
        seen = {}
        for (pid, v, inv), hs in res["hashes"].items():
            if len(hs) != 1:
                run.broken.append(("oracle-hypothesis hash_inj",
                                   "the hash of polygon filter %d is not a "
                                   "function of (axes, points, inverted): "
                                   "%r" % (pid, sorted(hs))))
            content = (json.dumps(c["versions"][v], sort_keys=True), inv)
            h = next(iter(hs))
            if (pid, h) in seen and seen[(pid, h)] != content:
                run.broken.append((
                    "oracle-hypothesis hash_inj",
                    "polygon filter %d has the same hash for %s and %s" % (
                        pid, seen[(pid, h)], content)))
            seen[(pid, h)] = content
            run.count("hash-oracle-points")
        if res["choice_conflict"] is not None:
            run.broken.append((
                "oracle-hypothesis choice is a function of (pool, limit)",
                "pool %d limit %d kept ranks %s and %s" %
                res["choice_conflict"]))
        for key, ranks in res["choice"].items():
            if key in allpairs and allpairs[key] != ranks:
                run.notes.append("pool %d limit %d: ranks %s and %s in two "
                                 "datasets" % (key[0], key[1], allpairs[key],
                                               ranks))
            allpairs.setdefault(key, ranks)
        if res["fail"] is not None:
            run.oracle_failure(c, res["fail"], classify(c, res["fail"]))
    check_choice_oracle(run, allpairs)
    # one evaluation per case: [model observation; Coq SPECIFICATION
    # (spec_all/box/polygon/invalid)]; the second is compared with the
    # stateless Python reference
    both = common.coq_map(run.scratch, "c03", HEADER, "both_flat", rendered,
                          shard=40 if not run.thorough else 100)
    for c, (m, sp), i, isp in zip(cases, both, impl, impl_spec):
        run.corr_checked += 1
        if m != i:
            run.mismatch(c, m, i)
        run.count("spec-vs-reference")
        if sp != isp:
            run.mismatch(c, sp, isp, what="Coq spec vs Python reference")
    if run.thorough:
        exhaustive_sweep(run)


# --------------------------------------------------------------------------
def _fails(case):
    try:
        return run_impl(case)["fail"] is not None
    except Exception:
        return False


def shrink(run, failure):
    case = failure["case"]
    if "ops" not in case:
        return failure
    ops = list(case["ops"])
    changed = True
    while changed:
        changed = False
        for i in range(len(ops)):
            cand = dict(case, ops=ops[:i] + ops[i + 1:])
            if cand["ops"] and _fails(cand):
                ops = cand["ops"]
                changed = True
                break
    small = dict(case, ops=ops)
    # fewer events (any position), as long as no op names a dropped index
    changed = True
    while changed and small["n"] > 1:
        changed = False
        for e in range(small["n"] - 1, -1, -1):
            if any(o[0] == T_MANUAL for o in small["ops"]):
                break
            cand = dict(small, n=small["n"] - 1,
                        data={f: col[:e] + col[e + 1:]
                              for f, col in small["data"].items()},
                        temp={f: col[:e] + col[e + 1:]
                              for f, col in small.get("temp", {}).items()},
                        temp_alt={f: [col[:e] + col[e + 1:] for col in alts]
                                  for f, alts in
                                  small.get("temp_alt", {}).items()})
            if _fails(cand):
                small = cand
                changed = True
                break
    # fewer features
    for f in sorted(small["data"]):
        if len(small["data"]) < 2:
            break
        used = any(o[0] in RANGE_TAGS and o[1][0] == f for o in small["ops"]) \
            or any(f in v["axes"] for v in small["versions"])
        if not used:
            cand = dict(small, data={g: c for g, c in small["data"].items()
                                     if g != f})
            if _fails(cand):
                small = cand
    return dict(case=small, desc=run_impl(small)["fail"],
                finding=classify(small, ""))


def search(run, broken):
    for _ in range(15000 if run.thorough else 4000):
        c = gen_case(run.rng, True)
        res = run_impl(c)
        if res["fail"] is not None and classify(c, res["fail"]) is None:
            return shrink(run, dict(case=c, desc=res["fail"]))
    return None


def replay(payload):
    case = payload.get("case")
    if not case or "ops" not in case:
        print("replay: nothing executable in this file (kind=%s): %s" % (
            payload.get("kind"), json.dumps(payload.get("broken"))[:2000]))
        return 1
    res = run_impl(case, want_trace=True)
    print("case:", json.dumps(case))
    for tag, a, fv in case["ops"]:
        print("  ", OPNAMES[tag], a, [fv2float(p) for p in fv])
    for t in res["trace"]:
        print("after op %d: all=%s qualifying=%s" % (
            t["op"], b2z(t["got"]["all"]), b2z(t["qual"])))
    if res["fail"]:
        print("FAILS:", res["fail"])
        return 1
    print("passes on the current tree")
    return 0
