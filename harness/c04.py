"""C04 -- a hierarchy child is exactly the filtered view of its parent.

Correspondence: the real RTDC_Hierarchy / HierarchyFilter / mapper / Filter
classes over an in-memory root dataset against Model/C04.v evaluated by
vm_compute, on random interleavings of range edits, manual exclusions,
temporary-feature assignments, "enable filters"/"remove invalid events"
switches (any level), growth of the chain and rejuvenate() of the youngest
member.  Compared after every rejuvenate, per level: len, filter.all,
filter.manual, the stored root ids (as a sorted set) and every scalar
feature column plus the image column.

Property oracle (model independent, computed from the observed masks with
plain Python list operations):
  * len(child) == sum(parent.filter.all) and child[f] == parent[f][mask] for
    every feature (scalar, temporary, image, mask, contour, trace) -- and
    equal to the root's data at the composed root indices;
  * root-index-set model of the manual exclusions of every level: an event
    the user excluded at a level (and did not re-include) is excluded there
    whenever it is visible; an event the user never excluded there is not
    excluded.
"""
import json
import os
import multiprocessing

from . import common

PROP = "C04"
RULE = ("root datasets of 5..40 events (three dyadic scalar columns with "
        "NaN/inf sprinkled in, image/mask/contour/trace in a part of the "
        "cases; 8% of the roots are .rtdc files with image_bg and a contour "
        "computed from the mask), chains that grow to depth 1..4 during the "
        "history, 6..45 operations: range edit / manual exclusion or "
        "re-inclusion / temporary feature / enable-filters / remove-invalid "
        "on a random level, grow, rejuvenate of the youngest with or without "
        "reading everything afterwards, stray reads of one feature of one "
        "level at arbitrary moments (lazy caches); families: random chains, "
        "35% sliding-window scenarios, 15% siblings (two branches below 0..2 "
        "shared levels, modelled by sib_run), 8% polygon filters and 'limit "
        "events' on any level (oracle only), 5% `ext` (oracle only): root "
        "configuration changes with emodulus as computed feature, "
        "reset_filter() on a level, deleted ranges, a lone min key (the "
        "refresh raises until repaired), non-scalar temporary features on "
        "any level; non-scalar children are read with c[i], c[-1], a slice, "
        "an index array and a boolean mask; a case is non-trivial when "
        "depth >= 2 is reached, at least one manual exclusion was hidden and "
        "came back, and at least two different masks were seen on one "
        "level; distinct = different case dict")
TRUSTED_BASE = [
    "hash oracle: hashobj (md5) of two different (mask, root ids) pairs "
    "differs (modelled as equality of what is hashed)",
    "numpy boolean indexing / where / isin behave as select / where / "
    "membership over lists (modelled, compared on every run)",
    "the box/invalid filter of one level is modelled for min/max ranges "
    "(with the per-feature cache of Filter.update) and NaN/inf only; polygon "
    "filters and 'limit events' are not exercised (C03's subject)",
    "the lazy caches (`_events`, ChildScalar._array) are model state "
    "(l_cache, read); which features Filter.update reads during a refresh "
    "is modelled (reads_box, remove-invalid); stray reads are generated only "
    "on levels that are not out of date (below a separately refreshed "
    "ancestor a read may raise IndexError: boolean index of the old size); "
    "len(child) is read once right after the child is created, so that "
    "_length is always cached",
    "the non-scalar features are represented by one image-id column read "
    "through the modelled index maps; mask, contour and trace use the same "
    "code in events.py and are compared by the oracle only",
    "polygon filters and 'limit events' on intermediate levels: oracle "
    "only (the masks are those of the real code; child-is-view and the "
    "manual exclusions are judged by composing them); siblings: modelled "
    "as two chains sharing their ancestors (sib_step applies the chain "
    "operation to one of them)",
    "the model pins which features Filter.update reads during a refresh "
    "(reads_box, remove-invalid: they decide which ChildScalar arrays are "
    "cached); a Filter.update that reads more or less would be reported by "
    "the correspondence through stray reads made after "
    "set_temporary_feature on the root without a refresh, although both "
    "values are legitimate for a chain that is not refreshed (accepted)",
    "model of the root dataset: a plain Filter has no _root_ids / "
    "_parent_hash; the model gives them the values of an all-selected child "
    "(never read by the modelled code paths)",
]
ASSUMPTIONS = [
    "filter.manual[i] of a level refers to the i-th event the level had at "
    "its last refresh (also when an ancestor was refreshed on its own in "
    "between, e.g. by set_temporary_feature on that ancestor)",
    "set_temporary_feature on a level that was not refreshed after one of "
    "its ancestors may raise IndexError (judged only on refreshed levels; "
    "the correspondence check covers both)",
    "the user re-including an event (manual[i] = True) is not required to "
    "win over a stored root id (documented behaviour of "
    "retrieve_manual_indices when all entries are True): re-included events "
    "are 'don't care' for the oracle and for the theorem (g_excl/g_ever)",
    "the child's 'index' feature is renumbered by design and not compared; "
    "computed features a dict root cannot compute are skipped",
    "a half-set range (lone min key) makes the refresh raise ValueError "
    "('make sure that both ... are set'): legitimate, nothing is judged "
    "until the range is completed and the youngest rejuvenated again",
    "reset_filter() on a level makes the exclusions of that level start over "
    "(the stored root ids are dropped)",
    "index arrays for non-scalar children are increasing (h5py accepts "
    "nothing else); negative indices are not passed to the map_indices_* "
    "functions (numpy wraps them, the model's take_idx does not)",
]

GIVEN = ["deform", "area_um", "bright_avg"]
TEMPS = ["vt_c04_a", "vt_c04_b"]
NSLOT = 5            # scalar feature slots: 3 given + 2 temporary
IMG_SLOT = 5         # the image id column
MAXDEPTH = 4


# --------------------------------------------------------------------------
# values
# --------------------------------------------------------------------------
def tval(seed, j):
    """j-th value of the temporary-feature pool `seed` as (tag, k)"""
    v = (seed * 7 + j * 13 + (seed * j) % 5) % 97
    if v % 11 == 0:
        return (1, 0)
    return (0, v - 20)


def f2float(tk):
    import numpy as np
    tag, k = tk
    if tag == 0:
        return k / 8.0
    return [None, np.nan, np.inf, -np.inf][tag]


def float2f(v):
    import numpy as np
    v = float(v)
    if np.isnan(v):
        return (1, 0)
    if v == np.inf:
        return (2, 0)
    if v == -np.inf:
        return (3, 0)
    k = v * 8
    if k != int(k):
        # only in the oracle-only `ext` family (no model to compare with)
        return (4, int(round(v * 1e6)))
    return (0, int(k))


# --------------------------------------------------------------------------
# generator
# --------------------------------------------------------------------------
def gen_case(rng, thorough=False, hazard=None):
    if not hazard:
        r = rng.random()
        if r < 0.35:
            return gen_scenario(rng, thorough)
        if r < 0.50:
            return gen_sib(rng, thorough)
        if r < 0.58:
            return gen_poly(rng, thorough)
        if r < 0.63:
            return gen_ext(rng, thorough)
        if r < 0.69:
            # the root is an .rtdc file (modelled like the dict root)
            case = gen_scenario(rng, thorough)
            return dict(case, h5=True, extra=1)
    n = rng.choice([5, 6, 7, 8, 10, 12, 16, 24, 40]) if rng.random() < .8 \
        else rng.randint(5, 40)
    cols = []
    special = rng.random() < 0.35
    for c in range(3):
        col = []
        lo, hi = rng.choice([(0, 8), (0, 16), (-8, 24), (0, 40)])
        for i in range(n):
            r = rng.random()
            if special and r < 0.06:
                col.append([1, 0])
            elif special and r < 0.09:
                col.append([rng.choice([2, 3]), 0])
            else:
                col.append([0, rng.randint(lo, hi)])
        cols.append(col)
    if rng.random() < 0.3:
        # a monotone column: ranges on it are windows of root indices
        cols[0] = [[0, i] for i in range(n)]
    if hazard is None:
        hazard = rng.random() < 0.15
    # 1: mask + trace (bright_sd, inert_ratio_*, tilt become computed
    # features, the latter with NaNs the model knows nothing about: no
    # remove-invalid switches in these cases), 2: + contour (a dict root
    # cannot compute the contour-based features); compared by the oracle only
    extra = rng.choice([0, 0, 0, 0, 1, 1, 2])
    ops = []
    depth = 0
    stale_from = None    # levels > stale_from are out of sync
    nops = rng.randint(6, 60 if thorough else 45)
    ops.append([6, 0, 0, 0, 0])
    depth = 1
    # pre-grow edits on the root in some cases
    if rng.random() < 0.3:
        ops.insert(0, gen_range(rng, 0, cols))
    target = rng.choice([1, 2, 2, 3, 3, 4])
    while len(ops) < nops:
        r = rng.random()
        lvl = rng.randint(0, depth)
        if depth < target and r < 0.15:
            ops.append([6, 0, 0, 0, 0])
            depth += 1
            stale_from = None
        elif r < 0.40:
            ops.append(gen_range(rng, lvl, cols))
        elif r < 0.62:
            v = 0 if rng.random() < 0.7 else 1
            ops.append([1, lvl, rng.randint(0, 200), v, 0])
        elif r < 0.70:
            if (not hazard) and stale_from is not None and lvl > stale_from:
                lvl = rng.randint(0, stale_from)
            ops.append([2, lvl, rng.randint(0, 1), rng.randint(0, 50), 0])
            if lvl < depth:
                stale_from = lvl if stale_from is None else \
                    min(stale_from, lvl)
        elif r < 0.75:
            ops.append([4, lvl, 0 if rng.random() < 0.5 else 1, 0, 0])
        elif r < 0.80 and not extra:
            ops.append([5, lvl, 0 if rng.random() < 0.5 else 1, 0, 0])
        elif r < 0.83:
            if rng.random() < 0.5:
                ops.append([3, 4, lvl, 0, 0])               # reset_filter()
                if lvl < depth:
                    stale_from = lvl if stale_from is None else \
                        min(stale_from, lvl)
            else:
                ops.append([3, 5, lvl, rng.choice([0, 0, 1, 2, 3]), 0])
        elif r < 0.86:
            # stray read; only on a level that is not out of date (reading
            # below a separately refreshed ancestor may raise IndexError)
            if stale_from is not None and lvl > stale_from:
                lvl = rng.randint(0, stale_from)
            ops.append([3, 2, lvl, rng.randint(0, 4),
                        rng.choice([0, 0, 1, 2, 3, 4])])
        elif r < 0.90:
            ops.append([3, 1, 0, 0, 0])                     # refresh only
            stale_from = None
        else:
            ops.append([3, 0, 0, 0, 0])
            stale_from = None
    ops.append([3, 0, 0, 0, 0])
    return dict(n=n, cols=cols, extra=extra, hazard=bool(hazard), ops=ops)


def gen_scenario(rng, thorough=False):
    """Sliding windows: column 0 is the root index, so a range on it (on any
    level) is a window of root events; exclusions are made on the levels
    below the windowed one, the window moves away and comes back."""
    n = rng.choice([6, 8, 10, 12, 16, 20])
    cols = [[[0, i] for i in range(n)],
            [[0, rng.randint(0, 12)] for _ in range(n)],
            [[0, (i * 5) % 7] for i in range(n)]]
    depth = rng.choice([2, 2, 3, 3, 4])
    ops = [[6, 0, 0, 0, 0] for _ in range(depth)]
    rounds = rng.randint(3, 7 if thorough else 5)
    w = max(2, n // 2)
    # pure: only the root filters, with windows of constant width, so that
    # all masks below the root stay byte-identical while the events change
    # (a change of events must be noticed at any distance: seed C04-3)
    pure = rng.random() < 0.25
    for _ in range(rounds):
        wl = 0 if pure else rng.randint(0, depth - 1)   # the windowed level
        a = rng.randint(0, n - 1)
        if pure:
            a = rng.randint(0, n - w)
            ops.append([0, 0, 0, a, a + w - 1])
        else:
            ops.append([0, wl, 0, a, min(n - 1, a + rng.randint(1, w))])
        if not pure and rng.random() < 0.3:
            ops.append([0, rng.randint(0, depth - 1), 1, rng.randint(0, 6),
                        rng.randint(6, 12)])
        ops.append([3, 0, 0, 0, 0])
        for _ in range(rng.randint(1, 3)):
            lvl = rng.randint(1, depth)
            ops.append([1, lvl, rng.randint(0, 60),
                        0 if rng.random() < 0.8 else 1, 0])
        r = rng.random()
        if r < 0.25:
            ops.append([2, rng.randint(0, depth), rng.randint(0, 1),
                        rng.randint(0, 50), 0])
        elif r < 0.35 and not pure:
            ops.append([4, rng.randint(0, depth), rng.randint(0, 1), 0, 0])
        elif r < 0.50:
            # reset_filter() on a level below the root (its exclusions and
            # stored ids are dropped; hidden ones must not come back), or a
            # deleted range; refresh before anything else happens below
            if rng.random() < 0.6:
                ops.append([3, 4, rng.randint(1, depth), 0, 0])
            else:
                ops.append([3, 5, rng.randint(0, depth), rng.choice([0, 1]),
                            0])
            ops.append([3, 1, 0, 0, 0])
        r = rng.random()
        if r < 0.12:
            # the first access of a feature after a refresh asks for another
            # dtype; plain reads (of this level and through it) follow
            # (no refresh in between: it would empty the caches)
            ops.append([3, 1, 0, 0, 0])
            for _ in range(rng.randint(1, 2)):
                lv, sl = rng.randint(1, depth), rng.randint(0, 4)
                ops.append([3, 2, lv, sl, rng.randint(1, 4)])
                ops.append([3, 2, rng.randint(lv, depth), sl, 0])
                ops.append([3, 2, lv, sl, 0])
        elif r < 0.4:
            ops.append([3, 0, 0, 0, 0])
        elif r < 0.6:
            # refresh without reading, new root data, then stray reads: some
            # features are cached (stale), others are computed on demand
            ops.append([3, 1, 0, 0, 0])
            ops.append([3, 2, rng.randint(0, depth), rng.randint(0, 4), 0])
            ops.append([2, 0, rng.randint(0, 1), rng.randint(0, 50), 0])
            for _ in range(rng.randint(1, 3)):
                ops.append([3, 2, rng.randint(0, depth), rng.randint(0, 4),
                            0])
    ops.append([3, 0, 0, 0, 0])
    # finally open everything again: all hidden events come back
    for lvl in range(depth):
        ops.append([0, lvl, 0, -1, n + 1])
        ops.append([4, lvl, 1, 0, 0])
    ops.append([3, 0, 0, 0, 0])
    return dict(n=n, cols=cols, extra=rng.choice([0, 0, 0, 1, 2]),
                hazard=False, ops=ops)


def gen_sib(rng, thorough=False):
    """Sibling children: two branches below shared ancestors, refreshed in
    alternation (they share the parent object and its filter)."""
    n = rng.choice([6, 8, 10, 12, 16])
    cols = [[[0, i] for i in range(n)],
            [[0, rng.randint(0, 12)] for _ in range(n)],
            [[0, (i * 3) % 5] for i in range(n)]]
    nshared = rng.choice([0, 0, 1, 2])           # shared levels below root
    ops = [[6, 0, 0, 0, 0] for _ in range(nshared)]
    if nshared and rng.random() < 0.5:
        ops.append([1, nshared, rng.randint(0, 40), 0, 0])
    ops.append([7, 0, 0, 0, 0])
    da = rng.choice([1, 1, 2])
    db = rng.choice([1, 1, 2])
    ops += [[6, 0, 0, 0, 0] for _ in range(da)]
    ops += [[16, 0, 0, 0, 0] for _ in range(db)]
    depth = [nshared + da, nshared + db]
    w = max(2, n // 2)
    for _ in range(rng.randint(4, 10 if thorough else 7)):
        br = rng.randint(0, 1)
        t = 10 * br
        r = rng.random()
        if r < 0.35:
            # window on a shared level or on the branch
            lvl = rng.randint(0, depth[br] - 1)
            a = rng.randint(0, n - 1)
            ops.append([t, lvl, 0, a, min(n - 1, a + rng.randint(1, w))])
        elif r < 0.70:
            lvl = rng.randint(1, depth[br])
            ops.append([t + 1, lvl, rng.randint(0, 60),
                        0 if rng.random() < 0.8 else 1, 0])
        elif r < 0.78:
            ops.append([t + 2, rng.randint(0, depth[br]), rng.randint(0, 1),
                        rng.randint(0, 50), 0])
        elif r < 0.84:
            ops.append([t + 4, rng.randint(0, depth[br]), rng.randint(0, 1),
                        0, 0])
        else:
            ops.append([t + 3, 0, 0, 0, 0])
        r = rng.random()
        if r < 0.45:
            ops.append([10 * rng.randint(0, 1) + 3, 0, 0, 0, 0])
        elif r < 0.6:
            # refresh one branch without reading, then a stray read there
            b2 = rng.randint(0, 1)
            ops.append([10 * b2 + 3, 1, 0, 0, 0])
            ops.append([10 * b2 + 3, 2, rng.randint(0, depth[b2]),
                        rng.randint(0, 4), rng.choice([0, 0, 1, 3, 4])])
    for lvl in range(nshared + 1):
        ops.append([0, lvl, 0, -1, n + 1])
    ops += [[3, 0, 0, 0, 0], [13, 0, 0, 0, 0], [3, 0, 0, 0, 0]]
    case = dict(n=n, cols=cols, extra=rng.choice([0, 0, 1]), hazard=False,
                family="sib", ops=ops)
    if rng.random() < 0.15:
        case.update(h5=True, extra=1)        # an .rtdc root
    return case


def gen_poly(rng, thorough=False):
    """Polygon filters and 'limit events' on any level (oracle only: the
    masks are taken from the real code, child-is-view and the manual
    exclusions are judged by composing them)."""
    case = gen_scenario(rng, thorough)
    n = case["n"]
    depth = sum(1 for o in case["ops"] if o[0] == 6)
    ops = []
    for o in case["ops"]:
        ops.append(o)
        if o[0] == 3 and rng.random() < 0.6:
            lvl = rng.randint(0, depth)
            if rng.random() < 0.5:
                a = rng.randint(0, n - 1)
                ops.append([8, lvl, a, a + rng.randint(1, n), rng.randint(0, 12)])
            else:
                ops.append([9, lvl, rng.choice([0, 1, 2, 3, n // 2, n]), 0, 0])
    return dict(case, family="poly", ops=ops, extra=rng.choice([0, 0, 1]))


def gen_ext(rng, thorough=False):
    """Oracle-only family: root configuration changes (a computed feature,
    emodulus, depends on them), reset_filter() on a level, deleted and
    half-set ranges, non-scalar temporary features on any level."""
    case = gen_scenario(rng, thorough)
    n = case["n"]
    depth = sum(1 for o in case["ops"] if o[0] == 6)
    ops = []
    first = True
    nconf = 0
    for o in case["ops"]:
        ops.append(o)
        if o[0] != 3 or o[1] != 0:
            continue
        if first:
            # every case has a non-scalar temporary feature from the start
            first = False
            ops.append([2, rng.randint(0, depth), 2, rng.randint(0, 50), 0])
            ops.append([3, 0, 0, 0, 0])
        r = rng.random()
        lvl = rng.randint(0, depth)
        if r < 0.25 and nconf < 3:
            # (every change costs an interpolation of the emodulus LUT)
            nconf += 1
            ops.append([3, 3, rng.randint(0, 30), 0, 0])
            if rng.random() < 0.5:
                ops.append([3, 0, 0, 0, 0])
        elif r < 0.40:
            ops.append([3, 4, lvl, 0, 0])
        elif r < 0.50:
            ops.append([3, 5, lvl, rng.choice([0, 0, 1]), 0])
        elif r < 0.60:
            slot = rng.choice([0, 1])
            ops.append([3, 6, lvl, slot, rng.randint(0, n)])
            ops.append([3, rng.choice([0, 1]), 0, 0, 0])     # raises
            a = rng.randint(0, n - 1)
            ops.append([0, lvl, slot, a, a + rng.randint(1, n)])
            ops.append([3, 0, 0, 0, 0])
        elif r < 0.75:
            ops.append([2, lvl, 2, rng.randint(0, 50), 0])
            ops.append([3, rng.choice([0, 1]), 0, 0, 0])
    return dict(case, family="ext", ops=ops, extra=rng.choice([0, 0, 1]))


def gen_range(rng, lvl, cols):
    f = rng.choice([0, 0, 0, 1, 1, 2, 3, 4])
    if f < 3:
        vals = [k for t, k in cols[f] if t == 0] or [0]
    else:
        vals = list(range(-20, 77))
    c = rng.random()
    if c < 0.1:
        lo = hi = rng.choice(vals)          # min == max: no filtering
    elif c < 0.2:
        lo, hi = min(vals) - 1, max(vals) + 1   # everything
    elif c < 0.27:
        lo, hi = max(vals) + 1, max(vals) + 9   # nothing
    else:
        a, b = rng.choice(vals), rng.choice(vals)
        lo, hi = min(a, b), max(a, b)
        if rng.random() < 0.08:
            lo, hi = hi, lo                 # inverted (the code swaps)
    return [0, lvl, f, lo, hi]


# --------------------------------------------------------------------------
# the implementation
# --------------------------------------------------------------------------
def ops_of(case):
    """remove-invalid switches are dropped when computed features with
    NaNs exist (see gen_case)"""
    if case.get("extra"):
        return [o for o in case["ops"] if o[0] != 5]
    return case["ops"]


def _register():
    import dclab
    from dclab.definitions import feat_logic
    for t in TEMPS:
        if not feat_logic.feature_exists(t):
            dclab.register_temporary_feature(t)
    if not feat_logic.feature_exists(NS_TEMP):
        dclab.register_temporary_feature(NS_TEMP, is_scalar=False)


NS_TEMP = "vt_c04_ns"          # a non-scalar temporary feature


def unit(case, slot, k):
    """value of the integer k of a case in the units of feature `slot`: k/8,
    except in the `ext` family where deform and area_um are scaled into the
    range of the emodulus look-up table"""
    if case.get("family") == "ext":
        if slot == 0:
            return 0.02 + 0.0025 * k
        if slot == 1:
            return 60.0 + 1.5 * k
    return k / 8.0


def make_root(case):
    import numpy as np
    import dclab
    n = case["n"]
    d = {}
    for slot, (name, col) in enumerate(zip(GIVEN, case["cols"])):
        d[name] = np.array(
            [unit(case, slot, tk[1]) if tk[0] == 0 else f2float(tk)
             for tk in col], dtype=np.float64)
    ids = np.arange(n, dtype=np.uint8) + 3
    d["image"] = np.zeros((n, 4, 5), dtype=np.uint8) + ids[:, None, None]
    if case.get("extra"):
        d["mask"] = (np.arange(20).reshape(1, 4, 5) % (ids[:, None, None]
                                                      % 5 + 2)) == 0
        if case["extra"] == 2:
            d["contour"] = [np.array([[i, 1], [i + 1, 2], [3, i]] +
                                     [[7, 7]] * (i % 3), dtype=np.int32)
                            for i in range(n)]
        d["trace"] = {"fl1_raw": (np.arange(6, dtype=np.int16)[None, :]
                                  + ids[:, None].astype(np.int16)),
                      "fl1_median": (np.arange(6, dtype=np.int16)[None, :] * 2
                                     + ids[:, None].astype(np.int16))}
    if case.get("h5"):
        return make_h5_root(case, d)
    ds = dclab.new_dataset(d)
    if case.get("family") == "ext":
        ds.config["setup"]["channel width"] = 20.0
        ds.config["setup"]["flow rate"] = 0.04
        ds.config["imaging"]["pixel size"] = 0.34
        ds.config["calculation"]["emodulus lut"] = "LE-2D-FEM-19"
        ds.config["calculation"]["emodulus medium"] = "CellCarrier"
        ds.config["calculation"]["emodulus temperature"] = 23.0
        ds.config["calculation"]["emodulus viscosity model"] = \
            "buyukurganci-2022"
    return ds


def make_h5_root(case, d):
    """the same data in an .rtdc file: h5py-backed features, contour
    computed lazily from the mask, image_bg"""
    import tempfile
    import numpy as np
    import dclab
    from . import gen
    tdir = tempfile.mkdtemp(prefix="verif-C04-h5-",
                            dir=os.environ.get("VERIF_SCRATCH", "/var/tmp"))
    path = os.path.join(tdir, "root.rtdc")
    feats = {k: v for k, v in d.items() if k != "contour"}
    feats["image_bg"] = (feats["image"] // 2).astype(np.uint8)
    meta = gen.base_meta(with_fl="trace" in feats)
    meta["imaging"]["roi size x"] = 5
    meta["imaging"]["roi size y"] = 4
    if "trace" in feats:
        meta["fluorescence"]["samples per event"] = 6
    with dclab.RTDCWriter(path, mode="reset") as hw:
        hw.store_metadata(meta)
        for k, v in feats.items():
            hw.store_feature(k, v)
    ds = dclab.new_dataset(path)
    ds._verif_tmpdir = tdir
    return ds


def scalar_slots(ds):
    out = []
    for s, name in enumerate(GIVEN + TEMPS):
        if name in ds:
            out.append((s, name))
    return out


def masks_of(chain):
    import numpy as np
    return [np.array(ds.filter.all, dtype=bool).tolist() for ds in chain]


def root_ids_of(masks, n):
    """visible root ids of every level, composed with plain list code"""
    vis = [list(range(n))]
    for m in masks[:-1]:
        prev = vis[-1]
        if len(m) != len(prev):
            return None
        vis.append([r for r, b in zip(prev, m) if b])
    return vis


def feat_list(data, kind):
    """canonical python value of a whole feature for comparison"""
    import numpy as np
    if kind == "scalar":
        return [float2f(v) for v in np.asarray(data[:], dtype=np.float64)]
    if kind == "nd":
        return [np.asarray(data[i]).tolist() for i in range(len(data))]
    raise ValueError(kind)


class Node:
    """one dataset of the hierarchy with the oracle's knowledge about it"""

    def __init__(self, ds, vis):
        self.ds = ds
        self.excl = set()        # root ids the user excluded here
        self.ever = set()        # ... ever excluded here
        self.vis_ref = vis       # root ids of its events at its last refresh
        self.fresh = True        # refreshed after all of its ancestors
        self.seen_hidden = set()
        self.last_mask = None


def run_impl(case):
    """Returns (flat, failure or None, stats dict).

    Families: "chain" (default), "sib" (two branches below shared ancestors:
    tag + 10 addresses branch b, tag 7 moves branch a into the shared part),
    "poly" (chain with polygon filters, tag 8, and 'limit events', tag 9, on
    any level; oracle only)."""
    import warnings
    import numpy as np
    import dclab
    from dclab.rtdc_dataset.fmt_hierarchy import hfilter
    warnings.simplefilter("ignore")
    _register()
    n = case["n"]
    root = make_root(case)
    try:
        return _run_impl(case, root)
    finally:
        tdir = getattr(root, "_verif_tmpdir", None)
        if tdir:
            import shutil
            try:
                root.close()
            except Exception:
                pass
            shutil.rmtree(tdir, ignore_errors=True)


def _run_impl(case, root):
    import numpy as np
    import dclab
    from dclab.rtdc_dataset.fmt_hierarchy import hfilter
    n = case["n"]
    halfset = set()              # (id(ds), name) with a lone "min" key
    rootnode = Node(root, list(range(n)))
    shared = [rootnode]          # root first
    branch = [[], []]            # the two branches below the shared part
    flat = []
    fail = [None]
    stats = dict(maxdepth=0, hidden_back=0, mask_changes=0, obs=0)

    def oracle_fail(msg):
        if fail[0] is None:
            fail[0] = msg

    def refreshed(chain, upto):
        """chain[0..upto] were refreshed in this order"""
        vis = root_ids_of(masks_of([nd.ds for nd in chain[:upto + 1]]), n)
        if vis is None:
            oracle_fail("after op %d: the filter sizes of levels 0..%d do "
                        "not match the event counts" % (opi, upto))
            return
        done = set()
        for k in range(upto + 1):
            chain[k].vis_ref = vis[k]
            chain[k].fresh = True
            done.add(id(chain[k]))
        if upto == 0:
            return
        # everything below a refreshed dataset that was not refreshed
        # itself is now out of date
        for br in (0, 1):
            for nd in branch[br]:
                if id(nd) not in done:
                    nd.fresh = False
        for k, nd in enumerate(shared):
            if id(nd) not in done and k > 0:
                nd.fresh = False

    for opi, op in enumerate(ops_of(case)):
        tag, a, b, c, d = op
        br, tag = (tag // 10) % 2, tag % 10
        chain = shared + branch[br]
        depth = len(chain) - 1
        try:
            if tag == 0:
                lvl = a % (depth + 1)
                name = (GIVEN + TEMPS)[b % NSLOT]
                ds = chain[lvl].ds
                ds.config["filtering"][name + " min"] = unit(case, b % NSLOT,
                                                             c)
                ds.config["filtering"][name + " max"] = unit(case, b % NSLOT,
                                                             d)
                halfset.discard((id(ds), name))
            elif tag == 1:
                lvl = a % (depth + 1)
                nd = chain[lvl]
                man = nd.ds.filter.manual
                if len(man) != len(nd.vis_ref):
                    oracle_fail("op %d: filter.manual of level %d has size "
                                "%d, the level had %d events at its last "
                                "refresh" % (opi, lvl, len(man),
                                             len(nd.vis_ref)))
                elif len(man):
                    i = b % len(man)
                    r = nd.vis_ref[i]
                    if c:
                        nd.excl.discard(r)
                    else:
                        nd.excl.add(r)
                        nd.ever.add(r)
                    man[i] = bool(c)
            elif tag == 2:
                lvl = a % (depth + 1)
                nd = chain[lvl]
                name = TEMPS[b % 2]
                m = len(nd.ds)
                data = np.array([f2float(tval(c, j)) for j in range(m)],
                                dtype=np.float64)
                if b == 2 and case.get("family") == "ext":
                    # non-scalar temporary feature (m, 2, 2)
                    name = NS_TEMP
                    data = data[:, None, None] * np.array([[1., 2.],
                                                           [3., 4.]])
                was_fresh, before = nd.fresh, list(nd.vis_ref)
                try:
                    dclab.set_temporary_feature(nd.ds, name, data)
                    flat += [2, 0]
                    if lvl:
                        refreshed(chain, lvl)
                    if was_fresh and len(before) == m:
                        # the values were assigned to the events the level
                        # consisted of (pending edits of its ancestors may
                        # change its events in the refresh that follows)
                        back = np.asarray(root[name][:])
                        want = np.full((n,) + data.shape[1:], np.nan)
                        if m:
                            want[before] = data
                        if back.shape != want.shape or not np.array_equal(
                                back, want, equal_nan=True):
                            oracle_fail("op %d: temporary feature %s set on "
                                        "level %d did not reach the level's "
                                        "events in the root" % (opi, name,
                                                                lvl))
                except IndexError:
                    # only legitimate on a level that was not refreshed
                    # after one of its ancestors was
                    flat += [2, 1]
                    if nd.fresh:
                        oracle_fail("op %d: set_temporary_feature on level "
                                    "%d raised IndexError" % (opi, lvl))
            elif tag == 3 and a in (0, 1):
                pending = [nd for nd in chain
                           if any(k[0] == id(nd.ds) for k in halfset)]
                try:
                    if depth:
                        chain[-1].ds.rejuvenate()
                    else:
                        root.apply_filter()
                except ValueError:
                    if not pending:
                        raise
                    # "make sure that both min and max are set": legitimate
                    continue
                if pending:
                    oracle_fail("op %d: rejuvenate did not complain about "
                                "a half-set range" % opi)
                refreshed(chain, depth)
                if a == 0:
                    flat += observe(case, chain, oracle_fail, stats, opi)
            elif tag == 3 and a == 3:
                # configuration change on the root (metadata for computed
                # features): oracle only
                calc = root.config["calculation"]
                if b % 4 == 0:
                    calc["emodulus medium"] = "water" if \
                        calc["emodulus medium"] == "CellCarrier" else \
                        "CellCarrier"
                else:
                    calc["emodulus temperature"] = 20.0 + (b % 15)
            elif tag == 3 and a == 4:
                # reset_filter() on a level: exclusions start over
                lvl = b % (depth + 1)
                nd = chain[lvl]
                nd.ds.reset_filter()
                # filter.all of this level is all-True at once (the filter
                # arrays are re-created): everything below is out of date
                for other in chain[lvl + 1:]:
                    other.fresh = False
                if lvl < len(shared):
                    for brn in branch:
                        for other in brn:
                            other.fresh = False
                nd.excl = set()
                nd.ever = set()
                nd.seen_hidden = set()
                for nm in GIVEN + TEMPS:
                    halfset.discard((id(nd.ds), nm))
            elif tag == 3 and a == 5:
                # the range keys of one feature are deleted
                lvl = b % (depth + 1)
                name = (GIVEN + TEMPS)[c % NSLOT]
                cfg = chain[lvl].ds.config["filtering"]
                cfg.pop(name + " min", None)
                cfg.pop(name + " max", None)
                halfset.discard((id(chain[lvl].ds), name))
            elif tag == 3 and a == 6:
                # a lone "min" key: the next refresh through this level
                # raises ValueError until the range is completed
                lvl = b % (depth + 1)
                name = GIVEN[c % 3]
                cfg = chain[lvl].ds.config["filtering"]
                cfg[name + " min"] = unit(case, c % 3, d)
                cfg.pop(name + " max", None)
                halfset.add((id(chain[lvl].ds), name))
            elif tag == 3 and a == 2:
                # read one feature of one level at an arbitrary moment (no
                # refresh): fills the lazy caches; the value may be stale
                lvl = b % (depth + 1)
                name = (GIVEN + TEMPS)[c % NSLOT]
                ds = chain[lvl].ds
                DT = [None, np.float32, np.float16, np.int64, bool]
                dt = DT[d % 5]
                if name in ds and dt is not None:
                    # np.asarray(child[feat], dtype=...): the caller gets a
                    # cast copy; the cache must keep the uncast array
                    try:
                        got = np.asarray(ds[name], dtype=dt)
                        flat += [31, 5, d % 5]
                        if got.dtype != np.dtype(dt):
                            oracle_fail("op %d: np.asarray(ds[%r], dtype=%s) "
                                        "has dtype %s" % (opi, name, dt,
                                                          got.dtype))
                    except IndexError:
                        flat += [31, 9]
                        if chain[lvl].fresh:
                            oracle_fail("op %d: reading %s on level %d "
                                        "raised IndexError" % (opi, name,
                                                               lvl))
                elif name in ds:
                    try:
                        arr = np.asarray(ds[name][:])
                        want_dt = np.asarray(root[name][:]).dtype
                        if arr.dtype != want_dt:
                            oracle_fail("op %d: %s on level %d has dtype %s, "
                                        "the root's is %s" % (
                                            opi, name, lvl, arr.dtype,
                                            want_dt))
                        vals = feat_list(ds[name], "scalar")
                    except IndexError:
                        # legitimate only below a separately refreshed level
                        vals = None
                        if chain[lvl].fresh:
                            oracle_fail("op %d: reading %s on level %d "
                                        "raised IndexError" % (opi, name,
                                                               lvl))
                    if vals is None:
                        flat += [31, 9]
                    else:
                        flat += [31, 1]
                        for t, k in vals:
                            flat += [t, k]
                else:
                    flat += [31, 0]
            elif tag == 4:
                lvl = a % (depth + 1)
                chain[lvl].ds.config["filtering"]["enable filters"] = bool(b)
            elif tag == 5:
                lvl = a % (depth + 1)
                chain[lvl].ds.config["filtering"]["remove invalid events"] \
                    = bool(b)
            elif tag == 6:
                if depth < MAXDEPTH:
                    child = dclab.new_dataset(chain[-1].ds)
                    len(child)           # fills the _length cache
                    nd = Node(child, [])
                    branch[br].append(nd)
                    refreshed(chain + [nd], depth + 1)
                    stats["maxdepth"] = max(stats["maxdepth"], depth + 1)
            elif tag == 7:
                if not branch[1]:
                    shared = shared + branch[0]
                    branch = [[], []]
            elif tag == 8:
                # polygon filter (deform, area_um) on a level; oracle only
                lvl = a % (depth + 1)
                x0, x1 = sorted([b / 8.0, c / 8.0])
                pf = dclab.PolygonFilter(
                    axes=(GIVEN[0], GIVEN[1]),
                    points=[[x0 - .01, -100], [x1 + .01, -100],
                            [x1 + .01, d / 8.0 + .01], [x0 - .01, 100]])
                chain[lvl].ds.polygon_filter_add(pf)
            elif tag == 9:
                lvl = a % (depth + 1)
                chain[lvl].ds.config["filtering"]["limit events"] = int(b)
        except (Exception, hfilter.HierarchyFilterError) as e:
            flat += [99]
            oracle_fail("op %d %r raised %r" % (opi, op, e))
            break
    # the user's intent as tracked by the oracle, root first (compared with
    # the specification spec_run of the Coq development)
    flat += [-5]
    for nd in shared + branch[0]:
        flat += sorted(nd.excl) + [-7] + sorted(nd.ever) + [-7]
    if case.get("family") == "sib":
        flat += [-6]
        for nd in shared + branch[1]:
            flat += sorted(nd.excl) + [-7] + sorted(nd.ever) + [-7]
    return flat, fail[0], stats


def observe(case, nodes, oracle_fail, stats, opi):
    import numpy as np
    n = case["n"]
    flat = []
    chain = [nd.ds for nd in nodes]
    masks = masks_of(chain)
    vis = root_ids_of(masks, n)
    stats["obs"] += 1
    root = chain[0]
    for lvl, ds in enumerate(chain):
        nd = nodes[lvl]
        excl, ever, seen_hidden = nd.excl, nd.ever, nd.seen_hidden
        length = int(len(ds))
        man = np.array(ds.filter.manual, dtype=bool).tolist()
        flat += [100 + lvl, length] + [int(x) for x in masks[lvl]] + [-7] \
            + [int(x) for x in man] + [-7]
        if lvl >= 1:
            flat += sorted(set(int(x) for x in ds.filter._man_root_ids))
        flat += [-7]
        if nd.last_mask is not None and nd.last_mask != masks[lvl]:
            stats["mask_changes"] += 1
        nd.last_mask = masks[lvl]
        # ---- correspondence observables: columns
        for s, name in scalar_slots(ds):
            col = feat_list(ds[name], "scalar")
            flat += [-8, s]
            for t, k in col:
                flat += [t, k]
        img = ds["image"]
        flat += [-8, IMG_SLOT]
        for i in range(length):
            flat += [0, int(np.asarray(img[i])[0, 0])]
        if lvl >= 1:
            # mapper.py, directly
            from dclab.rtdc_dataset.fmt_hierarchy import (
                map_indices_child2root, map_indices_root2child)
            try:
                up = [int(x) for x in map_indices_child2root(
                    ds, np.arange(length))]
            except IndexError:
                up = [-99]
            even = np.arange(0, n, 2)
            down = [int(x) for x in map_indices_root2child(ds, even)]
            flat += [-9] + up + [-9] + down
            # the one-level maps, unsorted arguments with a duplicate
            from dclab.rtdc_dataset.fmt_hierarchy import (
                map_indices_child2parent, map_indices_parent2child)
            plen = int(len(chain[lvl - 1]))
            cidx = [length - 1, 0, length - 1] if length else []
            pidx = [plen - 1, 0, plen - 1] if plen else []
            try:
                up1 = [int(x) for x in map_indices_child2parent(
                    ds, np.array(cidx, dtype=int))]
            except IndexError:
                up1 = [-99]
            down1 = [int(x) for x in map_indices_parent2child(
                ds, np.array(pidx, dtype=int))]
            flat += [-9] + up1 + [-9] + down1
            if len(masks[lvl - 1]) == plen:
                w = [j for j, m_ in enumerate(masks[lvl - 1]) if m_]
                if length == len(w):
                    if up1 != [w[i] for i in cidx]:
                        oracle_fail("op %d, level %d: map_indices_"
                                    "child2parent(%s) gives %s" % (
                                        opi, lvl, cidx, up1))
                    wantd = [j for j, q in enumerate(w) if q in pidx]
                    if down1 != wantd:
                        oracle_fail("op %d, level %d: map_indices_"
                                    "parent2child(%s) gives %s, expected %s"
                                    % (opi, lvl, pidx, down1, wantd))
            if vis is not None and len(vis[lvl]) == length:
                if up != vis[lvl]:
                    oracle_fail("op %d, level %d: map_indices_child2root "
                                "gives %s, composed masks give %s" % (
                                    opi, lvl, up, vis[lvl]))
                want = [j for j, r in enumerate(vis[lvl]) if r % 2 == 0]
                if down != want:
                    oracle_fail("op %d, level %d: map_indices_root2child of "
                                "the even root ids gives %s, expected %s" % (
                                    opi, lvl, down, want))
        # ---- property oracle
        where = "op %d (rejuvenate), level %d: " % (opi, lvl)
        if vis is None or len(vis[lvl]) != length:
            oracle_fail(where + "len(child) = %d but the parent's filter "
                        "selects %d events" % (
                            length, int(sum(masks[lvl - 1])) if lvl else n))
            continue
        if len(man) != length or len(masks[lvl]) != length:
            oracle_fail(where + "filter arrays have size %d/%d, dataset "
                        "has %d events" % (len(man), len(masks[lvl]), length))
            continue
        if lvl >= 1:
            parent = chain[lvl - 1]
            pm = np.array(masks[lvl - 1], dtype=bool)
            sel = np.where(pm)[0]
            # the child's own event index is 1..len (renumbered by design)
            idx_arr = np.asarray(ds["index"][:])
            if idx_arr.tolist() != list(range(1, length + 1)):
                oracle_fail(where + "child['index'] is %s, expected 1..%d"
                            % (idx_arr.tolist()[:8], length))
            # ChildScalar.min/max/mean (cached per feature object)
            for s_, name in scalar_slots(ds):
                want = np.asarray(root[name][:], dtype=float)[vis[lvl]] \
                    if length else np.zeros(0)
                if not np.any(np.isfinite(want)):
                    continue
                feat_obj = ds[name]
                for fn, ref in (("min", np.nanmin), ("max", np.nanmax),
                                ("mean", np.nanmean)):
                    if fn != "mean" and np.any(np.isinf(want)):
                        pass
                    got = getattr(feat_obj, fn)()
                    exp = ref(want)
                    if not (got == exp or (np.isnan(got) and np.isnan(exp))
                            or abs(got - exp) <= 1e-12 * max(1, abs(exp))):
                        oracle_fail(where + "%s.%s() is %r, the view's is "
                                    "%r" % (name, fn, got, exp))
            for name in ds.features:
                if name == "index":
                    continue
                try:
                    root[name]
                except ValueError:
                    # not computable for this kind of root dataset
                    continue
                msg = view_mismatch(ds, parent, root, name, sel, vis[lvl])
                if msg:
                    oracle_fail(where + msg)
            # manual exclusions in root coordinates
            for i, r in enumerate(vis[lvl]):
                if r in excl and man[i]:
                    oracle_fail(where + "root event %d was manually "
                                "excluded on this level but "
                                "filter.manual[%d] is True" % (r, i))
                if r not in ever and not man[i]:
                    oracle_fail(where + "root event %d was never "
                                "excluded on this level but "
                                "filter.manual[%d] is False" % (r, i))
            visset = set(vis[lvl])
            for r in excl:
                if r in visset and r in seen_hidden:
                    stats["hidden_back"] += 1
                    seen_hidden.discard(r)
                elif r not in visset:
                    seen_hidden.add(r)
        else:
            want = [i not in excl for i in range(n)]
            if man != want:
                oracle_fail(where + "root manual filter changed")
    return flat


def view_mismatch(ds, parent, root, name, sel, rootids):
    """child[name] must equal parent[name] restricted to sel (in order) and
    the root's data at rootids"""
    import numpy as np

    def eq(a, b):
        a = np.asarray(a)
        b = np.asarray(b)
        if a.shape != b.shape:
            return False
        if a.dtype.kind == "f" or b.dtype.kind == "f":
            return bool(np.array_equal(a, b, equal_nan=True))
        return bool(np.array_equal(a, b))

    def forms_mismatch(c, rootfeat, label0, ragged=False):
        """the other index forms of a non-scalar child feature: negative,
        slice, increasing index array (h5py accepts nothing else), boolean
        mask -- each against the root's events"""
        m = len(sel)
        if not m:
            return None
        if not eq(c[-1], rootfeat[rootids[m - 1]]):
            return "%s[-1] differs from the root's event" % label0
        if ragged:
            # variable-length events (contour): only where the root
            # itself supports these index forms
            try:
                rootfeat[np.array([0])]
            except TypeError:
                return None
        forms = [("[0:2]", lambda: c[0:2], list(range(m))[0:2]),
                 ("[[0, m-1]]", lambda: c[np.array(sorted({0, m - 1}))],
                  sorted({0, m - 1})),
                 ("[bool]", lambda: c[np.arange(m) % 2 == 0],
                  list(range(0, m, 2)))]
        for label, get, idx in forms:
            got = get()
            if len(got) != len(idx):
                return "%s%s has %d events, expected %d" % (
                    label0, label, len(got), len(idx))
            for g, i in zip(got, idx):
                if not eq(g, rootfeat[rootids[i]]):
                    return "%s%s differs from the root's events" % (
                        label0, label)
        return None

    if name == "trace":
        for tr in parent["trace"]:
            if tr not in ds["trace"]:
                return "trace %s missing in child" % tr
            c = ds["trace"][tr]
            if len(c) != len(sel):
                return "trace %s has %d events, expected %d" % (
                    tr, len(c), len(sel))
            for i, (p, r) in enumerate(zip(sel, rootids)):
                if not eq(c[i], parent["trace"][tr][p]) or \
                        not eq(c[i], root["trace"][tr][r]):
                    return "trace %s differs at child event %d" % (tr, i)
            msg = forms_mismatch(c, root["trace"][tr], "trace %s" % tr)
            if msg:
                return msg
        return None
    if name in ("image", "mask", "contour", "image_bg"):
        c = ds[name]
        if len(c) != len(sel):
            return "%s has %d events, expected %d" % (name, len(c), len(sel))
        for i, (p, r) in enumerate(zip(sel, rootids)):
            if not eq(c[i], parent[name][p]) or not eq(c[i], root[name][r]):
                return "%s differs at child event %d" % (name, i)
        return forms_mismatch(c, root[name], name, ragged=(name == "contour"))
    c = np.asarray(ds[name][:])
    p = np.asarray(parent[name][:])[sel] if len(sel) else \
        np.asarray(parent[name][:])[:0]
    rdt = np.asarray(root[name][:]).dtype
    if c.dtype != rdt:
        return "feature %s has dtype %s, the root's is %s" % (
            name, c.dtype, rdt)
    if not eq(c, p):
        return "feature %s is %s, parent restricted to its filter is %s" % (
            name, c.tolist(), p.tolist())
    r = np.asarray(root[name][:])[rootids] if len(rootids) else \
        np.asarray(root[name][:])[:0]
    if not eq(c, r):
        return "feature %s is %s, the root at the visible ids is %s" % (
            name, c.tolist(), r.tolist())
    return None


# --------------------------------------------------------------------------
# rendering for Coq
# --------------------------------------------------------------------------
def render(case):
    cols = common.clist([
        common.clist(["(%d, %s)" % (t, common.zlit(k)) for t, k in col])
        for col in case["cols"]])
    ops = common.clist(["(%s)" % ", ".join(common.zlit(x) for x in o)
                        for o in ops_of(case)])
    return "(%d, %s, %s)" % (case["n"], cols, ops)


HEADER = ("From Coq Require Import ZArith List.\nImport ListNotations.\n"
          "From Verif Require Import Model.C04.\n")


def load_corpus():
    d = os.path.join(common.VERIF, "corpus", PROP)
    cases = []
    if os.path.isdir(d):
        for fn in sorted(os.listdir(d)):
            if fn.endswith(".json"):
                cases.append(json.load(open(os.path.join(d, fn)))["case"])
    return cases


def classify(case, desc):
    return None


def _work(case):
    import warnings
    warnings.simplefilter("ignore")
    try:
        return run_impl(case)
    except BaseException as e:   # harness trouble: report as failure
        return [98], "harness/implementation crashed: %r" % (e,), \
            dict(maxdepth=0, hidden_back=0, mask_changes=0, obs=0)


def impl_map(cases):
    if len(cases) < 8:
        return [_work(c) for c in cases]
    ctx = multiprocessing.get_context("fork")
    with ctx.Pool(min(common.NCPU, 12)) as pool:
        return pool.map(_work, cases, chunksize=4)


def run(run):
    ncases = 2000 if run.thorough else 220
    cases = load_corpus()
    run.count("corpus", len(cases))
    while len(cases) < ncases:
        cases.append(gen_case(run.rng, run.thorough))
    results = impl_map(cases)
    for c, (flat, fail, stats) in zip(cases, results):
        nontrivial = (stats["maxdepth"] >= 2 and stats["hidden_back"] >= 1
                      and stats["mask_changes"] >= 2)
        run.record_case(c, nontrivial)
        run.count("depth=%d" % stats["maxdepth"])
        run.count("n<=%d" % (10 * ((c["n"] + 9) // 10)))
        run.count("hidden-came-back", stats["hidden_back"])
        run.count("observations", stats["obs"])
        run.count("family:" + c.get("family", "chain"))
        if c.get("hazard"):
            run.count("hazard-cases")
        if c.get("extra"):
            run.count("with-mask-contour-trace")
        if c.get("h5"):
            run.count("root:rtdc")
        for o in ops_of(c):
            t = o[0] % 10
            if t == 3:
                key = ["op:rejuvenate+read-all", "op:rejuvenate-only",
                       "op:stray-read", "op:root-config", "op:reset_filter",
                       "op:range-deleted", "op:lone-min"][o[1]] \
                    if 0 <= o[1] <= 6 else "op:3-other"
                if o[1] == 2 and o[4] % 5:
                    key = "op:stray-read-with-dtype"
            elif t == 2 and o[2] == 2 and c.get("family") == "ext":
                key = "op:temp-nonscalar"
            else:
                key = ["op:range", "op:manual", "op:temp", "", "op:enable",
                       "op:rminvalid", "op:grow", "op:share", "op:polygon",
                       "op:limit"][t]
            run.count(key)
        if fail is not None:
            run.oracle_failure(c, fail, classify(c, fail))
    for key in ("root:rtdc", "op:stray-read", "op:stray-read-with-dtype",
                "op:reset_filter", "op:range-deleted", "op:root-config",
                "op:lone-min", "op:temp-nonscalar", "family:sib",
                "family:poly", "family:ext"):
        if not run.dist.get(key):
            run.notes.append("input class %s was not generated" % key)
            run.broken.append(("generator(C04)", "input class %s was not "
                               "generated in this run" % key))
    for fam, fn in (("chain", "run_both"), ("sib", "run_sib")):
        idx = [i for i, c in enumerate(cases)
               if c.get("family", "chain") == fam]
        model = common.coq_map(run.scratch, "c04" + fam, HEADER, fn,
                               [render(cases[i]) for i in idx], shard=20)
        for i, m in zip(idx, model):
            run.corr_checked += 1
            if m != results[i][0]:
                run.mismatch(cases[i], m, results[i][0])


# --------------------------------------------------------------------------
def shrink(run, failure):
    case = failure["case"]
    if "ops" not in case:
        return failure

    def fails(c):
        try:
            return run_impl(c)[1] is not None
        except BaseException:
            return False
    ops = list(case["ops"])
    changed = True
    while changed:
        changed = False
        for i in range(len(ops)):
            cand = dict(case, ops=ops[:i] + ops[i + 1:])
            if fails(cand):
                ops = cand["ops"]
                changed = True
                break
    small = dict(case, ops=ops)
    # fewer events
    while small["n"] > 5:
        cand = dict(small, n=small["n"] - 1,
                    cols=[col[:-1] for col in small["cols"]])
        if fails(cand):
            small = cand
        else:
            break
    if small.get("extra") and fails(dict(small, extra=0)):
        small = dict(small, extra=0)
    return dict(case=small, desc=run_impl(small)[1], finding=None)


def search(run, broken):
    """Proof or correspondence broken and the oracle quiet so far: a larger
    sweep of the property oracle on the real code."""
    total = 12000 if run.thorough else 2500
    done = 0
    while done < total:
        batch = [gen_case(run.rng, True, hazard=False) for _ in range(240)]
        done += len(batch)
        for c, (flat, fail, stats) in zip(batch, impl_map(batch)):
            if fail is not None and classify(c, fail) is None:
                return shrink(run, dict(case=c, desc=fail))
    return None


def replay(payload):
    case = payload.get("case")
    if not case or "ops" not in case:
        print("replay: nothing executable in this file (kind=%s): %s" % (
            payload.get("kind"), json.dumps(payload.get("broken"))[:2000]))
        for m in payload.get("disagreeing_cases", [])[:1]:
            print("first disagreeing case:", json.dumps(m)[:3000])
        return 1
    import warnings
    warnings.simplefilter("ignore")
    flat, fail, _ = run_impl(case)
    print("case:", json.dumps(case))
    print("implementation:", flat)
    if fail:
        print("FAILS:", fail)
        return 1
    print("passes on the current tree")
    return 0
